(* Elementary Taylor bounds for cos, sin, exp (proved from monotonicity, no series) and the pointwise small-wavenumber
   bounds of C05 for the generated Helmholtz single- and double-layer kernels, for purely real and purely imaginary k. *)
From Coq Require Import Reals Lra Lia.
From Coquelicot Require Import Coquelicot.
From Interval Require Import Tactic.
From BVgen Require Import NumbaKernels.
From BV Require Import Kernels.KernelTactics.
Open Scope R_scope.

Lemma nondecr_from_0 (f df : R -> R) (b : R) :
  0 <= b -> (forall x, 0 <= x <= b -> is_derive f x (df x)) -> (forall x, 0 <= x <= b -> 0 <= df x) -> f 0 <= f b.
Proof.
  intros Hb Hd Hp.
  destruct (MVT_gen f 0 b df) as [c [Hc E]].
  - intros x Hx. apply Hd. unfold Rmin, Rmax in Hx. destruct (Rle_dec 0 b); lra.
  - intros x Hx. unfold Rmin, Rmax in Hx. destruct (Rle_dec 0 b); try lra.
    apply derivable_continuous_pt. exists (df x). apply is_derive_Reals. apply Hd. lra.
  - unfold Rmin, Rmax in Hc. destruct (Rle_dec 0 b); try lra.
    assert (0 <= df c) by (apply Hp; lra).
    assert (0 <= df c * (b - 0)) by (apply Rmult_le_pos; lra). lra.
Qed.

Lemma sq_le_of_abs a b : - b <= a <= b -> a * a <= b * b.
Proof. intros [H1 H2]. assert (0 <= (b - a) * (b + a)) by (apply Rmult_le_pos; lra). lra. Qed.

Lemma x_minus_sin_nonneg t : 0 <= t -> 0 <= t - sin t.
Proof.
  intros Ht.
  pose proof (nondecr_from_0 (fun x => x - sin x) (fun x => 1 - cos x) t Ht) as H. cbv beta in H.
  rewrite sin_0 in H. replace (0 - 0) with 0 in H by ring. apply H.
  - intros x _. auto_derive; auto. ring.
  - intros x _. pose proof (COS_bound x). lra.
Qed.

Lemma one_minus_cos_le t : 0 <= t -> 1 - cos t <= t * t / 2.
Proof.
  intros Ht.
  pose proof (nondecr_from_0 (fun x => x * x / 2 - 1 + cos x) (fun x => x - sin x) t Ht) as H. cbv beta in H.
  rewrite cos_0 in H. assert (0 <= t * t / 2 - 1 + cos t); [|lra].
  replace 0 with (0 * 0 / 2 - 1 + 1) by field. apply H.
  - intros x _. auto_derive; auto. field.
  - intros x Hx. apply x_minus_sin_nonneg. lra.
Qed.

Lemma x_minus_sin_le t : 0 <= t -> t - sin t <= t * t * t / 6.
Proof.
  intros Ht.
  pose proof (nondecr_from_0 (fun x => x * x * x / 6 - x + sin x) (fun x => x * x / 2 - 1 + cos x) t Ht) as H. cbv beta in H.
  rewrite sin_0 in H. assert (0 <= t * t * t / 6 - t + sin t); [|lra].
  replace 0 with (0 * 0 * 0 / 6 - 0 + 0) by field. apply H.
  - intros x _. auto_derive; auto. field.
  - intros x Hx. pose proof (one_minus_cos_le x (proj1 Hx)). lra.
Qed.

Lemma cos_le_taylor4 t : 0 <= t -> cos t <= 1 - t * t / 2 + t * t * t * t / 24.
Proof.
  intros Ht.
  pose proof (nondecr_from_0 (fun x => 1 - x * x / 2 + x * x * x * x / 24 - cos x)
                             (fun x => - x + x * x * x / 6 + sin x) t Ht) as H. cbv beta in H.
  rewrite cos_0 in H. assert (0 <= 1 - t * t / 2 + t * t * t * t / 24 - cos t); [|lra].
  replace 0 with (1 - 0 * 0 / 2 + 0 * 0 * 0 * 0 / 24 - 1) by field. apply H.
  - intros x _. auto_derive; auto. field.
  - intros x Hx. pose proof (x_minus_sin_le x (proj1 Hx)). lra.
Qed.

(* |e^{it} - 1 - it| <= t^2  for |t| <= 1 *)
Lemma cis_remainder t : t * t <= 1 -> (cos t - 1) * (cos t - 1) + (sin t - t) * (sin t - t) <= (t * t) * (t * t).
Proof.
  assert (P : forall s, 0 <= s -> s * s <= 1 ->
              (cos s - 1) * (cos s - 1) + (sin s - s) * (sin s - s) <= (s * s) * (s * s)).
  { intros s Hs H1.
    pose proof (one_minus_cos_le s Hs) as A. pose proof (COS_bound s) as [_ B].
    pose proof (x_minus_sin_nonneg s Hs) as C. pose proof (x_minus_sin_le s Hs) as E.
    assert (s <= 1) by nra.
    assert (F : (cos s - 1) * (cos s - 1) <= (s * s / 2) * (s * s / 2)) by (apply sq_le_of_abs; lra).
    assert (G : (sin s - s) * (sin s - s) <= (s * s * s / 6) * (s * s * s / 6)).
    { apply sq_le_of_abs. assert (0 <= s * s * s) by (repeat apply Rmult_le_pos; lra). lra. }
    assert (s * s * s * s * s * s <= s * s * s * s) by nra.
    nra. }
  intros H. destruct (Rle_dec 0 t) as [Ht|Ht]; [apply P; assumption|].
  specialize (P (- t)). rewrite cos_neg, sin_neg in P.
  replace ((- sin t - - t) * (- sin t - - t)) with ((sin t - t) * (sin t - t)) in P by ring.
  replace (- t * - t) with (t * t) in P by ring. apply P; lra.
Qed.

(* |(1 - it) e^{it} - 1| <= t^2 for |t| <= 1 :  re = cos t + t sin t - 1,  im = sin t - t cos t *)
Lemma dl_cis_remainder t : t * t <= 1 ->
  (cos t + t * sin t - 1) * (cos t + t * sin t - 1) + (sin t - t * cos t) * (sin t - t * cos t) <= (t * t) * (t * t).
Proof.
  assert (P : forall s, 0 <= s -> s * s <= 1 ->
     (cos s + s * sin s - 1) * (cos s + s * sin s - 1) + (sin s - s * cos s) * (sin s - s * cos s) <= (s * s) * (s * s)).
  { intros s Hs H1.
    pose proof (one_minus_cos_le s Hs) as A. pose proof (COS_bound s) as [_ B].
    pose proof (x_minus_sin_nonneg s Hs) as C. pose proof (x_minus_sin_le s Hs) as E.
    pose proof (cos_le_taylor4 s Hs) as T.
    assert (S1 : s <= 1) by nra.
    set (c := cos s) in *. set (n := sin s) in *.
    (* 0 <= re <= s^2/2 + s^4/24 ;  -s^3/6 <= im <= s^3/2 *)
    assert (R1 : c + s * n - 1 <= s * s / 2 + s * s * s * s / 24).
    { assert (s * n <= s * s) by nra. lra. }
    assert (R0 : - (s * s * s * s / 6) <= c + s * n - 1).
    { assert (s * (s - s * s * s / 6) <= s * n) by (apply Rmult_le_compat_l; lra). nra. }
    assert (I1 : n - s * c <= s * s * s / 2).
    { assert (s * (1 - s * s / 2) <= s * c) by (apply Rmult_le_compat_l; lra). nra. }
    assert (I0 : - (s * s * s * s * s / 24 + s * s * s / 6) <= n - s * c).
    { assert (s * c <= s * (1 - s * s / 2 + s * s * s * s / 24)) by (apply Rmult_le_compat_l; lra). nra. }
    pose (q := s * s).
    assert (s2 : 0 <= q <= 1) by (unfold q; nra).
    assert (Q2 : q * q <= q) by nra.
    replace (s * s / 2 + s * s * s * s / 24) with (q / 2 + q * q / 24) in R1 by (unfold q; field).
    replace (s * s * s * s / 6) with (q * q / 6) in R0 by (unfold q; field).
    replace (s * s * s / 2) with (s * q / 2) in I1 by (unfold q; field).
    replace (s * s * s * s * s / 24 + s * s * s / 6) with (s * q * (q / 24 + 1 / 6)) in I0 by (unfold q; field).
    assert (Re2 : (c + s * n - 1) * (c + s * n - 1) <= (q / 2 + q * q / 24) * (q / 2 + q * q / 24)).
    { apply sq_le_of_abs. split; lra. }
    assert (Im2 : (n - s * c) * (n - s * c) <= (s * q / 2) * (s * q / 2)).
    { apply sq_le_of_abs. split; [|lra].
      assert (0 <= s * q) by (apply Rmult_le_pos; lra).
      assert (s * q * (q / 24 + 1 / 6) <= s * q / 2) by nra. lra. }
    replace (s * q / 2 * (s * q / 2)) with (q * q * q / 4) in Im2 by (unfold q; field).
    assert (q * q * q <= q * q) by nra. assert (q * q * q * q <= q * q) by nra.
    fold q. nra. }
  intros H. destruct (Rle_dec 0 t) as [Ht|Ht]; [apply P; assumption|].
  specialize (P (- t)). rewrite cos_neg, sin_neg in P.
  replace ((cos t + - t * - sin t - 1)) with (cos t + t * sin t - 1) in P by ring.
  replace ((- sin t - - t * cos t) * (- sin t - - t * cos t)) with ((sin t - t * cos t) * (sin t - t * cos t)) in P by ring.
  replace (- t * - t) with (t * t) in P by ring. apply P; lra.
Qed.

(* 0 <= e^u - 1 - u <= u^2 for |u| <= 1 *)
Lemma exp_remainder u : -1 <= u <= 1 -> 0 <= exp u - 1 - u <= u * u.
Proof.
  intros Hu. split; [pose proof (exp_ineq1_le u); lra|].
  destruct (Rle_dec u 0) as [N|N].
  - (* e^u <= 1/(1-u) and (1+u+u^2)(1-u) = 1 - u^3 >= 1 *)
    pose proof (exp_ineq1_le (- u)) as E. pose proof (exp_pos u) as Pu.
    assert (I : exp u * exp (- u) = 1) by (rewrite <- exp_plus; replace (u + - u) with 0 by ring; apply exp_0).
    assert (exp u * (1 - u) <= 1) by nra.
    assert ((1 + u + u * u) * (1 - u) >= 1) by nra.
    nra.
  - assert (Hp : 0 < u) by lra.
    destruct (Rle_dec u (2/3)) as [S|S].
    + (* f = 1 + u + u^2 - e^u, f' = 1 + 2u - e^u, f'' = 2 - e^u >= 0 on [0, 2/3] *)
      assert (D1 : forall x, 0 <= x <= 2/3 -> 0 <= 1 + 2 * x - exp x).
      { intros x Hx.
        pose proof (nondecr_from_0 (fun y => 1 + 2 * y - exp y) (fun y => 2 - exp y) x (proj1 Hx)) as H. cbv beta in H.
        rewrite exp_0 in H. replace (1 + 2 * 0 - 1) with 0 in H by ring. apply H.
        - intros y _. auto_derive; auto. ring.
        - intros y Hy. assert (Hy2 : 0 <= y <= 2/3) by lra. assert (exp y <= 2) by (interval with (i_prec 64)). lra. }
      pose proof (nondecr_from_0 (fun y => 1 + y + y * y - exp y) (fun y => 1 + 2 * y - exp y) u (Rlt_le _ _ Hp)) as H. cbv beta in H.
      rewrite exp_0 in H. replace (1 + 0 + 0 * 0 - 1) with 0 in H by ring.
      assert (0 <= 1 + u + u * u - exp u); [|lra]. apply H.
      * intros y _. auto_derive; auto. ring.
      * intros y Hy. apply D1. lra.
    + assert (2/3 <= u <= 1) by lra. assert (0 <= 1 + u + u * u - exp u) by (interval with (i_bisect u, i_prec 64)). lra.
Qed.

(* ---- pointwise bounds on the generated kernels ---- *)
Section Bounds.
Variables x0 x1 x2 y0 y1 y2 nx0 nx1 nx2 ny0 ny1 ny2 : R.
Hypothesis Hne : (x0, x1, x2) <> (y0, y1, y2).
Let r := sqrt (r2 x0 x1 x2 y0 y1 y2).

Lemma helmholtz_sl_explicit kr ki :
  helmholtz_single_layer_regular_re x0 x1 x2 y0 y1 y2 nx0 nx1 nx2 ny0 ny1 ny2 kr ki
    = cos (kr * r) * exp (- ki * r) / (4 * PI * r) /\
  helmholtz_single_layer_regular_im x0 x1 x2 y0 y1 y2 nx0 nx1 nx2 ny0 ny1 ny2 kr ki
    = sin (kr * r) * exp (- ki * r) / (4 * PI * r) /\
  laplace_single_layer_regular_re x0 x1 x2 y0 y1 y2 nx0 nx1 nx2 ny0 ny1 ny2 kr ki = 1 / (4 * PI * r).
Proof.
  unfold r, helmholtz_single_layer_regular_re, helmholtz_single_layer_regular_im, laplace_single_layer_regular_re,
         M_INV_4PI.
  repeat split; kernel_eq x0 x1 x2 y0 y1 y2 Hne.
Qed.

(* real k, |k| r <= 1:  |K_helm - K_lap - i k/(4 pi)| <= k^2 r/(4 pi)   (squared moduli) *)
Lemma helmholtz_sl_small_real_k k p q :
  (k * r) * (k * r) <= 1 ->
  let re := helmholtz_single_layer_regular_re x0 x1 x2 y0 y1 y2 nx0 nx1 nx2 ny0 ny1 ny2 k 0 in
  let im := helmholtz_single_layer_regular_im x0 x1 x2 y0 y1 y2 nx0 nx1 nx2 ny0 ny1 ny2 k 0 in
  let l := laplace_single_layer_regular_re x0 x1 x2 y0 y1 y2 nx0 nx1 nx2 ny0 ny1 ny2 p q in
  (re - l) * (re - l) + (im - k / (4 * PI)) * (im - k / (4 * PI)) <= (k * k * r / (4 * PI)) * (k * k * r / (4 * PI)).
Proof.
  intros Ht re im l.
  destruct (helmholtz_sl_explicit k 0) as [E1 [E2 _]]. destruct (helmholtz_sl_explicit p q) as [_ [_ E3]].
  unfold re, im, l. rewrite E1, E2, E3. clear E1 E2 E3 re im l.
  assert (Hr : 0 < r) by (exact (sqrt_r2_pos _ _ _ _ _ _ Hne)).
  rewrite Ropp_0, Rmult_0_l, exp_0.
  pose proof (cis_remainder (k * r) Ht) as C.
  set (t := k * r) in *. set (c := cos t) in *. set (s := sin t) in *.
  pose proof PI_RGT_0 as Pp.
  assert (A : 0 < 4 * PI * r) by nra.
  replace (c * 1 / (4 * PI * r) - 1 / (4 * PI * r)) with ((c - 1) / (4 * PI * r)) by (field; split; lra).
  replace (s * 1 / (4 * PI * r) - k / (4 * PI)) with ((s - t) / (4 * PI * r)) by (unfold t; field; split; lra).
  replace (k * k * r / (4 * PI)) with (t * t / (4 * PI * r)) by (unfold t; field; split; lra).
  set (a := / (4 * PI * r)). unfold Rdiv. fold a.
  assert (0 < a) by (apply Rinv_0_lt_compat; exact A).
  replace ((c - 1) * a * ((c - 1) * a) + (s - t) * a * ((s - t) * a))
    with (((c - 1) * (c - 1) + (s - t) * (s - t)) * (a * a)) by ring.
  replace (t * t * a * (t * t * a)) with (t * t * (t * t) * (a * a)) by ring.
  apply Rmult_le_compat_r; [nra|exact C].
Qed.

(* k = i w, |w| r <= 1:  K_helm is real and 0 <= K_helm - K_lap - i (i w)/(4 pi) <= w^2 r/(4 pi) *)
Lemma helmholtz_sl_small_imag_k w p q :
  -1 <= w * r <= 1 ->
  let re := helmholtz_single_layer_regular_re x0 x1 x2 y0 y1 y2 nx0 nx1 nx2 ny0 ny1 ny2 0 w in
  let im := helmholtz_single_layer_regular_im x0 x1 x2 y0 y1 y2 nx0 nx1 nx2 ny0 ny1 ny2 0 w in
  let l := laplace_single_layer_regular_re x0 x1 x2 y0 y1 y2 nx0 nx1 nx2 ny0 ny1 ny2 p q in
  im = 0 /\ 0 <= re - l - (- w) / (4 * PI) <= w * w * r / (4 * PI).
Proof.
  intros Ht re im l.
  destruct (helmholtz_sl_explicit 0 w) as [E1 [E2 _]]. destruct (helmholtz_sl_explicit p q) as [_ [_ E3]].
  unfold re, im, l. rewrite E1, E2, E3. clear E1 E2 E3 re im l.
  assert (Hr : 0 < r) by (exact (sqrt_r2_pos _ _ _ _ _ _ Hne)).
  rewrite Rmult_0_l, sin_0, cos_0. split; [unfold Rdiv; ring|].
  pose proof (exp_remainder (- w * r) ltac:(lra)) as [E0 E1].
  set (e := exp (- w * r)) in *.
  pose proof PI_RGT_0 as Pp.
  assert (A : 0 < 4 * PI * r) by nra.
  replace (1 * e / (4 * PI * r) - 1 / (4 * PI * r) - - w / (4 * PI)) with ((e - 1 - (- w * r)) / (4 * PI * r))
    by (field; split; lra).
  replace (w * w * r / (4 * PI)) with ((- w * r) * (- w * r) / (4 * PI * r)) by (field; split; lra).
  assert (0 < / (4 * PI * r)) by (apply Rinv_0_lt_compat; exact A).
  unfold Rdiv. split; [apply Rmult_le_pos; lra | apply Rmult_le_compat_r; lra].
Qed.

Lemma helmholtz_dl_explicit kr :
  let g := ((y0 - x0) * ny0 + (y1 - x1) * ny1 + (y2 - x2) * ny2) / (4 * PI * (r * r * r)) in
  helmholtz_double_layer_regular_re x0 x1 x2 y0 y1 y2 nx0 nx1 nx2 ny0 ny1 ny2 kr 0
    = - (cos (kr * r) + kr * r * sin (kr * r)) * g /\
  helmholtz_double_layer_regular_im x0 x1 x2 y0 y1 y2 nx0 nx1 nx2 ny0 ny1 ny2 kr 0
    = - (sin (kr * r) - kr * r * cos (kr * r)) * g /\
  laplace_double_layer_regular_re x0 x1 x2 y0 y1 y2 nx0 nx1 nx2 ny0 ny1 ny2 kr 0 = - g.
Proof.
  unfold r, helmholtz_double_layer_regular_re, helmholtz_double_layer_regular_im, laplace_double_layer_regular_re,
         M_INV_4PI.
  cbv zeta. repeat split; kernel_eq x0 x1 x2 y0 y1 y2 Hne.
Qed.

(* real k, |k| r <= 1:  |K_dl,helm - K_dl,lap| <= k^2/(4 pi) * |n.(y-x)|/r   (squared) *)
Lemma helmholtz_dl_small_real_k k :
  (k * r) * (k * r) <= 1 ->
  let re := helmholtz_double_layer_regular_re x0 x1 x2 y0 y1 y2 nx0 nx1 nx2 ny0 ny1 ny2 k 0 in
  let im := helmholtz_double_layer_regular_im x0 x1 x2 y0 y1 y2 nx0 nx1 nx2 ny0 ny1 ny2 k 0 in
  let l := laplace_double_layer_regular_re x0 x1 x2 y0 y1 y2 nx0 nx1 nx2 ny0 ny1 ny2 k 0 in
  let cosang := ((y0 - x0) * ny0 + (y1 - x1) * ny1 + (y2 - x2) * ny2) / r in
  (re - l) * (re - l) + im * im <= (k * k / (4 * PI) * cosang) * (k * k / (4 * PI) * cosang).
Proof.
  intros Ht re im l cosang.
  destruct (helmholtz_dl_explicit k) as [E1 [E2 E3]]. cbv zeta in E1, E2, E3.
  unfold re, im, l, cosang. rewrite E1, E2, E3. clear E1 E2 E3 re im l cosang.
  assert (Hr : 0 < r) by (exact (sqrt_r2_pos _ _ _ _ _ _ Hne)).
  pose proof (dl_cis_remainder (k * r) Ht) as C.
  set (t := k * r) in *. set (c := cos t) in *. set (s := sin t) in *.
  set (d := (y0 - x0) * ny0 + (y1 - x1) * ny1 + (y2 - x2) * ny2).
  pose proof PI_RGT_0 as Pp.
  assert (A : 0 < 4 * PI * (r * r * r)) by (assert (0 < r * r * r) by (repeat apply Rmult_lt_0_compat; lra); nra).
  set (g := d / (4 * PI * (r * r * r))).
  replace (- (c + t * s) * g - - g) with (- (c + t * s - 1) * g) by ring.
  replace (k * k / (4 * PI) * (d / r)) with (t * t * g) by (unfold t, g; field; repeat split; lra).
  replace (- (c + t * s - 1) * g * (- (c + t * s - 1) * g) + - (s - t * c) * g * (- (s - t * c) * g))
    with (((c + t * s - 1) * (c + t * s - 1) + (s - t * c) * (s - t * c)) * (g * g)) by ring.
  replace (t * t * g * (t * t * g)) with (t * t * (t * t) * (g * g)) by ring.
  apply Rmult_le_compat_r; [nra|exact C].
Qed.

End Bounds.
