(* C20: the decimal literals of M_INV_4PI / M_4PI in bempp_base_types.h (both precisions) are 1/(4 pi) and 4 pi to
   within one unit in the last place of their type (relative 2^-24 for float, 2^-53 for double). *)
From Coq Require Import Reals.
From Interval Require Import Tactic.
From BVgen Require Import OpenCLKernels.
Open Scope R_scope.

Lemma literals_close :
  Rabs (cl_M_INV_4PI_double_literal * (4 * PI) - 1) <= / 2 ^ 53 /\
  Rabs (cl_M_4PI_double_literal / (4 * PI) - 1) <= / 2 ^ 53 /\
  Rabs (cl_M_INV_4PI_single_literal * (4 * PI) - 1) <= / 2 ^ 24 /\
  Rabs (cl_M_4PI_single_literal / (4 * PI) - 1) <= / 2 ^ 24.
Proof.
  unfold cl_M_INV_4PI_double_literal, cl_M_4PI_double_literal, cl_M_INV_4PI_single_literal, cl_M_4PI_single_literal.
  repeat split; interval with (i_prec 90).
Qed.
