(* Shared lemmas for C03 (and C08): every scalar Green's-function kernel generated from core/numba_kernels.py
   (Laplace, Helmholtz re/im with complex k, modified Helmholtz; single / double / adjoint double layer; regular and singular
   variants) is a function G of  r = |x-y|,  a = (y-x).n_y,  b = (y-x).n_x  and the parameters only (explicit forms below),
   hence invariant under rigid motions and homogeneous under scaling (with k/s).  Far-field kernels: rotation invariance
   and scaling.  Table driven over [kernel_forms]; the names are those of select_numba_kernels' dictionaries. *)
From Coq Require Import Reals Lra String List Nsatz.
From BVgen Require Import NumbaKernels.
From BV Require Import Kernels.KernelTactics.
Import ListNotations.
Open Scope R_scope.

(* ---- explicit forms  G r a b p0 p1 : R * R ---- *)
Definition c4 : R := 1 / (4 * PI).
Definition G_lap_sl (r a b p0 p1 : R) : R * R := (c4 / r, 0).
Definition G_lap_dl (r a b p0 p1 : R) : R * R := (- (c4 * a / (r * r * r)), 0).
Definition G_lap_adl (r a b p0 p1 : R) : R * R := (c4 * b / (r * r * r), 0).
Definition G_mod_sl (r a b p0 p1 : R) : R * R := (c4 * exp (- p0 * r) / r, 0).
Definition G_mod_dl (r a b p0 p1 : R) : R * R := (- (c4 * a * (1 + p0 * r) * exp (- p0 * r) / (r * r * r)), 0).
Definition G_mod_adl (r a b p0 p1 : R) : R * R := (c4 * b * (1 + p0 * r) * exp (- p0 * r) / (r * r * r), 0).
Definition G_helm_sl (r a b p0 p1 : R) : R * R :=
  (c4 * cos (p0 * r) * exp (- p1 * r) / r, c4 * sin (p0 * r) * exp (- p1 * r) / r).
(* (i k r - 1) e^{i k r} * L,  k = p0 + i p1 *)
Definition helm_grad (L r p0 p1 : R) : R * R :=
  ((- 1 - p1 * r) * (cos (p0 * r) * exp (- p1 * r) * L) - p0 * r * (sin (p0 * r) * exp (- p1 * r) * L),
   p0 * r * (cos (p0 * r) * exp (- p1 * r) * L) + (- 1 - p1 * r) * (sin (p0 * r) * exp (- p1 * r) * L)).
Definition G_helm_dl (r a b p0 p1 : R) : R * R := helm_grad (c4 * a / (r * r * r)) r p0 p1.
Definition G_helm_adl (r a b p0 p1 : R) : R * R := helm_grad (- (c4 * b / (r * r * r))) r p0 p1.

Definition gform : Type := R -> R -> R -> R -> R -> R * R.

(* kernel function name, explicit form, homogeneity degree *)
Definition kernel_forms : list (string * gform * nat) :=
  [("laplace_single_layer_regular"%string, G_lap_sl, 1%nat);
   ("laplace_double_layer_regular"%string, G_lap_dl, 2%nat);
   ("laplace_adjoint_double_layer_regular"%string, G_lap_adl, 2%nat);
   ("helmholtz_single_layer_regular"%string, G_helm_sl, 1%nat);
   ("helmholtz_double_layer_regular"%string, G_helm_dl, 2%nat);
   ("helmholtz_adjoint_double_layer_regular"%string, G_helm_adl, 2%nat);
   ("modified_helmholtz_single_layer_regular"%string, G_mod_sl, 1%nat);
   ("modified_helmholtz_double_layer_regular"%string, G_mod_dl, 2%nat);
   ("modified_helmholtz_adjoint_double_layer_regular"%string, G_mod_adl, 2%nat);
   ("laplace_single_layer_singular"%string, G_lap_sl, 1%nat);
   ("laplace_double_layer_singular"%string, G_lap_dl, 2%nat);
   ("laplace_adjoint_double_layer_singular"%string, G_lap_adl, 2%nat);
   ("helmholtz_single_layer_singular"%string, G_helm_sl, 1%nat);
   ("helmholtz_double_layer_singular"%string, G_helm_dl, 2%nat);
   ("helmholtz_adjoint_double_layer_singular"%string, G_helm_adl, 2%nat);
   ("modified_helmholtz_single_layer_singular"%string, G_mod_sl, 1%nat);
   ("modified_helmholtz_double_layer_singular"%string, G_mod_dl, 2%nat);
   ("modified_helmholtz_adjoint_double_layer_singular"%string, G_mod_adl, 2%nat)].

Definition dotd (x0 x1 x2 y0 y1 y2 n0 n1 n2 : R) : R := (y0 - x0) * n0 + (y1 - x1) * n1 + (y2 - x2) * n2.

Definition has_form (g : kfun) (G : gform) : Prop :=
  forall x0 x1 x2 y0 y1 y2 nx0 nx1 nx2 ny0 ny1 ny2 p0 p1, (x0, x1, x2) <> (y0, y1, y2) ->
    g x0 x1 x2 y0 y1 y2 nx0 nx1 nx2 ny0 ny1 ny2 p0 p1
    = G (sqrt (r2 x0 x1 x2 y0 y1 y2)) (dotd x0 x1 x2 y0 y1 y2 ny0 ny1 ny2) (dotd x0 x1 x2 y0 y1 y2 nx0 nx1 nx2) p0 p1.

Definition form_ok (e : string * gform * nat) : Prop :=
  exists g, numba_kernel (fst (fst e)) = Some g /\ has_form g (snd (fst e)).

Ltac form_tac :=
  eexists; split; [reflexivity|];
  let Hne := fresh "Hne" in
  intros x0 x1 x2 y0 y1 y2 nx0 nx1 nx2 ny0 ny1 ny2 p0 p1 Hne;
  cbn [fst snd];
  match goal with
  | |- ?f _ _ _ _ _ _ _ _ _ _ _ _ _ _ = ?G _ _ _ _ _ =>
      unfold f, G; try unfold helm_grad; unfold dotd, c4; f_equal;
      try match goal with
          | |- ?fr _ _ _ _ _ _ _ _ _ _ _ _ _ _ = _ => unfold fr, M_INV_4PI
          end
  end;
  kernel_eq x0 x1 x2 y0 y1 y2 Hne.

Lemma kernel_forms_ok : Forall form_ok kernel_forms.
Proof. unfold kernel_forms. repeat (apply Forall_cons; [form_tac|]). apply Forall_nil. Qed.

Lemma kernel_has_form name G deg g :
  In (name, G, deg) kernel_forms -> numba_kernel name = Some g -> has_form g G.
Proof.
  intros Hin Hg. destruct (proj1 (Forall_forall _ _) kernel_forms_ok _ Hin) as [g' [E F]].
  cbn [fst snd] in E, F. rewrite Hg in E. inversion E. subst g'. exact F.
Qed.

(* ---- geometry ---- *)
Record rot := mkRot { q00 : R; q01 : R; q02 : R; q10 : R; q11 : R; q12 : R; q20 : R; q21 : R; q22 : R }.
Definition orthogonal (Q : rot) : Prop :=          (* Q^T Q = I *)
  q00 Q * q00 Q + q10 Q * q10 Q + q20 Q * q20 Q = 1 /\ q01 Q * q01 Q + q11 Q * q11 Q + q21 Q * q21 Q = 1 /\
  q02 Q * q02 Q + q12 Q * q12 Q + q22 Q * q22 Q = 1 /\ q00 Q * q01 Q + q10 Q * q11 Q + q20 Q * q21 Q = 0 /\
  q00 Q * q02 Q + q10 Q * q12 Q + q20 Q * q22 Q = 0 /\ q01 Q * q02 Q + q11 Q * q12 Q + q21 Q * q22 Q = 0.
Definition ap0 (Q : rot) (v0 v1 v2 : R) : R := q00 Q * v0 + q01 Q * v1 + q02 Q * v2.
Definition ap1 (Q : rot) (v0 v1 v2 : R) : R := q10 Q * v0 + q11 Q * v1 + q12 Q * v2.
Definition ap2 (Q : rot) (v0 v1 v2 : R) : R := q20 Q * v0 + q21 Q * v1 + q22 Q * v2.

Lemma r2_pos_neq x0 x1 x2 y0 y1 y2 : 0 < r2 x0 x1 x2 y0 y1 y2 -> (x0, x1, x2) <> (y0, y1, y2).
Proof. intros H E. inversion E; subst. unfold r2 in H. replace ((y0 - y0) * (y0 - y0) + (y1 - y1) * (y1 - y1) + (y2 - y2) * (y2 - y2)) with 0 in H by ring. lra. Qed.

Lemma rot_dot Q d0 d1 d2 e0 e1 e2 : orthogonal Q ->
  ap0 Q d0 d1 d2 * ap0 Q e0 e1 e2 + ap1 Q d0 d1 d2 * ap1 Q e0 e1 e2 + ap2 Q d0 d1 d2 * ap2 Q e0 e1 e2
  = d0 * e0 + d1 * e1 + d2 * e2.
Proof.
  destruct Q as [a b c d e f g h i]. unfold orthogonal, ap0, ap1, ap2; cbn.
  intros [H1 [H2 [H3 [H4 [H5 H6]]]]].
  transitivity ((a * a + d * d + g * g) * (d0 * e0) + (b * b + e * e + h * h) * (d1 * e1) + (c * c + f * f + i * i) * (d2 * e2)
                + (a * b + d * e + g * h) * (d0 * e1 + d1 * e0) + (a * c + d * f + g * i) * (d0 * e2 + d2 * e0)
                + (b * c + e * f + h * i) * (d1 * e2 + d2 * e1)); [ring|].
  rewrite H1, H2, H3, H4, H5, H6. ring.
Qed.

Section Rigid.
Variable Q : rot.
Variables t0 t1 t2 : R.
Hypothesis HQ : orthogonal Q.
Definition mv0 (v0 v1 v2 : R) : R := ap0 Q v0 v1 v2 + t0.
Definition mv1 (v0 v1 v2 : R) : R := ap1 Q v0 v1 v2 + t1.
Definition mv2 (v0 v1 v2 : R) : R := ap2 Q v0 v1 v2 + t2.

Lemma r2_rigid x0 x1 x2 y0 y1 y2 :
  r2 (mv0 x0 x1 x2) (mv1 x0 x1 x2) (mv2 x0 x1 x2) (mv0 y0 y1 y2) (mv1 y0 y1 y2) (mv2 y0 y1 y2) = r2 x0 x1 x2 y0 y1 y2.
Proof.
  unfold r2, mv0, mv1, mv2.
  pose proof (rot_dot Q (x0 - y0) (x1 - y1) (x2 - y2) (x0 - y0) (x1 - y1) (x2 - y2) HQ) as H.
  rewrite <- H. unfold ap0, ap1, ap2. ring.
Qed.

Lemma dotd_rigid x0 x1 x2 y0 y1 y2 n0 n1 n2 :
  dotd (mv0 x0 x1 x2) (mv1 x0 x1 x2) (mv2 x0 x1 x2) (mv0 y0 y1 y2) (mv1 y0 y1 y2) (mv2 y0 y1 y2)
       (ap0 Q n0 n1 n2) (ap1 Q n0 n1 n2) (ap2 Q n0 n1 n2) = dotd x0 x1 x2 y0 y1 y2 n0 n1 n2.
Proof.
  unfold dotd, mv0, mv1, mv2.
  pose proof (rot_dot Q (y0 - x0) (y1 - x1) (y2 - x2) n0 n1 n2 HQ) as H.
  rewrite <- H. unfold ap0, ap1, ap2. ring.
Qed.

(* K(Qx+t, Qy+t, Q n_x, Q n_y) = K(x, y, n_x, n_y) for every kernel of the table *)
Lemma kernels_rigid_motion_invariant name G deg g :
  In (name, G, deg) kernel_forms -> numba_kernel name = Some g ->
  forall x0 x1 x2 y0 y1 y2 nx0 nx1 nx2 ny0 ny1 ny2 p0 p1, (x0, x1, x2) <> (y0, y1, y2) ->
    g (mv0 x0 x1 x2) (mv1 x0 x1 x2) (mv2 x0 x1 x2) (mv0 y0 y1 y2) (mv1 y0 y1 y2) (mv2 y0 y1 y2)
      (ap0 Q nx0 nx1 nx2) (ap1 Q nx0 nx1 nx2) (ap2 Q nx0 nx1 nx2)
      (ap0 Q ny0 ny1 ny2) (ap1 Q ny0 ny1 ny2) (ap2 Q ny0 ny1 ny2) p0 p1
    = g x0 x1 x2 y0 y1 y2 nx0 nx1 nx2 ny0 ny1 ny2 p0 p1.
Proof.
  intros Hin Hg x0 x1 x2 y0 y1 y2 nx0 nx1 nx2 ny0 ny1 ny2 p0 p1 Hne.
  pose proof (kernel_has_form _ _ _ _ Hin Hg) as F.
  assert (Hne' : (mv0 x0 x1 x2, mv1 x0 x1 x2, mv2 x0 x1 x2) <> (mv0 y0 y1 y2, mv1 y0 y1 y2, mv2 y0 y1 y2)).
  { apply r2_pos_neq. rewrite r2_rigid. apply r2_pos, Hne. }
  rewrite (F _ _ _ _ _ _ _ _ _ _ _ _ _ _ Hne'), (F _ _ _ _ _ _ _ _ _ _ _ _ _ _ Hne).
  rewrite r2_rigid, !dotd_rigid. reflexivity.
Qed.
End Rigid.

(* ---- scaling ---- *)
Lemma r2_scale s x0 x1 x2 y0 y1 y2 :
  r2 (s * x0) (s * x1) (s * x2) (s * y0) (s * y1) (s * y2) = (s * s) * r2 x0 x1 x2 y0 y1 y2.
Proof. unfold r2; ring. Qed.

Lemma sqrt_r2_scale s x0 x1 x2 y0 y1 y2 : 0 < s ->
  sqrt (r2 (s * x0) (s * x1) (s * x2) (s * y0) (s * y1) (s * y2)) = s * sqrt (r2 x0 x1 x2 y0 y1 y2).
Proof.
  intros Hs. rewrite r2_scale, sqrt_mult_alt by (apply Rmult_le_pos; lra). rewrite sqrt_square by lra. reflexivity.
Qed.

Lemma dotd_scale s x0 x1 x2 y0 y1 y2 n0 n1 n2 :
  dotd (s * x0) (s * x1) (s * x2) (s * y0) (s * y1) (s * y2) n0 n1 n2 = s * dotd x0 x1 x2 y0 y1 y2 n0 n1 n2.
Proof. unfold dotd; ring. Qed.

Definition scale_pair (c : R) (z : R * R) : R * R := (c * fst z, c * snd z).

(* G (s r) (s a) (s b) (p/s) = s^-deg G r a b p *)
Definition form_homogeneous (e : string * gform * nat) : Prop :=
  forall s r a b p0 p1, 0 < s -> r <> 0 ->
    snd (fst e) (s * r) (s * a) (s * b) (p0 / s) (p1 / s) = scale_pair (/ s ^ snd e) (snd (fst e) r a b p0 p1).

Ltac homog_tac :=
  let Hs := fresh "Hs" in let Hr := fresh "Hr" in
  intros s r a b p0 p1 Hs Hr; cbn [fst snd];
  match goal with |- ?G _ _ _ _ _ = scale_pair _ (?G _ _ _ _ _) => unfold G end;
  try unfold helm_grad; unfold scale_pair, c4; cbn [fst snd];
  replace (p0 / s * (s * r)) with (p0 * r) by (field; lra);
  replace (- (p0 / s) * (s * r)) with (- p0 * r) by (field; lra);
  replace (p1 / s * (s * r)) with (p1 * r) by (field; lra);
  replace (- (p1 / s) * (s * r)) with (- p1 * r) by (field; lra);
  f_equal; field; repeat split; auto using PI_neq0; lra.

Lemma kernel_forms_homogeneous : Forall form_homogeneous kernel_forms.
Proof. unfold kernel_forms. repeat (apply Forall_cons; [homog_tac|]). apply Forall_nil. Qed.

(* K(s x, s y, n, k/s) = s^-deg K(x, y, n, k),  deg = 1 single layer, 2 double / adjoint double layer, s > 0 *)
Lemma kernels_homogeneous name G deg g :
  In (name, G, deg) kernel_forms -> numba_kernel name = Some g ->
  forall s x0 x1 x2 y0 y1 y2 nx0 nx1 nx2 ny0 ny1 ny2 p0 p1, 0 < s -> (x0, x1, x2) <> (y0, y1, y2) ->
    g (s * x0) (s * x1) (s * x2) (s * y0) (s * y1) (s * y2) nx0 nx1 nx2 ny0 ny1 ny2 (p0 / s) (p1 / s)
    = scale_pair (/ s ^ deg) (g x0 x1 x2 y0 y1 y2 nx0 nx1 nx2 ny0 ny1 ny2 p0 p1).
Proof.
  intros Hin Hg s x0 x1 x2 y0 y1 y2 nx0 nx1 nx2 ny0 ny1 ny2 p0 p1 Hs Hne.
  pose proof (kernel_has_form _ _ _ _ Hin Hg) as F.
  assert (Hne' : (s * x0, s * x1, s * x2) <> (s * y0, s * y1, s * y2)).
  { apply r2_pos_neq. rewrite r2_scale. apply Rmult_lt_0_compat; [nra|apply r2_pos, Hne]. }
  rewrite (F _ _ _ _ _ _ _ _ _ _ _ _ _ _ Hne'), (F _ _ _ _ _ _ _ _ _ _ _ _ _ _ Hne).
  rewrite sqrt_r2_scale by exact Hs. rewrite !dotd_scale.
  exact (proj1 (Forall_forall _ _) kernel_forms_homogeneous _ Hin s _ _ _ p0 p1 Hs (sqrt_r2_neq0 _ _ _ _ _ _ Hne)).
Qed.

(* ---- far-field kernels: x = direction, y = source point ---- *)
Lemma far_field_rotation_invariant (Q : rot) x0 x1 x2 y0 y1 y2 nx0 nx1 nx2 ny0 ny1 ny2 p0 p1 : orthogonal Q ->
  helmholtz_far_field_single_layer (ap0 Q x0 x1 x2) (ap1 Q x0 x1 x2) (ap2 Q x0 x1 x2)
      (ap0 Q y0 y1 y2) (ap1 Q y0 y1 y2) (ap2 Q y0 y1 y2) (ap0 Q nx0 nx1 nx2) (ap1 Q nx0 nx1 nx2) (ap2 Q nx0 nx1 nx2)
      (ap0 Q ny0 ny1 ny2) (ap1 Q ny0 ny1 ny2) (ap2 Q ny0 ny1 ny2) p0 p1
    = helmholtz_far_field_single_layer x0 x1 x2 y0 y1 y2 nx0 nx1 nx2 ny0 ny1 ny2 p0 p1 /\
  helmholtz_far_field_double_layer (ap0 Q x0 x1 x2) (ap1 Q x0 x1 x2) (ap2 Q x0 x1 x2)
      (ap0 Q y0 y1 y2) (ap1 Q y0 y1 y2) (ap2 Q y0 y1 y2) (ap0 Q nx0 nx1 nx2) (ap1 Q nx0 nx1 nx2) (ap2 Q nx0 nx1 nx2)
      (ap0 Q ny0 ny1 ny2) (ap1 Q ny0 ny1 ny2) (ap2 Q ny0 ny1 ny2) p0 p1
    = helmholtz_far_field_double_layer x0 x1 x2 y0 y1 y2 nx0 nx1 nx2 ny0 ny1 ny2 p0 p1.
Proof.
  intros HQ.
  pose proof (rot_dot Q x0 x1 x2 y0 y1 y2 HQ) as Dy. pose proof (rot_dot Q x0 x1 x2 ny0 ny1 ny2 HQ) as Dn.
  unfold helmholtz_far_field_single_layer, helmholtz_far_field_double_layer,
         helmholtz_far_field_single_layer_re, helmholtz_far_field_single_layer_im,
         helmholtz_far_field_double_layer_re, helmholtz_far_field_double_layer_im.
  set (X0 := ap0 Q x0 x1 x2) in *. set (X1 := ap1 Q x0 x1 x2) in *. set (X2 := ap2 Q x0 x1 x2) in *.
  set (Y0 := ap0 Q y0 y1 y2) in *. set (Y1 := ap1 Q y0 y1 y2) in *. set (Y2 := ap2 Q y0 y1 y2) in *.
  set (N0 := ap0 Q ny0 ny1 ny2) in *. set (N1 := ap1 Q ny0 ny1 ny2) in *. set (N2 := ap2 Q ny0 ny1 ny2) in *.
  replace (0 + X0 * Y0 + X1 * Y1 + X2 * Y2) with (0 + x0 * y0 + x1 * y1 + x2 * y2) by lra.
  replace (0 - p0 * X0 * N0 - p0 * X1 * N1 - p0 * X2 * N2) with (0 - p0 * x0 * ny0 - p0 * x1 * ny1 - p0 * x2 * ny2)
    by (transitivity (0 - p0 * (X0 * N0 + X1 * N1 + X2 * N2)); [rewrite Dn|]; ring).
  split; reflexivity.
Qed.

(* scaling the source by s and the wavenumber by 1/s: single layer unchanged, double layer divided by s *)
Lemma far_field_scaling s x0 x1 x2 y0 y1 y2 nx0 nx1 nx2 ny0 ny1 ny2 p0 p1 : s <> 0 ->
  helmholtz_far_field_single_layer x0 x1 x2 (s * y0) (s * y1) (s * y2) nx0 nx1 nx2 ny0 ny1 ny2 (p0 / s) (p1 / s)
    = helmholtz_far_field_single_layer x0 x1 x2 y0 y1 y2 nx0 nx1 nx2 ny0 ny1 ny2 p0 p1 /\
  helmholtz_far_field_double_layer x0 x1 x2 (s * y0) (s * y1) (s * y2) nx0 nx1 nx2 ny0 ny1 ny2 (p0 / s) (p1 / s)
    = scale_pair (/ s) (helmholtz_far_field_double_layer x0 x1 x2 y0 y1 y2 nx0 nx1 nx2 ny0 ny1 ny2 p0 p1).
Proof.
  intros Hs.
  unfold helmholtz_far_field_single_layer, helmholtz_far_field_double_layer, scale_pair; cbn [fst snd].
  unfold helmholtz_far_field_single_layer_re, helmholtz_far_field_single_layer_im,
         helmholtz_far_field_double_layer_re, helmholtz_far_field_double_layer_im.
  replace (- (p0 / s) * (0 + x0 * (s * y0) + x1 * (s * y1) + x2 * (s * y2)))
    with (- p0 * (0 + x0 * y0 + x1 * y1 + x2 * y2)) by (field; exact Hs).
  split; f_equal; unfold M_INV_4PI; field; auto using PI_neq0.
Qed.
