(* Tactic for derivatives (Coquelicot) of the generated kernels along a line through the trial or test point. *)
From Coq Require Import Reals Lra.
From Coquelicot Require Import Coquelicot.
From BV Require Import Kernels.KernelTactics.
Open Scope R_scope.

(* side conditions produced by auto_derive: positivity of the squared distance / non-vanishing of the distance *)
Ltac derive_side x0 x1 x2 y0 y1 y2 Hne :=
  rewrite ?Rmult_0_l, ?Rplus_0_r;
  repeat split; try exact I;
  try (match goal with
       | |- 0 < ?q => replace q with (r2 x0 x1 x2 y0 y1 y2) by (unfold r2; ring); exact (r2_pos _ _ _ _ _ _ Hne)
       end);
  try (match goal with
       | |- sqrt ?q <> 0 => replace q with (r2 x0 x1 x2 y0 y1 y2) by (unfold r2; ring);
                            exact (sqrt_r2_neq0 _ _ _ _ _ _ Hne)
       end);
  try (match goal with
       | |- sqrt ?q * sqrt ?q * sqrt ?q <> 0 =>
           replace q with (r2 x0 x1 x2 y0 y1 y2) by (unfold r2; ring);
           pose proof (sqrt_r2_neq0 _ _ _ _ _ _ Hne); repeat apply Rmult_integral_contrapositive_currified; assumption
       end).

(* goal: is_derive (fun t => K ...(point moved by t along a direction)...) 0 v, kernels already unfolded *)
Ltac derive_tac x0 x1 x2 y0 y1 y2 Hne :=
  auto_derive;
  [ derive_side x0 x1 x2 y0 y1 y2 Hne
  | rewrite ?Rmult_0_l, ?Rplus_0_r, ?Rmult_1_l, ?Rmult_1_r; kernel_eq x0 x1 x2 y0 y1 y2 Hne ].
