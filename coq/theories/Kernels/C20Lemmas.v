(* C20: the OpenCL kernels (kernels.h, every vector width) and the Numba kernels are the same real functions.
   Both sides are generated from the current sources (gen/OpenCLKernels.v, gen/NumbaKernels.v).  The proofs are
   table driven: they enumerate the kernel-selection tables of both back ends, so a kernel added to or renamed in
   the sources is picked up automatically and has to pass the same tactic. *)
From Coq Require Import Reals Lra String List.
From BVgen Require Import NumbaKernels OpenCLKernels Shapesets ShapesetsCL.
From BV Require Import Kernels.KernelTactics.
Import ListNotations.
Open Scope R_scope.

(* f (OpenCL, macro M_INV_4PI instantiated with the real number 1/(4 pi)) and g (Numba) agree off the diagonal *)
Definition kernels_agree (f : clfun) (g : kfun) : Prop :=
  forall x0 x1 x2 y0 y1 y2 nx0 nx1 nx2 ny0 ny1 ny2 p0 p1, (x0, x1, x2) <> (y0, y1, y2) ->
    f (1 / (4 * PI)) x0 x1 x2 y0 y1 y2 nx0 nx1 nx2 ny0 ny1 ny2 p0 p1
    = g x0 x1 x2 y0 y1 y2 nx0 nx1 nx2 ny0 ny1 ny2 p0 p1.

(* every OpenCL kernel is linear in the constant M_INV_4PI *)
Definition linear_in_constant (f : clfun) : Prop :=
  forall c x0 x1 x2 y0 y1 y2 nx0 nx1 nx2 ny0 ny1 ny2 p0 p1, (x0, x1, x2) <> (y0, y1, y2) ->
    f c x0 x1 x2 y0 y1 y2 nx0 nx1 nx2 ny0 ny1 ny2 p0 p1
    = (let v := f (1 / (4 * PI)) x0 x1 x2 y0 y1 y2 nx0 nx1 nx2 ny0 ny1 ny2 p0 p1 in
       (c * (4 * PI) * fst v, c * (4 * PI) * snd v)).

(* one table row: kernel type kt selects Numba function nb; the OpenCL table must select some cl, which must exist
   in kernels.h in each of the vector modes ms and agree with nb *)
Definition row_ok (ms : list vecmode) (row : string * string) : Prop :=
  exists cl g, assoc (fst row) cl_kernel_names = Some cl /\ numba_kernel (snd row) = Some g /\
    forall m, In m ms -> exists f, cl_kernel cl m = Some f /\ kernels_agree f g /\ linear_in_constant f.

Ltac unfold_pair :=
  match goal with
  | |- ?f _ _ _ _ _ _ _ _ _ _ _ _ _ _ _ = ?g _ _ _ _ _ _ _ _ _ _ _ _ _ _ =>
      unfold f, g; f_equal;
      match goal with
      | |- ?fr _ _ _ _ _ _ _ _ _ _ _ _ _ _ _ = ?gr _ _ _ _ _ _ _ _ _ _ _ _ _ _ => unfold fr, gr, M_INV_4PI
      end
  end.

Ltac agree_tac :=
  let Hne := fresh "Hne" in
  intros x0 x1 x2 y0 y1 y2 nx0 nx1 nx2 ny0 ny1 ny2 p0 p1 Hne;
  unfold_pair; kernel_eq x0 x1 x2 y0 y1 y2 Hne.

Ltac linear_tac :=
  let Hne := fresh "Hne" in
  intros c x0 x1 x2 y0 y1 y2 nx0 nx1 nx2 ny0 ny1 ny2 p0 p1 Hne;
  match goal with
  | |- ?f _ _ _ _ _ _ _ _ _ _ _ _ _ _ _ = _ => unfold f; cbv zeta; cbn [fst snd]; f_equal;
      match goal with
      | |- ?fr _ _ _ _ _ _ _ _ _ _ _ _ _ _ _ = _ => unfold fr
      end
  end;
  kernel_eq x0 x1 x2 y0 y1 y2 Hne.

Ltac row_tac :=
  eexists; eexists; split; [reflexivity | split; [reflexivity |]];
  let m := fresh "m" in let Hm := fresh "Hm" in
  intros m Hm; simpl in Hm;
  repeat (destruct Hm as [Hm|Hm]; [subst m; eexists; split; [reflexivity | split; [agree_tac | linear_tac]] |]);
  contradiction.

Ltac table_tac :=
  repeat (apply Forall_cons; [row_tac|]); apply Forall_nil.

Lemma regular_table_ok : Forall (row_ok vecmodes) numba_kernel_functions_regular.
Proof. unfold numba_kernel_functions_regular. table_tac. Qed.

(* the OpenCL singular assembler (evaluate_dense_singular.cl) calls KERNEL(novec) *)
Lemma singular_table_ok : Forall (row_ok [novec]) numba_kernel_functions_singular.
Proof. unfold numba_kernel_functions_singular. table_tac. Qed.

Lemma kernels_equal_regular kt nb :
  In (kt, nb) numba_kernel_functions_regular -> row_ok vecmodes (kt, nb).
Proof. intros H. exact (proj1 (Forall_forall _ _) regular_table_ok _ H). Qed.

Lemma kernels_equal_singular kt nb :
  In (kt, nb) numba_kernel_functions_singular -> row_ok [novec] (kt, nb).
Proof. intros H. exact (proj1 (Forall_forall _ _) singular_table_ok _ H). Qed.

(* both back ends know the same kernel types *)
Lemma selection_tables_same_keys :
  map fst numba_kernel_functions_regular = map fst cl_kernel_names /\
  incl (map fst numba_kernel_functions_singular) (map fst cl_kernel_names).
Proof.
  split; [reflexivity|].
  intros k Hk. simpl in Hk. simpl.
  repeat (destruct Hk as [Hk|Hk]; [subst k; auto 20|]). contradiction.
Qed.

(* ---- shape functions ---- *)
Definition shapeset_agree (name : string) : Prop :=
  exists f g, py_shapeset name = Some f /\ cl_shapeset name = Some g /\
    forall u v, concat (f u v) = g u v.     (* result[dim * i + j] = value of component j of function i *)

Lemma shapesets_equal : Forall shapeset_agree py_shapeset_names.
Proof.
  unfold py_shapeset_names.
  repeat (apply Forall_cons; [eexists; eexists; split; [reflexivity|split; [reflexivity|intros u v; match goal with |- concat (?f _ _) = ?g _ _ => unfold f, g end; simpl; repeat (f_equal; try ring)]]|]).
  apply Forall_nil.
Qed.

(* ---- Helmholtz gradient kernel (KERNEL_EXPLICIT(helmholtz_gradient, mode) in the Maxwell magnetic-field assemblers)
        = gradient slots 1..3 of helmholtz_kernel in api/fmm/helpers.py (gradient with respect to the test/target point) *)
Definition grad_agree (f_re f_im : R -> R -> R -> R -> R -> R -> R -> R -> R -> R -> R -> R -> R -> R -> R -> R)
                      (g_re g_im : R -> R -> R -> R -> R -> R -> R -> R -> R) : Prop :=
  forall x0 x1 x2 y0 y1 y2 nx0 nx1 nx2 ny0 ny1 ny2 p0 p1, (x0, x1, x2) <> (y0, y1, y2) ->
    f_re (1 / (4 * PI)) x0 x1 x2 y0 y1 y2 nx0 nx1 nx2 ny0 ny1 ny2 p0 p1 = g_re x0 x1 x2 y0 y1 y2 p0 p1 /\
    f_im (1 / (4 * PI)) x0 x1 x2 y0 y1 y2 nx0 nx1 nx2 ny0 ny1 ny2 p0 p1 = g_im x0 x1 x2 y0 y1 y2 p0 p1.

Ltac grad_tac :=
  let Hne := fresh "Hne" in
  intros x0 x1 x2 y0 y1 y2 nx0 nx1 nx2 ny0 ny1 ny2 p0 p1 Hne; split;
  match goal with
  | |- ?f _ _ _ _ _ _ _ _ _ _ _ _ _ _ _ = ?g _ _ _ _ _ _ _ _ => unfold f, g, M_INV_4PI
  end; kernel_eq x0 x1 x2 y0 y1 y2 Hne.

Lemma gradient_kernels_equal :
  (grad_agree cl_helmholtz_gradient_novec_0_re cl_helmholtz_gradient_novec_0_im fmm_helmholtz_kernel_1_re fmm_helmholtz_kernel_1_im /\
   grad_agree cl_helmholtz_gradient_novec_1_re cl_helmholtz_gradient_novec_1_im fmm_helmholtz_kernel_2_re fmm_helmholtz_kernel_2_im /\
   grad_agree cl_helmholtz_gradient_novec_2_re cl_helmholtz_gradient_novec_2_im fmm_helmholtz_kernel_3_re fmm_helmholtz_kernel_3_im) /\
  (grad_agree cl_helmholtz_gradient_vec4_0_re cl_helmholtz_gradient_vec4_0_im fmm_helmholtz_kernel_1_re fmm_helmholtz_kernel_1_im /\
   grad_agree cl_helmholtz_gradient_vec4_1_re cl_helmholtz_gradient_vec4_1_im fmm_helmholtz_kernel_2_re fmm_helmholtz_kernel_2_im /\
   grad_agree cl_helmholtz_gradient_vec4_2_re cl_helmholtz_gradient_vec4_2_im fmm_helmholtz_kernel_3_re fmm_helmholtz_kernel_3_im) /\
  (grad_agree cl_helmholtz_gradient_vec8_0_re cl_helmholtz_gradient_vec8_0_im fmm_helmholtz_kernel_1_re fmm_helmholtz_kernel_1_im /\
   grad_agree cl_helmholtz_gradient_vec8_1_re cl_helmholtz_gradient_vec8_1_im fmm_helmholtz_kernel_2_re fmm_helmholtz_kernel_2_im /\
   grad_agree cl_helmholtz_gradient_vec8_2_re cl_helmholtz_gradient_vec8_2_im fmm_helmholtz_kernel_3_re fmm_helmholtz_kernel_3_im) /\
  (grad_agree cl_helmholtz_gradient_vec16_0_re cl_helmholtz_gradient_vec16_0_im fmm_helmholtz_kernel_1_re fmm_helmholtz_kernel_1_im /\
   grad_agree cl_helmholtz_gradient_vec16_1_re cl_helmholtz_gradient_vec16_1_im fmm_helmholtz_kernel_2_re fmm_helmholtz_kernel_2_im /\
   grad_agree cl_helmholtz_gradient_vec16_2_re cl_helmholtz_gradient_vec16_2_im fmm_helmholtz_kernel_3_re fmm_helmholtz_kernel_3_im).
Proof. repeat match goal with |- _ /\ _ => split end; unfold grad_agree; grad_tac. Qed.
