(* C08: the generated potential kernels are radial solutions of their PDEs; normal derivatives; far-field
   translation law for real wavenumbers and its failure for complex ones. *)
From Coq Require Import Reals Lra String List.
From Coquelicot Require Import Coquelicot.
From BVgen Require Import NumbaKernels.
From BV Require Import Kernels.KernelTactics Kernels.KernelDerive.
Import ListNotations.
Open Scope R_scope.

(* ---- radial profiles u(r) = r g(r), where K(x,y) = g(|x-y|) ---- *)
Definition lap_u (r : R) : R := 1 / (4 * PI).
Definition mod_u (w r : R) : R := exp (- w * r) / (4 * PI).
Definition mod_du (w r : R) : R := - w * exp (- w * r) / (4 * PI).
Definition helm_u_re (kr ki r : R) : R := cos (kr * r) * exp (- ki * r) / (4 * PI).
Definition helm_u_im (kr ki r : R) : R := sin (kr * r) * exp (- ki * r) / (4 * PI).
Definition helm_du_re (kr ki r : R) : R := (- kr * sin (kr * r) - ki * cos (kr * r)) * exp (- ki * r) / (4 * PI).
Definition helm_du_im (kr ki r : R) : R := (kr * cos (kr * r) - ki * sin (kr * r)) * exp (- ki * r) / (4 * PI).

Definition dist (x0 x1 x2 y0 y1 y2 : R) : R := sqrt (r2 x0 x1 x2 y0 y1 y2).

(* the single-layer kernels depend on x, y only through r = |x - y| and are u(r)/r *)
Lemma single_layer_kernels_are_radial x0 x1 x2 y0 y1 y2 nx0 nx1 nx2 ny0 ny1 ny2 p0 p1 :
  (x0, x1, x2) <> (y0, y1, y2) ->
  let r := dist x0 x1 x2 y0 y1 y2 in
  0 < r /\
  laplace_single_layer_regular x0 x1 x2 y0 y1 y2 nx0 nx1 nx2 ny0 ny1 ny2 p0 p1 = (lap_u r / r, 0) /\
  modified_helmholtz_single_layer_regular x0 x1 x2 y0 y1 y2 nx0 nx1 nx2 ny0 ny1 ny2 p0 p1 = (mod_u p0 r / r, 0) /\
  helmholtz_single_layer_regular x0 x1 x2 y0 y1 y2 nx0 nx1 nx2 ny0 ny1 ny2 p0 p1
    = (helm_u_re p0 p1 r / r, helm_u_im p0 p1 r / r).
Proof.
  intros Hne r. split; [exact (sqrt_r2_pos _ _ _ _ _ _ Hne)|].
  unfold r, dist, lap_u, mod_u, helm_u_re, helm_u_im.
  repeat split;
    match goal with |- ?f _ _ _ _ _ _ _ _ _ _ _ _ _ _ = _ => unfold f; f_equal;
      try match goal with |- ?fr _ _ _ _ _ _ _ _ _ _ _ _ _ _ = _ => unfold fr, M_INV_4PI end end;
    kernel_eq x0 x1 x2 y0 y1 y2 Hne.
Qed.

(* u'' = 0, u'' - w^2 u = 0, u'' + k^2 u = 0 (k = kr + i ki, as a real 2-system) *)
Lemma lap_ode r : is_derive lap_u r 0 /\ is_derive (fun _ : R => 0) r 0.
Proof. unfold lap_u. split; auto_derive; auto; ring. Qed.

Lemma mod_ode w r : is_derive (mod_u w) r (mod_du w r) /\ is_derive (mod_du w) r (w * w * mod_u w r).
Proof. unfold mod_u, mod_du. split; auto_derive; auto; field; apply PI_neq0. Qed.

Lemma helm_ode kr ki r :
  is_derive (helm_u_re kr ki) r (helm_du_re kr ki r) /\ is_derive (helm_u_im kr ki) r (helm_du_im kr ki r) /\
  is_derive (helm_du_re kr ki) r (- ((kr * kr - ki * ki) * helm_u_re kr ki r - 2 * kr * ki * helm_u_im kr ki r)) /\
  is_derive (helm_du_im kr ki) r (- ((kr * kr - ki * ki) * helm_u_im kr ki r + 2 * kr * ki * helm_u_re kr ki r)).
Proof.
  unfold helm_u_re, helm_u_im, helm_du_re, helm_du_im.
  split; [|split; [|split]]; auto_derive; auto; try (field; apply PI_neq0).
Qed.

(* ---- Helmholtz double layer / adjoint double layer = normal derivatives of the single layer (re and im) ---- *)
Lemma helmholtz_dl_is_normal_derivative x0 x1 x2 y0 y1 y2 nx0 nx1 nx2 ny0 ny1 ny2 p0 p1 :
  (x0, x1, x2) <> (y0, y1, y2) ->
  is_derive (fun t => helmholtz_single_layer_regular_re x0 x1 x2 (y0 + t * ny0) (y1 + t * ny1) (y2 + t * ny2)
                        nx0 nx1 nx2 ny0 ny1 ny2 p0 p1) 0
            (helmholtz_double_layer_regular_re x0 x1 x2 y0 y1 y2 nx0 nx1 nx2 ny0 ny1 ny2 p0 p1) /\
  is_derive (fun t => helmholtz_single_layer_regular_im x0 x1 x2 (y0 + t * ny0) (y1 + t * ny1) (y2 + t * ny2)
                        nx0 nx1 nx2 ny0 ny1 ny2 p0 p1) 0
            (helmholtz_double_layer_regular_im x0 x1 x2 y0 y1 y2 nx0 nx1 nx2 ny0 ny1 ny2 p0 p1).
Proof.
  intros Hne.
  unfold helmholtz_single_layer_regular_re, helmholtz_double_layer_regular_re,
         helmholtz_single_layer_regular_im, helmholtz_double_layer_regular_im, M_INV_4PI.
  destruct (Req_EM_T p1 0) as [e|e]; [subst p1|]; split; derive_tac x0 x1 x2 y0 y1 y2 Hne.
Qed.

Lemma helmholtz_adl_is_normal_derivative x0 x1 x2 y0 y1 y2 nx0 nx1 nx2 ny0 ny1 ny2 p0 p1 :
  (x0, x1, x2) <> (y0, y1, y2) ->
  is_derive (fun t => helmholtz_single_layer_regular_re (x0 + t * nx0) (x1 + t * nx1) (x2 + t * nx2) y0 y1 y2
                        nx0 nx1 nx2 ny0 ny1 ny2 p0 p1) 0
            (helmholtz_adjoint_double_layer_regular_re x0 x1 x2 y0 y1 y2 nx0 nx1 nx2 ny0 ny1 ny2 p0 p1) /\
  is_derive (fun t => helmholtz_single_layer_regular_im (x0 + t * nx0) (x1 + t * nx1) (x2 + t * nx2) y0 y1 y2
                        nx0 nx1 nx2 ny0 ny1 ny2 p0 p1) 0
            (helmholtz_adjoint_double_layer_regular_im x0 x1 x2 y0 y1 y2 nx0 nx1 nx2 ny0 ny1 ny2 p0 p1).
Proof.
  intros Hne.
  unfold helmholtz_single_layer_regular_re, helmholtz_adjoint_double_layer_regular_re,
         helmholtz_single_layer_regular_im, helmholtz_adjoint_double_layer_regular_im, M_INV_4PI.
  destruct (Req_EM_T p1 0) as [e|e]; [subst p1|]; split; derive_tac x0 x1 x2 y0 y1 y2 Hne.
Qed.

(* ---- far field ---- *)
Definition cmul (a b : R * R) : R * R := (fst a * fst b - snd a * snd b, fst a * snd b + snd a * fst b).
(* exp(-i k s) for k = kr + i ki and real s :  e^{ki s} (cos(kr s) - i sin(kr s)) *)
Definition cexp_mik (kr ki s : R) : R * R := (exp (ki * s) * cos (kr * s), - (exp (ki * s) * sin (kr * s))).
Definition dot3 (a0 a1 a2 b0 b1 b2 : R) : R := a0 * b0 + a1 * b1 + a2 * b2.

(* translating the source by t multiplies the far-field kernels by exp(-i k xhat.t), k = p0 real (p1 = 0) *)
Lemma far_field_translation x0 x1 x2 y0 y1 y2 t0 t1 t2 nx0 nx1 nx2 ny0 ny1 ny2 k :
  helmholtz_far_field_single_layer x0 x1 x2 (y0 + t0) (y1 + t1) (y2 + t2) nx0 nx1 nx2 ny0 ny1 ny2 k 0
    = cmul (cexp_mik k 0 (dot3 x0 x1 x2 t0 t1 t2))
           (helmholtz_far_field_single_layer x0 x1 x2 y0 y1 y2 nx0 nx1 nx2 ny0 ny1 ny2 k 0) /\
  helmholtz_far_field_double_layer x0 x1 x2 (y0 + t0) (y1 + t1) (y2 + t2) nx0 nx1 nx2 ny0 ny1 ny2 k 0
    = cmul (cexp_mik k 0 (dot3 x0 x1 x2 t0 t1 t2))
           (helmholtz_far_field_double_layer x0 x1 x2 y0 y1 y2 nx0 nx1 nx2 ny0 ny1 ny2 k 0).
Proof.
  unfold helmholtz_far_field_single_layer, helmholtz_far_field_double_layer, cmul, cexp_mik, dot3; cbn [fst snd].
  unfold helmholtz_far_field_single_layer_re, helmholtz_far_field_single_layer_im,
         helmholtz_far_field_double_layer_re, helmholtz_far_field_double_layer_im, M_INV_4PI.
  split_ifs.    (* a tree whose far-field kernels read p1 has [if Req_EM_T 0 0] here *)
  rewrite Rmult_0_l, exp_0.
  set (a := k * (x0 * y0 + x1 * y1 + x2 * y2)).
  set (b := k * (x0 * t0 + x1 * t1 + x2 * t2)).
  replace (- k * (0 + x0 * (y0 + t0) + x1 * (y1 + t1) + x2 * (y2 + t2))) with (- (a + b)) by (unfold a, b; ring).
  replace (- k * (0 + x0 * y0 + x1 * y1 + x2 * y2)) with (- a) by (unfold a; ring).
  rewrite !cos_neg, !sin_neg, cos_plus, sin_plus.
  pose proof pi4_neq0.
  split; f_equal; field; auto using PI_neq0.
Qed.

(* For complex k the law would need the factor e^{ki xhat.t}; a kernel that does not read p1 cannot provide it.
   [far_field_kernels_use_imag] is computed by the translator from the current source (does p1 occur in the
   far-field kernels?).  On a tree where it is false the law is refuted by an explicit witness. *)
Lemma far_field_complex_k_refuted :
  far_field_kernels_use_imag = false ->
  exists x0 x1 x2 y0 y1 y2 t0 t1 t2 nx0 nx1 nx2 ny0 ny1 ny2 kr ki,
    helmholtz_far_field_single_layer x0 x1 x2 (y0 + t0) (y1 + t1) (y2 + t2) nx0 nx1 nx2 ny0 ny1 ny2 kr ki
    <> cmul (cexp_mik kr ki (dot3 x0 x1 x2 t0 t1 t2))
            (helmholtz_far_field_single_layer x0 x1 x2 y0 y1 y2 nx0 nx1 nx2 ny0 ny1 ny2 kr ki).
Proof.
  intros Hflag.
  first
    [ (* tree where the kernels read the imaginary part: hypothesis is absurd *)
      vm_compute in Hflag; discriminate Hflag
    | (* pinned tree: witness xhat = t = e1, y = 0, k = i *)
      exists 1, 0, 0, 0, 0, 0, 1, 0, 0, 0, 0, 0, 0, 0, 0, 0, 1;
      unfold helmholtz_far_field_single_layer, cmul, cexp_mik, dot3; cbn [fst snd];
      unfold helmholtz_far_field_single_layer_re, helmholtz_far_field_single_layer_im, M_INV_4PI;
      intros E; apply (f_equal fst) in E; cbn [fst] in E;
      repeat rewrite ?Rmult_0_l, ?Rmult_0_r, ?Rplus_0_l, ?Rplus_0_r, ?Ropp_0, ?Rmult_1_l, ?Rmult_1_r, ?cos_0, ?sin_0,
                     ?Rminus_0_r in E;
      assert (P : 0 < 1 / (4 * PI)) by (apply Rdiv_lt_0_compat; [lra | pose proof PI_RGT_0; lra]);
      pose proof (exp_ineq1 1 ltac:(lra)) as X;
      assert (Q : 1 / (4 * PI) * 1 < exp 1 * (1 / (4 * PI))) by nra;
      nra ].
Qed.

(* the far-field double-layer kernel is the derivative of the far-field single-layer kernel along the trial normal
   (re and im), any real p0 (and any p1, which the kernels do not read) *)
Lemma far_field_dl_is_normal_derivative x0 x1 x2 y0 y1 y2 nx0 nx1 nx2 ny0 ny1 ny2 p0 p1 :
  is_derive (fun t => helmholtz_far_field_single_layer_re x0 x1 x2 (y0 + t * ny0) (y1 + t * ny1) (y2 + t * ny2)
                        nx0 nx1 nx2 ny0 ny1 ny2 p0 p1) 0
            (helmholtz_far_field_double_layer_re x0 x1 x2 y0 y1 y2 nx0 nx1 nx2 ny0 ny1 ny2 p0 p1) /\
  is_derive (fun t => helmholtz_far_field_single_layer_im x0 x1 x2 (y0 + t * ny0) (y1 + t * ny1) (y2 + t * ny2)
                        nx0 nx1 nx2 ny0 ny1 ny2 p0 p1) 0
            (helmholtz_far_field_double_layer_im x0 x1 x2 y0 y1 y2 nx0 nx1 nx2 ny0 ny1 ny2 p0 p1).
Proof.
  unfold helmholtz_far_field_single_layer_re, helmholtz_far_field_double_layer_re,
         helmholtz_far_field_single_layer_im, helmholtz_far_field_double_layer_im, M_INV_4PI.
  destruct (Req_EM_T p1 0) as [e|e]; [subst p1|];
  (split; auto_derive; auto; rewrite ?Rmult_0_l, ?Rplus_0_r, ?Rplus_0_l;
    unify_args cos; unify_args sin; unify_args exp; field; apply PI_neq0).
Qed.

(* far-field single layer as the limit of r exp(-ikr) K_sl(r xhat, y), real k: exact identity for sources on the ray,
   y = s xhat with |xhat| = 1 and r > s:
     r exp(-ikr) K_sl(r xhat, s xhat) = r/(r - s) * K_ff(xhat, s xhat)        (the factor r/(r-s) -> 1) *)
Lemma far_field_on_axis x0 x1 x2 nx0 nx1 nx2 ny0 ny1 ny2 k s r :
  x0 * x0 + x1 * x1 + x2 * x2 = 1 -> s < r ->
  cmul (r * cos (k * r), - (r * sin (k * r)))
       (helmholtz_single_layer_regular (r * x0) (r * x1) (r * x2) (s * x0) (s * x1) (s * x2)
                                       nx0 nx1 nx2 ny0 ny1 ny2 k 0)
  = (r / (r - s) * helmholtz_far_field_single_layer_re x0 x1 x2 (s * x0) (s * x1) (s * x2) nx0 nx1 nx2 ny0 ny1 ny2 k 0,
     r / (r - s) * helmholtz_far_field_single_layer_im x0 x1 x2 (s * x0) (s * x1) (s * x2) nx0 nx1 nx2 ny0 ny1 ny2 k 0).
Proof.
  intros Hn Hs.
  unfold cmul, helmholtz_single_layer_regular; cbn [fst snd].
  unfold helmholtz_single_layer_regular_re, helmholtz_single_layer_regular_im,
         helmholtz_far_field_single_layer_re, helmholtz_far_field_single_layer_im, M_INV_4PI.
  assert (E : 0 + (s * x0 - r * x0) * (s * x0 - r * x0) + (s * x1 - r * x1) * (s * x1 - r * x1)
                + (s * x2 - r * x2) * (s * x2 - r * x2) = (r - s) * (r - s)).
  { transitivity ((r - s) * (r - s) * (x0 * x0 + x1 * x1 + x2 * x2)); [ring|rewrite Hn; ring]. }
  rewrite E. replace (sqrt ((r - s) * (r - s))) with (r - s) by (symmetry; apply sqrt_square; lra).
  destruct (Req_EM_T 0 0) as [_|N]; [|exfalso; apply N; reflexivity].
  replace (- k * (0 + x0 * (s * x0) + x1 * (s * x1) + x2 * (s * x2))) with (- (k * s))
    by (transitivity (- k * s * (x0 * x0 + x1 * x1 + x2 * x2)); [rewrite Hn; ring|ring]).
  replace (k * (r - s)) with (k * r - k * s) by ring.
  rewrite cos_neg, sin_neg, cos_minus, sin_minus.
  pose proof (sin2_cos2 (k * r)) as P. unfold Rsqr in P.
  assert (r - s <> 0) by lra. pose proof PI_neq0.
  set (c := cos (k * r)) in *. set (n := sin (k * r)) in *. set (cs := cos (k * s)). set (ns := sin (k * s)).
  f_equal.
  - transitivity (r * (cs * (c * c + n * n)) * (1 / (4 * PI)) / (r - s)); [field; auto|].
    replace (c * c + n * n) with 1 by lra. field; auto.
  - transitivity (- (r * (ns * (c * c + n * n)) * (1 / (4 * PI)) / (r - s))); [field; auto|].
    replace (c * c + n * n) with 1 by lra. field; auto.
Qed.

(* On a tree whose far-field kernels do read the imaginary part (flag true) the translation law must hold for every
   complex k; on the pinned tree the hypothesis is false. *)
Lemma far_field_translation_complex_if_supported :
  far_field_kernels_use_imag = true ->
  forall x0 x1 x2 y0 y1 y2 t0 t1 t2 nx0 nx1 nx2 ny0 ny1 ny2 kr ki,
  helmholtz_far_field_single_layer x0 x1 x2 (y0 + t0) (y1 + t1) (y2 + t2) nx0 nx1 nx2 ny0 ny1 ny2 kr ki
    = cmul (cexp_mik kr ki (dot3 x0 x1 x2 t0 t1 t2))
           (helmholtz_far_field_single_layer x0 x1 x2 y0 y1 y2 nx0 nx1 nx2 ny0 ny1 ny2 kr ki) /\
  helmholtz_far_field_double_layer x0 x1 x2 (y0 + t0) (y1 + t1) (y2 + t2) nx0 nx1 nx2 ny0 ny1 ny2 kr ki
    = cmul (cexp_mik kr ki (dot3 x0 x1 x2 t0 t1 t2))
           (helmholtz_far_field_double_layer x0 x1 x2 y0 y1 y2 nx0 nx1 nx2 ny0 ny1 ny2 kr ki).
Proof.
  intros Hflag.
  first
    [ vm_compute in Hflag; discriminate Hflag
    | intros x0 x1 x2 y0 y1 y2 t0 t1 t2 nx0 nx1 nx2 ny0 ny1 ny2 kr ki;
      unfold helmholtz_far_field_single_layer, helmholtz_far_field_double_layer, cmul, cexp_mik, dot3; cbn [fst snd];
      unfold helmholtz_far_field_single_layer_re, helmholtz_far_field_single_layer_im,
             helmholtz_far_field_double_layer_re, helmholtz_far_field_double_layer_im, M_INV_4PI;
      set (sy := x0 * y0 + x1 * y1 + x2 * y2); set (st := x0 * t0 + x1 * t1 + x2 * t2);
      replace (0 + x0 * (y0 + t0) + x1 * (y1 + t1) + x2 * (y2 + t2)) with (sy + st) by (unfold sy, st; ring);
      replace (0 + x0 * y0 + x1 * y1 + x2 * y2) with sy by (unfold sy; ring);
      replace (- kr * (sy + st)) with (- (kr * sy + kr * st)) by ring;
      replace (- kr * sy) with (- (kr * sy)) by ring;
      replace (ki * (sy + st)) with (ki * sy + ki * st) by ring;
      rewrite ?cos_neg, ?sin_neg, ?cos_plus, ?sin_plus, ?exp_plus;
      pose proof pi4_neq0; pose proof PI_neq0;
      destruct (Req_EM_T ki 0) as [e|e];
      [ subst ki; rewrite ?Rmult_0_l, ?exp_0 | ];
      split; f_equal; field; auto ].
Qed.

(* ---- which kernel each potential / far-field factory evaluates (table gen/Dispatch.v) ---- *)
From BVgen Require Import Dispatch.
From BV Require Import Kernels.DispatchModel.
Open Scope string_scope.

Definition expected_kernel_type (f : factory) : string :=
  if String.eqb (f_package f) "far_field" then "helmholtz_far_field_" ++ f_name f
  else f_module f ++ "_" ++ f_name f.

Definition expected_options (f : factory) : list wexpr :=
  if String.eqb (f_module f) "laplace" then nil
  else if String.eqb (f_module f) "modified_helmholtz" then (WSame :: nil)
  else (WReal :: WImag :: nil).

Definition potential_like (f : factory) : bool :=
  String.eqb (f_package f) "potential" || String.eqb (f_package f) "far_field".

Lemma potential_factories_kernel_types :
  List.Forall (fun f => f_kernel_type f = expected_kernel_type f /\ f_assembly_type f = "default_scalar" /\
                   f_options f = expected_options f /\
                   f_is_complex f = negb (String.eqb (f_module f) "laplace" || String.eqb (f_module f) "modified_helmholtz"))
         (List.filter potential_like factories).
Proof.
  cbv [filter factories potential_like f_package String.eqb Ascii.eqb Bool.eqb orb].
  repeat (apply List.Forall_cons; [repeat split; reflexivity|]). apply List.Forall_nil.
Qed.

Lemma potential_factories_count : List.length (List.filter potential_like factories) = 8%nat.
Proof. reflexivity. Qed.

(* no factory of the table rewrites its evaluation points / directions before handing them to the assembler *)
Lemma factories_pass_points_through : List.Forall (fun f => f_alters_points f = false) factories.
Proof. unfold factories. repeat (apply List.Forall_cons; [reflexivity|]). apply List.Forall_nil. Qed.
