(* C05: the Helmholtz, modified Helmholtz and Laplace kernels (as generated from core/numba_kernels.py and
   api/fmm/helpers.py) form one analytic family; dispatch of purely imaginary wavenumbers in the factories.
   Table driven over select_numba_kernels' dictionaries (regular kernels are also the potential kernels). *)
From Coq Require Import Reals Lra String List Bool.
From BVgen Require Import NumbaKernels Dispatch.
From BV Require Import Kernels.KernelTactics Kernels.DispatchModel.
Import ListNotations.
Open Scope R_scope.
Open Scope string_scope.

Definition kernel_of (tbl : list (string * string)) (kt : string) : option kfun :=
  match assoc kt tbl with Some nb => numba_kernel nb | None => None end.

Definition conjp (z : R * R) : R * R := (fst z, - snd z).

Definition kinds : list string := ["single_layer"; "double_layer"; "adjoint_double_layer"].

(* h = helmholtz_<kind>, l = laplace_<kind>, m = modified_helmholtz_<kind> of the table tbl *)
Definition family_ok (tbl : list (string * string)) (kind : string) : Prop :=
  exists h l m,
    kernel_of tbl ("helmholtz_" ++ kind) = Some h /\ kernel_of tbl ("laplace_" ++ kind) = Some l /\
    kernel_of tbl ("modified_helmholtz_" ++ kind) = Some m /\
    forall x0 x1 x2 y0 y1 y2 nx0 nx1 nx2 ny0 ny1 ny2, (x0, x1, x2) <> (y0, y1, y2) ->
      (* k = 0 is Laplace (whatever is passed to the parameter-free Laplace kernel) *)
      (forall q0 q1, h x0 x1 x2 y0 y1 y2 nx0 nx1 nx2 ny0 ny1 ny2 0 0 = l x0 x1 x2 y0 y1 y2 nx0 nx1 nx2 ny0 ny1 ny2 q0 q1) /\
      (* k = i w is modified Helmholtz with parameter w: real value, zero imaginary part *)
      (forall w q1, h x0 x1 x2 y0 y1 y2 nx0 nx1 nx2 ny0 ny1 ny2 0 w = m x0 x1 x2 y0 y1 y2 nx0 nx1 nx2 ny0 ny1 ny2 w q1) /\
      (* k -> - conj k conjugates *)
      (forall kr ki, h x0 x1 x2 y0 y1 y2 nx0 nx1 nx2 ny0 ny1 ny2 (- kr) ki
                     = conjp (h x0 x1 x2 y0 y1 y2 nx0 nx1 nx2 ny0 ny1 ny2 kr ki)).

Ltac unfold_pair14 :=
  match goal with
  | |- ?f _ _ _ _ _ _ _ _ _ _ _ _ _ _ = conjp (?g _ _ _ _ _ _ _ _ _ _ _ _ _ _) =>
      unfold conjp, f; cbn [fst snd]; f_equal;
      match goal with
      | |- ?fr _ _ _ _ _ _ _ _ _ _ _ _ _ _ = - ?gr _ _ _ _ _ _ _ _ _ _ _ _ _ _ => unfold fr, M_INV_4PI
      | |- ?fr _ _ _ _ _ _ _ _ _ _ _ _ _ _ = ?gr _ _ _ _ _ _ _ _ _ _ _ _ _ _ => unfold fr, M_INV_4PI
      end
  | |- ?f _ _ _ _ _ _ _ _ _ _ _ _ _ _ = ?g _ _ _ _ _ _ _ _ _ _ _ _ _ _ =>
      unfold f, g; f_equal;
      match goal with
      | |- ?fr _ _ _ _ _ _ _ _ _ _ _ _ _ _ = ?gr _ _ _ _ _ _ _ _ _ _ _ _ _ _ => unfold fr, gr, M_INV_4PI
      end
  end.

Ltac family_tac :=
  eexists; eexists; eexists; split; [reflexivity | split; [reflexivity | split; [reflexivity |]]];
  let Hne := fresh "Hne" in
  intros x0 x1 x2 y0 y1 y2 nx0 nx1 nx2 ny0 ny1 ny2 Hne;
  split; [| split]; intros; unfold_pair14; kernel_eq x0 x1 x2 y0 y1 y2 Hne.

Lemma family_regular : Forall (family_ok numba_kernel_functions_regular) kinds.
Proof. unfold kinds. repeat (apply Forall_cons; [family_tac|]). apply Forall_nil. Qed.

Lemma family_singular : Forall (family_ok numba_kernel_functions_singular) kinds.
Proof. unfold kinds. repeat (apply Forall_cons; [family_tac|]). apply Forall_nil. Qed.

(* ---- symmetry: K_sl(x,y) = K_sl(y,x); K_adl(x,y;n_x) = K_dl(y,x; n_y := n_x) ---- *)
Definition families : list string := ["laplace_"; "helmholtz_"; "modified_helmholtz_"].

Definition symmetry_ok (tbl : list (string * string)) (fam : string) : Prop :=
  exists s d a,
    kernel_of tbl (fam ++ "single_layer") = Some s /\ kernel_of tbl (fam ++ "double_layer") = Some d /\
    kernel_of tbl (fam ++ "adjoint_double_layer") = Some a /\
    forall x0 x1 x2 y0 y1 y2 nx0 nx1 nx2 ny0 ny1 ny2 p0 p1, (x0, x1, x2) <> (y0, y1, y2) ->
      (forall mx0 mx1 mx2 my0 my1 my2,
         s x0 x1 x2 y0 y1 y2 nx0 nx1 nx2 ny0 ny1 ny2 p0 p1 = s y0 y1 y2 x0 x1 x2 mx0 mx1 mx2 my0 my1 my2 p0 p1) /\
      (forall mx0 mx1 mx2,
         a x0 x1 x2 y0 y1 y2 nx0 nx1 nx2 ny0 ny1 ny2 p0 p1 = d y0 y1 y2 x0 x1 x2 mx0 mx1 mx2 nx0 nx1 nx2 p0 p1).

Ltac symmetry_tac :=
  eexists; eexists; eexists; split; [reflexivity | split; [reflexivity | split; [reflexivity |]]];
  let Hne := fresh "Hne" in
  intros x0 x1 x2 y0 y1 y2 nx0 nx1 nx2 ny0 ny1 ny2 p0 p1 Hne;
  split; intros; unfold_pair14; kernel_eq x0 x1 x2 y0 y1 y2 Hne.

Lemma symmetry_regular : Forall (symmetry_ok numba_kernel_functions_regular) families.
Proof. unfold families. repeat (apply Forall_cons; [symmetry_tac|]). apply Forall_nil. Qed.

Lemma symmetry_singular : Forall (symmetry_ok numba_kernel_functions_singular) families.
Proof. unfold families. repeat (apply Forall_cons; [symmetry_tac|]). apply Forall_nil. Qed.

(* ---- FMM point kernels (api/fmm/helpers.py): value slot = single-layer kernel; same family laws ---- *)
Lemma fmm_values_are_single_layer x0 x1 x2 y0 y1 y2 nx0 nx1 nx2 ny0 ny1 ny2 p0 p1 :
  (x0, x1, x2) <> (y0, y1, y2) ->
  (fmm_laplace_kernel_0_re x0 x1 x2 y0 y1 y2 p0 p1, fmm_laplace_kernel_0_im x0 x1 x2 y0 y1 y2 p0 p1)
    = laplace_single_layer_regular x0 x1 x2 y0 y1 y2 nx0 nx1 nx2 ny0 ny1 ny2 p0 p1 /\
  (fmm_modified_helmholtz_kernel_0_re x0 x1 x2 y0 y1 y2 p0 p1, fmm_modified_helmholtz_kernel_0_im x0 x1 x2 y0 y1 y2 p0 p1)
    = modified_helmholtz_single_layer_regular x0 x1 x2 y0 y1 y2 nx0 nx1 nx2 ny0 ny1 ny2 p0 p1 /\
  (fmm_helmholtz_kernel_0_re x0 x1 x2 y0 y1 y2 p0 p1, fmm_helmholtz_kernel_0_im x0 x1 x2 y0 y1 y2 p0 p1)
    = helmholtz_single_layer_regular x0 x1 x2 y0 y1 y2 nx0 nx1 nx2 ny0 ny1 ny2 p0 p1.
Proof.
  intros Hne.
  repeat split;
    match goal with |- (?a _ _ _ _ _ _ _ _, ?b _ _ _ _ _ _ _ _) = ?g _ _ _ _ _ _ _ _ _ _ _ _ _ _ =>
      unfold g; f_equal;
      match goal with |- ?fr _ _ _ _ _ _ _ _ = ?gr _ _ _ _ _ _ _ _ _ _ _ _ _ _ => unfold fr, gr, M_INV_4PI end
    end; kernel_eq x0 x1 x2 y0 y1 y2 Hne.
Qed.

(* gradient slots: Helmholtz with k = 0 is Laplace, with k = i w is modified Helmholtz *)
Lemma fmm_gradient_family x0 x1 x2 y0 y1 y2 w q0 q1 :
  (x0, x1, x2) <> (y0, y1, y2) ->
  (fmm_helmholtz_kernel_1_re x0 x1 x2 y0 y1 y2 0 0 = fmm_laplace_kernel_1_re x0 x1 x2 y0 y1 y2 q0 q1 /\
   fmm_helmholtz_kernel_2_re x0 x1 x2 y0 y1 y2 0 0 = fmm_laplace_kernel_2_re x0 x1 x2 y0 y1 y2 q0 q1 /\
   fmm_helmholtz_kernel_3_re x0 x1 x2 y0 y1 y2 0 0 = fmm_laplace_kernel_3_re x0 x1 x2 y0 y1 y2 q0 q1) /\
  (fmm_helmholtz_kernel_1_im x0 x1 x2 y0 y1 y2 0 0 = 0 /\ fmm_helmholtz_kernel_2_im x0 x1 x2 y0 y1 y2 0 0 = 0 /\
   fmm_helmholtz_kernel_3_im x0 x1 x2 y0 y1 y2 0 0 = 0) /\
  (fmm_helmholtz_kernel_1_re x0 x1 x2 y0 y1 y2 0 w = fmm_modified_helmholtz_kernel_1_re x0 x1 x2 y0 y1 y2 w q1 /\
   fmm_helmholtz_kernel_2_re x0 x1 x2 y0 y1 y2 0 w = fmm_modified_helmholtz_kernel_2_re x0 x1 x2 y0 y1 y2 w q1 /\
   fmm_helmholtz_kernel_3_re x0 x1 x2 y0 y1 y2 0 w = fmm_modified_helmholtz_kernel_3_re x0 x1 x2 y0 y1 y2 w q1) /\
  (fmm_helmholtz_kernel_1_im x0 x1 x2 y0 y1 y2 0 w = 0 /\ fmm_helmholtz_kernel_2_im x0 x1 x2 y0 y1 y2 0 w = 0 /\
   fmm_helmholtz_kernel_3_im x0 x1 x2 y0 y1 y2 0 w = 0).
Proof.
  intros Hne.
  repeat split;
    match goal with
    | |- ?fr _ _ _ _ _ _ _ _ = ?gr _ _ _ _ _ _ _ _ => unfold fr, gr, M_INV_4PI
    | |- ?fr _ _ _ _ _ _ _ _ = 0 => unfold fr, M_INV_4PI
    end; kernel_eq x0 x1 x2 y0 y1 y2 Hne.
Qed.

(* ---- dispatch of purely imaginary wavenumbers (table gen/Dispatch.v) ---- *)
Definition is_helmholtz (f : factory) : bool :=
  String.eqb (f_module f) "helmholtz" && negb (String.eqb (f_package f) "far_field").

(* what the property demands of Helmholtz factory f: for k = i w it builds exactly what the modified Helmholtz factory
   of the same package and name builds for w (in particular it does not raise) *)
Definition dispatch_spec (f : factory) : Prop :=
  exists g, find_factory factories (f_package f) "modified_helmholtz" (f_name f) = Some g /\
    forall w : R, call factories 1 f (0, w) = call factories 1 g (w, 0) /\ call factories 1 g (w, 0) <> Raises.

(* the defect of lead 9.1: k = i (w = 1) raises ValueError *)
Definition dispatch_defect (f : factory) : Prop := call factories 1 f (0, 1) = Raises.

Lemma R1_neq_0_dec : (if Req_EM_T 1 0 then false else true) = true.
Proof. destruct (Req_EM_T 1 0); [lra|reflexivity]. Qed.
Lemma R0_eq_0_dec : (if Req_EM_T 0 0 then false else true) = false.
Proof. destruct (Req_EM_T 0 0); [reflexivity|exfalso; auto]. Qed.

Ltac call_simpl :=
  cbn [call find_factory find factories f_package f_module f_name f_redirect f_requires_real f_options
       f_identifier f_kernel_type f_assembly_type f_is_complex f_has_param String.eqb Ascii.eqb Bool.eqb
       andb negb fst snd weval descriptor_of map];
  rewrite ?R0_eq_0_dec, ?R1_neq_0_dec;
  cbn [andb negb];
  repeat match goal with
  | |- context [Req_EM_T 0 0] => destruct (Req_EM_T 0 0) as [_|N]; [|exfalso; apply N; reflexivity]
  end.

Ltac dispatch_ok_tac :=
  eexists; split; [reflexivity|]; intros w; call_simpl; split; [reflexivity|discriminate].

Ltac dispatch_defect_tac := unfold dispatch_defect; call_simpl; reflexivity.

Definition helmholtz_factories (pkg : string) : list factory :=
  filter (fun f => is_helmholtz f && String.eqb (f_package f) pkg) factories.

Lemma dispatch_boundary : Forall dispatch_spec (helmholtz_factories "boundary").
Proof.
  cbv [helmholtz_factories filter factories is_helmholtz f_module f_package String.eqb Ascii.eqb Bool.eqb andb negb].
  repeat (apply Forall_cons; [dispatch_ok_tac|]). apply Forall_nil.
Qed.

(* potential factories: each either meets the specification (fixed tree) or exhibits the defect (pinned tree) *)
Lemma dispatch_potential : Forall (fun f => dispatch_spec f \/ dispatch_defect f) (helmholtz_factories "potential").
Proof.
  cbv [helmholtz_factories filter factories is_helmholtz f_module f_package String.eqb Ascii.eqb Bool.eqb andb negb].
  repeat (apply Forall_cons; [first [left; dispatch_ok_tac | right; dispatch_defect_tac]|]). apply Forall_nil.
Qed.

Lemma dispatch_nonempty :
  length (helmholtz_factories "boundary") = 4%nat /\ length (helmholtz_factories "potential") = 2%nat.
Proof. split; reflexivity. Qed.

(* a raising call can never meet the specification: the two alternatives of dispatch_potential exclude each other *)
Lemma defect_refutes_spec f : dispatch_defect f -> ~ dispatch_spec f.
Proof.
  intros D [g [_ H]]. destruct (H 1) as [E N]. unfold dispatch_defect in D. rewrite D in E. symmetry in E. exact (N E).
Qed.

(* every kernel type named by a factory is known to select_numba_kernels *)
Lemma factories_kernel_types_known :
  Forall (fun f => kernel_of numba_kernel_functions_regular (f_kernel_type f) <> None) factories.
Proof.
  unfold factories. repeat (apply Forall_cons; [cbn [f_kernel_type]; discriminate|]). apply Forall_nil.
Qed.
