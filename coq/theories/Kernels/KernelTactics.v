(* Shared definitions and tactics for identities between the generated Green's-function kernels. *)
From Coq Require Import Reals Lra String List.
Open Scope R_scope.

Fixpoint assoc (k : string) (l : list (string * string)) : option string :=
  match l with
  | nil => None
  | (a, b) :: t => if String.eqb k a then Some b else assoc k t
  end.

(* squared distance in the canonical orientation *)
Definition r2 (x0 x1 x2 y0 y1 y2 : R) : R :=
  (x0 - y0) * (x0 - y0) + (x1 - y1) * (x1 - y1) + (x2 - y2) * (x2 - y2).

Lemma r2_nonneg x0 x1 x2 y0 y1 y2 : 0 <= r2 x0 x1 x2 y0 y1 y2.
Proof. unfold r2. pose proof (Rle_0_sqr (x0 - y0)); pose proof (Rle_0_sqr (x1 - y1)); pose proof (Rle_0_sqr (x2 - y2)).
  unfold Rsqr in *. lra. Qed.

Lemma r2_pos x0 x1 x2 y0 y1 y2 : (x0, x1, x2) <> (y0, y1, y2) -> 0 < r2 x0 x1 x2 y0 y1 y2.
Proof.
  intros H. destruct (Rle_lt_or_eq_dec _ _ (r2_nonneg x0 x1 x2 y0 y1 y2)) as [L|E]; [exact L|exfalso; apply H].
  unfold r2 in E.
  pose proof (Rle_0_sqr (x0 - y0)) as A; pose proof (Rle_0_sqr (x1 - y1)) as B; pose proof (Rle_0_sqr (x2 - y2)) as C.
  unfold Rsqr in *.
  assert (E0 : (x0 - y0) * (x0 - y0) = 0) by lra.
  assert (E1 : (x1 - y1) * (x1 - y1) = 0) by lra.
  assert (E2 : (x2 - y2) * (x2 - y2) = 0) by lra.
  apply Rmult_integral in E0; apply Rmult_integral in E1; apply Rmult_integral in E2.
  f_equal; [f_equal|]; lra.
Qed.

Lemma r2_sym x0 x1 x2 y0 y1 y2 : r2 y0 y1 y2 x0 x1 x2 = r2 x0 x1 x2 y0 y1 y2.
Proof. unfold r2; ring. Qed.

Lemma sqrt_r2_neq0 x0 x1 x2 y0 y1 y2 : (x0, x1, x2) <> (y0, y1, y2) -> sqrt (r2 x0 x1 x2 y0 y1 y2) <> 0.
Proof. intros H. apply Rgt_not_eq, sqrt_lt_R0, r2_pos, H. Qed.

Lemma sqrt_r2_pos x0 x1 x2 y0 y1 y2 : (x0, x1, x2) <> (y0, y1, y2) -> 0 < sqrt (r2 x0 x1 x2 y0 y1 y2).
Proof. intros H. apply sqrt_lt_R0, r2_pos, H. Qed.

Lemma pi4_neq0 : 4 * PI <> 0.
Proof. apply Rgt_not_eq, Rmult_lt_0_compat; [lra|apply PI_RGT_0]. Qed.

(* The shapes in which the generated kernels spell the squared distance (x = test point, y = trial point). *)
Lemma sq_swap a b : (a - b) * (a - b) = (b - a) * (b - a).
Proof. ring. Qed.
Lemma sqd_A x0 x1 x2 y0 y1 y2 :
  0 + (y0 - x0) * (y0 - x0) + (y1 - x1) * (y1 - x1) + (y2 - x2) * (y2 - x2) = r2 x0 x1 x2 y0 y1 y2.
Proof. unfold r2. rewrite Rplus_0_l, (sq_swap y0 x0), (sq_swap y1 x1), (sq_swap y2 x2). reflexivity. Qed.
Lemma sqd_B x0 x1 x2 y0 y1 y2 :
  0 + (x0 - y0) * (x0 - y0) + (x1 - y1) * (x1 - y1) + (x2 - y2) * (x2 - y2) = r2 x0 x1 x2 y0 y1 y2.
Proof. unfold r2. rewrite Rplus_0_l. reflexivity. Qed.
Lemma sqd_D x0 x1 x2 y0 y1 y2 :
  (y0 - x0) * (y0 - x0) + (y1 - x1) * (y1 - x1) + (y2 - x2) * (y2 - x2) = r2 x0 x1 x2 y0 y1 y2.
Proof. unfold r2. rewrite (sq_swap y0 x0), (sq_swap y1 x1), (sq_swap y2 x2). reflexivity. Qed.

(* Rewrite the argument of every [sqrt] in the goal into the canonical squared distance [r2 x0 x1 x2 y0 y1 y2]
   whenever it is ring-equal to it: known shapes by lemma (fast), anything else by [ring] (slow but general). *)
Ltac norm_sqrt_at x0 x1 x2 y0 y1 y2 :=
  rewrite ?(sqd_A x0 x1 x2 y0 y1 y2), ?(sqd_B x0 x1 x2 y0 y1 y2), ?(sqd_D x0 x1 x2 y0 y1 y2);
  repeat match goal with
  | |- context [sqrt ?q] =>
      lazymatch q with
      | r2 x0 x1 x2 y0 y1 y2 => fail
      | _ => first [ change q with (r2 x0 x1 x2 y0 y1 y2)
                   | replace q with (r2 x0 x1 x2 y0 y1 y2) by (unfold r2; ring) ]
      end
  end.

(* Make ring-equal arguments of the function [f] syntactically equal. *)
Ltac unify_args f :=
  repeat match goal with
  | |- context [f ?a] =>
      match goal with
      | |- context [f ?b] =>
          lazymatch a with
          | b => fail
          | _ => replace b with a by ring
          end
      end
  end.

Ltac split_ifs :=
  repeat match goal with
  | |- context [Req_EM_T ?a ?b] =>
      let e := fresh "e" in
      destruct (Req_EM_T a b) as [e|e];
      [ try contradiction; try (is_var a; subst a)
      | try contradiction; try (exfalso; apply e; reflexivity) ]
  end.

(* trivial simplifications: arithmetic with 0, values at 0, parity of cos/sin *)
Ltac ksimpl :=
  repeat (progress (rewrite ?Ropp_0, ?Rmult_0_l, ?Rmult_0_r, ?Rplus_0_l, ?Rplus_0_r, ?Rminus_0_r,
                            ?Ropp_mult_distr_l_reverse, ?cos_neg, ?sin_neg, ?cos_0, ?sin_0, ?exp_0)).

(* Final step: close an equation between rational expressions in d = sqrt r2, cos/sin/exp atoms and PI. *)
Ltac kfield :=
  try (field; repeat split; auto using PI_neq0, pi4_neq0);
  try lra.

(* [kernel_eq x0 x1 x2 y0 y1 y2 Hne]: goal is an equation between unfolded kernel bodies; Hne : (x..) <> (y..) *)
Ltac kernel_eq x0 x1 x2 y0 y1 y2 Hne :=
  let d := fresh "d" in let Hd := fresh "Hd" in let Ed := fresh "Ed" in
  pose proof (sqrt_r2_neq0 x0 x1 x2 y0 y1 y2 Hne) as Hd;
  norm_sqrt_at x0 x1 x2 y0 y1 y2;
  remember (sqrt (r2 x0 x1 x2 y0 y1 y2)) as d eqn:Ed;
  split_ifs;
  ksimpl;
  unify_args cos; unify_args sin; unify_args exp;
  kfield.
