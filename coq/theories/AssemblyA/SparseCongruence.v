(* C04 (sparse part): the sparse assembler on S is the congruence transform of the sparse assembler on the full
   element-wise spaces, including the dof_transformation products. *)
From Coq Require Import List Arith Bool Lia Permutation Setoid Morphisms Ring Ring_theory.
From BV Require Import AssemblyA.Sums AssemblyA.Mat AssemblyA.Dense AssemblyA.Sparse AssemblyA.Congruence
     AssemblyA.L2Proofs.
Import ListNotations.
Local Open Scope cr_scope.

Section SparseCongruence.
  Context {A : Type} {R : CRing A}.
  Add Ring AringS : (@Rth A R) (setoid (@Rsth A R) (@Reqe A R)).

  Theorem congruence_sparse_core nel Lsp (St Sr : space A) ct cr :
    meq (sparse_core nel Lsp St Sr)
        (congr (seq 0 (sp_ns St * nel)) (seq 0 (sp_ns Sr * nel)) (scatter (tmat nel St))
               (sparse_core nel Lsp (full_space (sp_ns St) ct) (full_space (sp_ns Sr) cr))
               (scatter (tmat nel Sr))).
  Proof.
    intros r c. symmetry. unfold sparse_core at 1.
    rewrite congr_scatter; [| apply seq_NoDup | apply seq_NoDup |].
    2:{ intros t Ht. apply in_map_iff in Ht. destruct Ht as ([[[[te i] tr] j] v] & <- & Hx).
        apply in_sparse_local in Hx. destruct Hx as (He & -> & Hi & Hj). simpl in Hi, Hj.
        unfold sparse_elements in He. apply filter_In in He. destruct He as [He _]. apply in_seq in He.
        unfold glob_singular, t_row, t_col; simpl. split; apply idx_bound; auto; lia. }
    unfold sparse_core.
    change (scatter ?L r c) with (sumf (fun t => entry t r c) L).
    rewrite !sumf_map, !sum_sparse_local. simpl sp_ns.
    unfold sparse_elements. simpl sp_support. simpl andb.
    rewrite (sumf_filter (fun e => sp_support Sr e && sp_support St e)).
    rewrite (filter_all_true (fun _ : nat => true)) by reflexivity.
    apply sumf_ext; intros e He. apply in_seq in He.
    transitivity (indic (sp_support St e) (indic (sp_support Sr e)
                   (sumf (fun i => sumf (fun j => entry (glob_singular St Sr (e, i, e, j, Lsp e i j)) r c)
                                        (seq 0 (sp_ns Sr))) (seq 0 (sp_ns St))))).
    - rewrite !sumf_indic. apply sumf_ext; intros i Hi. apply in_seq in Hi.
      rewrite !sumf_indic. apply sumf_ext; intros j Hj. apply in_seq in Hj.
      apply (summand_singular nel St Sr ct cr r c e i e j); lia.
    - destruct (sp_support St e), (sp_support Sr e); reflexivity.
  Qed.

  Lemma dof_transform_ext gt gr Xt Xr M M' : meq M M' -> meq (dof_transform gt gr Xt Xr M) (dof_transform gt gr Xt Xr M').
  Proof.
    intros H. unfold dof_transform. destruct Xt as [Xt|], Xr as [Xr|]; auto.
    - apply mmul_ext; [reflexivity|]. apply mmul_ext; [assumption | reflexivity].
    - apply mmul_ext; [reflexivity | assumption].
    - apply mmul_ext; [assumption | reflexivity].
  Qed.

  Theorem congruence_sparse nel Lsp (St Sr : space A) ct cr gt gr Xt Xr :
    meq (sparse_op nel Lsp St Sr gt gr Xt Xr)
        (dof_transform gt gr Xt Xr
           (congr (seq 0 (sp_ns St * nel)) (seq 0 (sp_ns Sr * nel)) (scatter (tmat nel St))
                  (sparse_core nel Lsp (full_space (sp_ns St) ct) (full_space (sp_ns Sr) cr))
                  (scatter (tmat nel Sr)))).
  Proof. unfold sparse_op. apply dof_transform_ext, congruence_sparse_core. Qed.
End SparseCongruence.
