(* C03 tie (T): facts regenerated from Grid._compute_geometric_quantities by translators/c03_geometry.py (fails closed when
   absolute vertex coordinates enter anything but the centroids and the vertex differences `jacobians`).  Together with
   Equivariance.geometry_from_differences (normal direction and det(J'J) are functions of vertex differences, hence
   translation invariant) this ties the translation-invariance theorems to the source. *)
From Coq Require Import String List.
From BVgen Require Import GeometryFacts.
Import ListNotations.
Open Scope string_scope.

Lemma geometry_source_uses_differences :
  geometry_from_differences_in_source = true /\
  geometry_normal_cross_arguments = ["jacobians[::2]"; "jacobians[1::2]"] /\
  (forall q, In q geometry_absolute_quantities -> q = "centroids" \/ q = "element_vertices" \/ q = "self._centroids").
Proof.
  split; [reflexivity|]. split; [reflexivity|].
  intros q H. simpl in H. intuition (subst; auto).
Qed.
