(* Evaluation side of the C03 correspondence: the hypotheses of [relabel_dense] as booleans on the arrays the
   implementation produced for a grid and for its relabelled / locally rotated / flipped copy, the model on both
   sides, and the conclusion on the two matrices the implementation assembled. *)
From Coq Require Import List Arith Bool ZArith.
From Bignums Require Import BigZ.
From BV Require Import AssemblyA.Sums AssemblyA.Mat AssemblyA.Dense AssemblyA.Sparse AssemblyA.Dyadic AssemblyA.CorrDense.
Import ListNotations.
Local Open Scope cr_scope.

Record rcase := mkRCase {
  r_c0 : dcase; r_c1 : dcase; r_eval : bool;
  r_pi : list nat; r_loc_t : list (list nat); r_loc_r : list (list nat);
  r_rho_t : list nat; r_rho_r : list nat; r_sgn_t : list dy; r_sgn_r : list dy;
  r_act_t : list (list bool); r_act_r : list (list bool); r_tol : dy }.

Definition fn1 (l : list nat) : nat -> nat := fun k => nth k l 0%nat.
Definition fn2 (l : list (list nat)) : nat -> nat -> nat := fun e i => nth i (nth e l []) 0%nat.
Definition fnb (l : list (list bool)) : nat -> nat -> bool := fun e i => nth i (nth e l []) false.
Definition fnd (l : list dy) : nat -> dy := fun k => nth k l 0.

Fixpoint nodup_b (l : list nat) : bool :=
  match l with [] => true | x :: t => negb (existsb (Nat.eqb x) t) && nodup_b t end.

Definition relabelled_b (nel : nat) (pi : nat -> nat) (loc : nat -> nat -> nat) (rho : nat -> nat) (sgn : nat -> dy)
           (act : nat -> nat -> bool) (S0 S1 : space dy) : bool :=
  Nat.eqb (sp_ns S1) (sp_ns S0) &&
  forallb (fun e =>
    Bool.eqb (sp_support S1 (pi e)) (sp_support S0 e) &&
    perm_b (map (loc e) (seq 0 (sp_ns S0))) (seq 0 (sp_ns S0)) &&
    forallb (fun i =>
      if act e i then
        Nat.eqb (sp_l2g S1 (pi e) (loc e i)) (rho (sp_l2g S0 e i)) &&
        dclose (D 0 0) (sp_mult S1 (pi e) (loc e i)) (sgn (sp_l2g S0 e i) * sp_mult S0 e i)
      else dclose (D 0 0) (sp_mult S0 e i) 0 && dclose (D 0 0) (sp_mult S1 (pi e) (loc e i)) 0)
      (seq 0 (sp_ns S0))) (seq 0 nel).

Definition pair_key (pi : nat -> nat) (p : spair) : nat * nat * nat := (kind_code (s_kind p), pi (s_te p), pi (s_tr p)).
Definition key_eqb (a b : nat * nat * nat) : bool :=
  let '(a0, a1, a2) := a in let '(b0, b1, b2) := b in Nat.eqb a0 b0 && Nat.eqb a1 b1 && Nat.eqb a2 b2.
Definition count_key (l : list (nat * nat * nat)) (k : nat * nat * nat) : nat := length (filter (key_eqb k) l).
Definition keys_perm_b (l1 l2 : list (nat * nat * nat)) : bool :=
  Nat.eqb (length l1) (length l2) && forallb (fun k => Nat.eqb (count_key l1 k) (count_key l2 k)) (l1 ++ l2).

Definition rcase_diag (c : rcase) : list bool :=
  let c0 := r_c0 c in let c1 := r_c1 c in
  let nel := gd_nel (c_grid c0) in
  let St0 := to_space (c_test c0) in let Sr0 := to_space (c_trial c0) in
  let St1 := to_space (c_test c1) in let Sr1 := to_space (c_trial c1) in
  let pi := fn1 (r_pi c) in
  let T0 := to_topo (c_grid c0) in let T1 := to_topo (c_grid c1) in
  let rho_t := fn1 (r_rho_t c) in let rho_r := fn1 (r_rho_r c) in
  let sgn_t := fnd (r_sgn_t c) in let sgn_r := fnd (r_sgn_r c) in
  [ Nat.eqb (gd_nel (c_grid c1)) nel && perm_b (map pi (seq 0 nel)) (seq 0 nel);
    nodup_b (r_rho_t c) && nodup_b (r_rho_r c) &&
      Nat.eqb (length (r_rho_t c)) (c_rows c0) && Nat.eqb (length (r_rho_r c)) (c_cols c0);
    relabelled_b nel pi (fn2 (r_loc_t c)) rho_t sgn_t (fnb (r_act_t c)) St0 St1;
    relabelled_b nel pi (fn2 (r_loc_r c)) rho_r sgn_r (fnb (r_act_r c)) Sr0 Sr1;
    wf_colors_b nel St0 && wf_colors_b nel Sr0 && wf_colors_b nel St1 && wf_colors_b nel Sr1 &&
      wf_adj_b nel (gd_ea (c_grid c0)) && wf_adj_b nel (gd_va (c_grid c0));
    forallb (fun a => forallb (fun b =>
       Bool.eqb (elements_adjacent (g_els T1) (pi a) (pi b)) (elements_adjacent (g_els T0) a b)) (seq 0 nel)) (seq 0 nel);
    keys_perm_b (map (pair_key pi) (singular_pairs nel St0 Sr0 (gd_ea (c_grid c0)) (gd_va (c_grid c0))))
                (map (pair_key (fun e => e)) (singular_pairs nel St1 Sr1 (gd_ea (c_grid c1)) (gd_va (c_grid c1))));
    (* conclusion on the implementation's matrices *)
    forallb (fun r => forallb (fun k =>
       dclose (r_tol c) (nth (rho_r k) (nth (rho_t r) (c_impl c1) []) 0)
              (sgn_t r * sgn_r k * nth k (nth r (c_impl c0) []) 0)) (seq 0 (c_cols c0))) (seq 0 (c_rows c0));
    (* the model agrees with the implementation on both grids *)
    if r_eval c then case_ok c0 && case_ok c1 else true;
    (* local regular values are carried along by the relabelling (non-adjacent pairs) *)
    if r_eval c then
      let G0 := to_geom (c_grid c0) in let G1 := to_geom (c_grid c1) in
      let K := kernel_of (c_kernel c0) in
      let L0 := Lreg_quad K (c_rule c0) G0 G0 (nm_of (c_test c0)) (nm_of (c_trial c0))
                          (shape_of (d_shape (c_test c0))) (shape_of (d_shape (c_trial c0))) in
      let L1 := Lreg_quad K (c_rule c1) G1 G1 (nm_of (c_test c1)) (nm_of (c_trial c1))
                          (shape_of (d_shape (c_test c1))) (shape_of (d_shape (c_trial c1))) in
      forallb (fun a => forallb (fun b =>
        elements_adjacent (g_els T0) a b ||
        forallb (fun i => forallb (fun j =>
          dclose (r_tol c) (L1 (pi a) (pi b) (fn2 (r_loc_t c) a i) (fn2 (r_loc_r c) b j)) (L0 a b i j))
          (seq 0 (sp_ns Sr0))) (seq 0 (sp_ns St0))) (seq 0 nel)) (seq 0 nel)
    else true ].
Definition rcase_ok (c : rcase) : bool := forallb (fun b => b) (rcase_diag c).
