(* C03: equivariance of the dense assembly model under relabelling of elements and global DOFs, under translation
   of the geometry, and the "geometry from differences" facts; for every commutative ring. *)
From Coq Require Import List Arith Bool Lia Permutation Setoid Morphisms Ring Ring_theory.
From BV Require Import AssemblyA.Sums AssemblyA.Mat AssemblyA.Dense AssemblyA.Congruence.
Import ListNotations.
Local Open Scope cr_scope.

Section Equivariance.
  Context {A : Type} {R : CRing A}.
  Add Ring AringE : (@Rth A R) (setoid (@Rsth A R) (@Reqe A R)).

  (* ---- canonical form of the dense model: sums over all element pairs / all singular pairs ------------------- *)
  Definition regular_form (ident : bool) (G : gridtopo) Lreg (St Sr : space A) (r c : nat) : A :=
    sumf (fun te => sumf (fun tr =>
      indic (sp_support St te) (indic (sp_support Sr tr)
        (pair_sum (fun x => entry (glob_regular St Sr x) r c) (sp_ns St) (sp_ns Sr)
                  (reg_val ident (g_els G) Lreg te tr) te tr))) (seq 0 (g_nel G))) (seq 0 (g_nel G)).

  Definition singular_form (G : gridtopo) Lsing (St Sr : space A) (r c : nat) : A :=
    sumf (fun p => pair_sum (fun x => entry (glob_singular St Sr x) r c) (sp_ns St) (sp_ns Sr) (Lsing p) (s_te p) (s_tr p))
         (singular_pairs (g_nel G) St Sr (g_edge_adj G) (g_vertex_adj G)).

  Lemma dense_canonical ident (G : gridtopo) Lreg Lsing (St Sr : space A) r c :
    wf_colors (g_nel G) St -> wf_colors (g_nel G) Sr ->
    dense ident G Lreg Lsing St Sr r c ==
    regular_form ident G Lreg St Sr r c + (if ident then singular_form G Lsing St Sr r c else 0).
  Proof.
    intros Wt Wr. unfold dense.
    change (scatter ?L r c) with (sumf (fun t => entry t r c) L).
    unfold dense_triplets. rewrite sumf_app, sumf_map. apply radd_proper.
    - rewrite sum_regular_local. rewrite (sum_over_support (g_nel G) St _ Wt). unfold regular_form.
      apply sumf_ext_all; intros te. rewrite <- sumf_indic. apply indic_ext.
      apply (sum_over_support (g_nel G) Sr _ Wr).
    - destruct ident; [|reflexivity]. rewrite sumf_map, sum_singular_local. reflexivity.
  Qed.

  (* ---- relabelling ------------------------------------------------------------------------------------------- *)
  (* pi renumbers elements, loc e renumbers the local indices of element e (cyclic rotation of the local vertex order,
     or the swap 1<->2 of an orientation flip), rho renumbers the global DOFs, sgn r in {1,-1} is the sign change of
     global function r (edge functions whose orientation convention depends on the element numbering) *)
  Record relabelled (nel : nat) (pi : nat -> nat) (loc : nat -> nat -> nat) (rho : nat -> nat) (sgn : nat -> A)
         (act : nat -> nat -> bool) (S0 S1 : space A) : Prop := {
    rl_ns : sp_ns S1 = sp_ns S0;
    rl_support : forall e, (e < nel)%nat -> sp_support S1 (pi e) = sp_support S0 e;
    rl_loc : forall e, (e < nel)%nat -> Permutation (map (loc e) (seq 0 (sp_ns S0))) (seq 0 (sp_ns S0));
    (* act e i = false marks local functions that carry no DOF (multiplier 0, local2global aliased to 0) *)
    rl_l2g : forall e i, (e < nel)%nat -> (i < sp_ns S0)%nat -> act e i = true ->
                         sp_l2g S1 (pi e) (loc e i) = rho (sp_l2g S0 e i);
    rl_mult : forall e i, (e < nel)%nat -> (i < sp_ns S0)%nat -> act e i = true ->
                          sp_mult S1 (pi e) (loc e i) == sgn (sp_l2g S0 e i) * sp_mult S0 e i;
    rl_zero : forall e i, (e < nel)%nat -> (i < sp_ns S0)%nat -> act e i = false ->
                          sp_mult S0 e i == 0 /\ sp_mult S1 (pi e) (loc e i) == 0 }.

  Definition injective (f : nat -> nat) : Prop := forall a b, f a = f b -> a = b.

  Lemma eqb_inj f a b : injective f -> Nat.eqb (f a) (f b) = Nat.eqb a b.
  Proof.
    intros H. destruct (Nat.eqb_spec a b) as [->|Hn]; [apply Nat.eqb_refl|].
    apply Nat.eqb_neq. intros E; apply Hn, H, E.
  Qed.

  Lemma entry_ext (t t' : trip) r c :
    t_row t = t_row t' -> t_col t = t_col t' -> t_val t == t_val t' -> entry t r c == entry t' r c.
  Proof. intros H1 H2 H3. unfold entry. rewrite H1, H2. destruct (_ && _); [assumption|reflexivity]. Qed.

  Lemma entry_zero (t : trip) r c : t_val t == 0 -> entry t r c == 0.
  Proof. intros H. unfold entry. destruct (_ && _); [assumption|reflexivity]. Qed.

  Lemma sumf_scaled {B} (k : A) (f g : B -> A) l : (forall x, In x l -> f x == k * g x) -> sumf f l == k * sumf g l.
  Proof. intros H. rewrite <- sumf_scal_l. apply sumf_ext; auto. Qed.

  Lemma indic_scaled b (k x y : A) : x == k * y -> indic b x == k * indic b y.
  Proof. intros H. destruct b; simpl; [assumption|ring]. Qed.

  (* one pair of elements: the local sums agree after renumbering local indices *)
  Lemma pair_sum_relabel (nel : nat) pi loc_t loc_r rho_t rho_r sgn_t sgn_r act_t act_r (St0 Sr0 St1 Sr1 : space A)
        (glob0 glob1 : lent A -> trip) (val0 val1 : nat -> nat -> A) te tr r c :
    injective rho_t -> injective rho_r ->
    relabelled nel pi loc_t rho_t sgn_t act_t St0 St1 -> relabelled nel pi loc_r rho_r sgn_r act_r Sr0 Sr1 ->
    (te < nel)%nat -> (tr < nel)%nat ->
    (forall i j, (i < sp_ns St0)%nat -> (j < sp_ns Sr0)%nat -> val1 (loc_t te i) (loc_r tr j) == val0 i j) ->
    (forall a i b j (v : A), t_row (glob0 (a, i, b, j, v)) = sp_l2g St0 a i /\ t_col (glob0 (a, i, b, j, v)) = sp_l2g Sr0 b j /\ t_val (glob0 (a, i, b, j, v)) == v * sp_mult St0 a i * sp_mult Sr0 b j) ->
    (forall a i b j (v : A), t_row (glob1 (a, i, b, j, v)) = sp_l2g St1 a i /\ t_col (glob1 (a, i, b, j, v)) = sp_l2g Sr1 b j /\ t_val (glob1 (a, i, b, j, v)) == v * sp_mult St1 a i * sp_mult Sr1 b j) ->
    pair_sum (fun x => entry (glob1 x) (rho_t r) (rho_r c)) (sp_ns St1) (sp_ns Sr1) val1 (pi te) (pi tr) ==
    sgn_t r * sgn_r c * pair_sum (fun x => entry (glob0 x) r c) (sp_ns St0) (sp_ns Sr0) val0 te tr.
  Proof.
    intros It Ir Rt Rr Hte Htr Hval H0 H1. unfold pair_sum.
    rewrite (rl_ns _ _ _ _ _ _ _ _ Rt), (rl_ns _ _ _ _ _ _ _ _ Rr).
    rewrite <- (sumf_perm _ _ _ (rl_loc _ _ _ _ _ _ _ _ Rt te Hte)), sumf_map.
    apply sumf_scaled; intros i Hi. apply in_seq in Hi.
    rewrite <- (sumf_perm _ _ _ (rl_loc _ _ _ _ _ _ _ _ Rr tr Htr)), sumf_map.
    apply sumf_scaled; intros j Hj. apply in_seq in Hj.
    destruct (H0 te i tr j (val0 i j)) as (A0 & B0 & C0).
    destruct (H1 (pi te) (loc_t te i) (pi tr) (loc_r tr j) (val1 (loc_t te i) (loc_r tr j))) as (A1 & B1 & C1).
    assert (Hi' : (i < sp_ns St0)%nat) by lia. assert (Hj' : (j < sp_ns Sr0)%nat) by lia.
    destruct (act_t te i) eqn:At.
    2:{ destruct (rl_zero _ _ _ _ _ _ _ _ Rt te i Hte Hi' At) as [Z0 Z1].
        rewrite (entry_zero _ r c), (entry_zero _ (rho_t r) (rho_r c)); [ring | rewrite C1, Z1; ring | rewrite C0, Z0; ring]. }
    destruct (act_r tr j) eqn:Ar.
    2:{ destruct (rl_zero _ _ _ _ _ _ _ _ Rr tr j Htr Hj' Ar) as [Z0 Z1].
        rewrite (entry_zero _ r c), (entry_zero _ (rho_t r) (rho_r c)); [ring | rewrite C1, Z1; ring | rewrite C0, Z0; ring]. }
    unfold entry. rewrite A0, B0, A1, B1.
    rewrite (rl_l2g _ _ _ _ _ _ _ _ Rt), (rl_l2g _ _ _ _ _ _ _ _ Rr) by (auto; lia).
    rewrite (eqb_inj rho_t _ _ It), (eqb_inj rho_r _ _ Ir).
    destruct (Nat.eqb_spec r (sp_l2g St0 te i)) as [Er|]; simpl; [|ring].
    destruct (Nat.eqb_spec c (sp_l2g Sr0 tr j)) as [Ec|]; simpl; [|ring].
    rewrite C0, C1. rewrite (rl_mult _ _ _ _ _ _ _ _ Rt), (rl_mult _ _ _ _ _ _ _ _ Rr), Hval by (auto; lia).
    rewrite <- Er, <- Ec. ring.
  Qed.

  Lemma glob_regular_spec (St Sr : space A) a i b j (v : A) :
    t_row (glob_regular St Sr (a, i, b, j, v)) = sp_l2g St a i /\ t_col (glob_regular St Sr (a, i, b, j, v)) = sp_l2g Sr b j /\ t_val (glob_regular St Sr (a, i, b, j, v)) == v * sp_mult St a i * sp_mult Sr b j.
  Proof. unfold glob_regular, t_row, t_col, t_val; simpl. repeat split; reflexivity. Qed.

  Lemma glob_singular_spec (St Sr : space A) a i b j (v : A) :
    t_row (glob_singular St Sr (a, i, b, j, v)) = sp_l2g St a i /\ t_col (glob_singular St Sr (a, i, b, j, v)) = sp_l2g Sr b j /\ t_val (glob_singular St Sr (a, i, b, j, v)) == v * sp_mult St a i * sp_mult Sr b j.
  Proof. unfold glob_singular, t_row, t_col, t_val; simpl. repeat split; try reflexivity. ring. Qed.

  Theorem relabel_regular ident (G0 G1 : gridtopo) Lreg0 Lreg1 (St0 Sr0 St1 Sr1 : space A)
          pi loc_t loc_r rho_t rho_r sgn_t sgn_r act_t act_r r c :
    g_nel G1 = g_nel G0 ->
    Permutation (map pi (seq 0 (g_nel G0))) (seq 0 (g_nel G0)) ->
    injective rho_t -> injective rho_r ->
    relabelled (g_nel G0) pi loc_t rho_t sgn_t act_t St0 St1 -> relabelled (g_nel G0) pi loc_r rho_r sgn_r act_r Sr0 Sr1 ->
    (forall a b, (a < g_nel G0)%nat -> (b < g_nel G0)%nat ->
                 elements_adjacent (g_els G1) (pi a) (pi b) = elements_adjacent (g_els G0) a b) ->
    (forall a b i j, (a < g_nel G0)%nat -> (b < g_nel G0)%nat -> (i < sp_ns St0)%nat -> (j < sp_ns Sr0)%nat ->
                     Lreg1 (pi a) (pi b) (loc_t a i) (loc_r b j) == Lreg0 a b i j) ->
    regular_form ident G1 Lreg1 St1 Sr1 (rho_t r) (rho_r c) == sgn_t r * sgn_r c * regular_form ident G0 Lreg0 St0 Sr0 r c.
  Proof.
    intros Hn P It Ir Rt Rr Hadj HL. unfold regular_form. rewrite Hn.
    rewrite <- (sumf_perm _ _ _ P), sumf_map. apply sumf_scaled; intros te Hte. apply in_seq in Hte.
    rewrite <- (sumf_perm _ _ _ P), sumf_map. apply sumf_scaled; intros tr Htr. apply in_seq in Htr.
    rewrite (rl_support _ _ _ _ _ _ _ _ Rt), (rl_support _ _ _ _ _ _ _ _ Rr) by lia.
    apply indic_scaled, indic_scaled.
    apply (pair_sum_relabel (g_nel G0) pi loc_t loc_r rho_t rho_r sgn_t sgn_r act_t act_r St0 Sr0 St1 Sr1); auto; try lia.
    - intros i j Hi Hj. unfold reg_val. rewrite Hadj by lia. destruct (ident && _); [reflexivity|]. apply HL; lia.
    - apply glob_regular_spec.
    - apply glob_regular_spec.
  Qed.

  (* the singular pairs of the relabelled grid are the images of the original ones (in any order), with the same
     local values up to the local renumbering: exact when the local vertex correspondences are carried along *)
  Theorem relabel_singular (G0 G1 : gridtopo) Lsing0 Lsing1 (St0 Sr0 St1 Sr1 : space A)
          pi loc_t loc_r rho_t rho_r sgn_t sgn_r act_t act_r (img : spair -> spair) r c :
    injective rho_t -> injective rho_r ->
    relabelled (g_nel G0) pi loc_t rho_t sgn_t act_t St0 St1 -> relabelled (g_nel G0) pi loc_r rho_r sgn_r act_r Sr0 Sr1 ->
    wf_adj (g_nel G0) (g_edge_adj G0) -> wf_adj (g_nel G0) (g_vertex_adj G0) ->
    Permutation (map img (singular_pairs (g_nel G0) St0 Sr0 (g_edge_adj G0) (g_vertex_adj G0)))
                (singular_pairs (g_nel G1) St1 Sr1 (g_edge_adj G1) (g_vertex_adj G1)) ->
    (forall p, In p (singular_pairs (g_nel G0) St0 Sr0 (g_edge_adj G0) (g_vertex_adj G0)) ->
               s_te (img p) = pi (s_te p) /\ s_tr (img p) = pi (s_tr p) /\ forall i j, (i < sp_ns St0)%nat -> (j < sp_ns Sr0)%nat ->
                           Lsing1 (img p) (loc_t (s_te p) i) (loc_r (s_tr p) j) == Lsing0 p i j) ->
    singular_form G1 Lsing1 St1 Sr1 (rho_t r) (rho_r c) == sgn_t r * sgn_r c * singular_form G0 Lsing0 St0 Sr0 r c.
  Proof.
    intros It Ir Rt Rr We Wv P Himg. unfold singular_form.
    rewrite <- (sumf_perm _ _ _ P), sumf_map. apply sumf_scaled; intros p Hp.
    destruct (Himg p Hp) as (E1 & E2 & HL). rewrite E1, E2.
    destruct (in_singular_pairs _ _ _ _ _ _ We Wv Hp) as [Ht Hr].
    apply (pair_sum_relabel (g_nel G0) pi loc_t loc_r rho_t rho_r sgn_t sgn_r act_t act_r St0 Sr0 St1 Sr1); auto.
    - apply glob_singular_spec.
    - apply glob_singular_spec.
  Qed.

  Theorem relabel_dense ident (G0 G1 : gridtopo) Lreg0 Lreg1 Lsing0 Lsing1 (St0 Sr0 St1 Sr1 : space A)
          pi loc_t loc_r rho_t rho_r sgn_t sgn_r act_t act_r (img : spair -> spair) r c :
    g_nel G1 = g_nel G0 ->
    Permutation (map pi (seq 0 (g_nel G0))) (seq 0 (g_nel G0)) ->
    injective rho_t -> injective rho_r ->
    relabelled (g_nel G0) pi loc_t rho_t sgn_t act_t St0 St1 -> relabelled (g_nel G0) pi loc_r rho_r sgn_r act_r Sr0 Sr1 ->
    wf_colors (g_nel G0) St0 -> wf_colors (g_nel G0) Sr0 -> wf_colors (g_nel G1) St1 -> wf_colors (g_nel G1) Sr1 ->
    (forall a b, (a < g_nel G0)%nat -> (b < g_nel G0)%nat ->
                 elements_adjacent (g_els G1) (pi a) (pi b) = elements_adjacent (g_els G0) a b) ->
    (forall a b i j, (a < g_nel G0)%nat -> (b < g_nel G0)%nat -> (i < sp_ns St0)%nat -> (j < sp_ns Sr0)%nat ->
                     Lreg1 (pi a) (pi b) (loc_t a i) (loc_r b j) == Lreg0 a b i j) ->
    wf_adj (g_nel G0) (g_edge_adj G0) -> wf_adj (g_nel G0) (g_vertex_adj G0) ->
    Permutation (map img (singular_pairs (g_nel G0) St0 Sr0 (g_edge_adj G0) (g_vertex_adj G0)))
                (singular_pairs (g_nel G1) St1 Sr1 (g_edge_adj G1) (g_vertex_adj G1)) ->
    (forall p, In p (singular_pairs (g_nel G0) St0 Sr0 (g_edge_adj G0) (g_vertex_adj G0)) ->
               s_te (img p) = pi (s_te p) /\ s_tr (img p) = pi (s_tr p) /\ forall i j, (i < sp_ns St0)%nat -> (j < sp_ns Sr0)%nat ->
                           Lsing1 (img p) (loc_t (s_te p) i) (loc_r (s_tr p) j) == Lsing0 p i j) ->
    dense ident G1 Lreg1 Lsing1 St1 Sr1 (rho_t r) (rho_r c) ==
    sgn_t r * sgn_r c * dense ident G0 Lreg0 Lsing0 St0 Sr0 r c.
  Proof.
    intros Hn P It Ir Rt Rr W0t W0r W1t W1r Hadj HL We Wv PP Himg.
    rewrite !dense_canonical by assumption.
    rewrite (relabel_regular ident G0 G1 Lreg0 Lreg1 St0 Sr0 St1 Sr1 pi loc_t loc_r rho_t rho_r sgn_t sgn_r act_t act_r r c) by assumption.
    destruct ident.
    - rewrite (relabel_singular G0 G1 Lsing0 Lsing1 St0 Sr0 St1 Sr1 pi loc_t loc_r rho_t rho_r sgn_t sgn_r act_t act_r img r c)
        by assumption. ring.
    - ring.
  Qed.

  (* ---- the model depends on the local values only: pointwise equal local values give equal matrices -------- *)
  Lemma dense_ext ident (G : gridtopo) Lreg Lreg' Lsing Lsing' (St Sr : space A) :
    wf_colors (g_nel G) St -> wf_colors (g_nel G) Sr ->
    (forall a b i j, Lreg a b i j == Lreg' a b i j) -> (forall p i j, Lsing p i j == Lsing' p i j) ->
    meq (dense ident G Lreg Lsing St Sr) (dense ident G Lreg' Lsing' St Sr).
  Proof.
    intros Wt Wr HR HS r c. rewrite !dense_canonical by assumption. apply radd_proper.
    - unfold regular_form. apply sumf_ext_all; intros te. apply sumf_ext_all; intros tr.
      apply indic_ext, indic_ext. unfold pair_sum. apply sumf_ext_all; intros i. apply sumf_ext_all; intros j.
      apply entry_ext; try reflexivity. unfold glob_regular, t_val; simpl. unfold reg_val.
      destruct (ident && _); [reflexivity|]. rewrite HR. reflexivity.
    - destruct ident; [|reflexivity]. unfold singular_form. apply sumf_ext_all; intros p.
      unfold pair_sum. apply sumf_ext_all; intros i. apply sumf_ext_all; intros j.
      apply entry_ext; try reflexivity. unfold glob_singular, t_val; simpl. rewrite HS. reflexivity.
  Qed.

  (* ---- translation --------------------------------------------------------------------------------------------- *)
  Definition add3 (p t : pt3 A) : pt3 A :=
    let '(p0, p1, p2) := p in let '(t0, t1, t2) := t in (p0 + t0, p1 + t1, p2 + t2).
  Definition eq3 (p q : pt3 A) : Prop :=
    let '(p0, p1, p2) := p in let '(q0, q1, q2) := q in p0 == q0 /\ p1 == q1 /\ p2 == q2.
  Definition translate (t : pt3 A) (G : geom A) : geom A :=
    mkGeom (fun e => add3 (ge_v0 G e) t) (ge_jac G) (ge_normal G) (ge_intel G).

  (* quadrature points move with the grid *)
  Lemma l2gpoint_translate t (G : geom A) e p : eq3 (l2gpoint (translate t G) e p) (add3 (l2gpoint G e p) t).
  Proof.
    unfold l2gpoint, translate, add3; simpl. destruct (ge_v0 G e) as [[v0 v1] v2], t as [[t0 t1] t2].
    destruct (ge_jac G e) as [[[a0 a1] a2] [[b0 b1] b2]]. simpl. repeat split; ring.
  Qed.

  (* a kernel that respects componentwise equality and is translation invariant *)
  Definition kernel_respects (K : pt3 A -> pt3 A -> pt3 A -> pt3 A -> A) : Prop :=
    forall x x' y y' nx ny, eq3 x x' -> eq3 y y' -> K x y nx ny == K x' y' nx ny.
  Definition translation_invariant (K : pt3 A -> pt3 A -> pt3 A -> pt3 A -> A) (t : pt3 A) : Prop :=
    forall x y nx ny, K (add3 x t) (add3 y t) nx ny == K x y nx ny.

  Lemma kernel_translate K t (G : geom A) a b p q nx ny :
    kernel_respects K -> translation_invariant K t ->
    K (l2gpoint (translate t G) a p) (l2gpoint (translate t G) b q) nx ny == K (l2gpoint G a p) (l2gpoint G b q) nx ny.
  Proof.
    intros HK HT. rewrite (HK _ _ _ _ nx ny (l2gpoint_translate t G a p) (l2gpoint_translate t G b q)). apply HT.
  Qed.

  Theorem Lreg_translate K rule t (G : geom A) nm_t nm_r sh_t sh_r a b i j :
    kernel_respects K -> translation_invariant K t ->
    Lreg_quad K rule (translate t G) (translate t G) nm_t nm_r sh_t sh_r a b i j ==
    Lreg_quad K rule G G nm_t nm_r sh_t sh_r a b i j.
  Proof.
    intros HK HT. unfold Lreg_quad. apply sumf_ext_all; intros tq. apply sumf_ext_all; intros rq.
    simpl ge_normal. simpl ge_intel. rewrite kernel_translate by assumption. reflexivity.
  Qed.

  Theorem Lsing_translate K srule t (G : geom A) nm_t nm_r sh_t sh_r p i j :
    kernel_respects K -> translation_invariant K t ->
    Lsing_quad K srule (translate t G) nm_t nm_r sh_t sh_r p i j == Lsing_quad K srule G nm_t nm_r sh_t sh_r p i j.
  Proof.
    intros HK HT. unfold Lsing_quad. apply rmul_proper; [|reflexivity].
    apply sumf_ext_all; intros [[tp rp] w]. simpl ge_normal. rewrite kernel_translate by assumption. reflexivity.
  Qed.

  Theorem dense_translation_invariant ident (T : gridtopo) K rule srule t (G : geom A) nm_t nm_r sh_t sh_r (St Sr : space A) :
    wf_colors (g_nel T) St -> wf_colors (g_nel T) Sr -> kernel_respects K -> translation_invariant K t ->
    meq (dense ident T (Lreg_quad K rule (translate t G) (translate t G) nm_t nm_r sh_t sh_r)
               (Lsing_quad K srule (translate t G) nm_t nm_r sh_t sh_r) St Sr)
        (dense ident T (Lreg_quad K rule G G nm_t nm_r sh_t sh_r) (Lsing_quad K srule G nm_t nm_r sh_t sh_r) St Sr).
  Proof.
    intros Wt Wr HK HT. apply dense_ext; auto; intros.
    - apply Lreg_translate; auto.
    - apply Lsing_translate; auto.
  Qed.

  (* ---- geometry from differences (sqrt-free part of Grid._compute_geometric_quantities) ----------------------- *)
  Definition sub3 (p q : pt3 A) : pt3 A :=
    let '(p0, p1, p2) := p in let '(q0, q1, q2) := q in (p0 - q0, p1 - q1, p2 - q2).
  Definition dot3 (p q : pt3 A) : A :=
    let '(p0, p1, p2) := p in let '(q0, q1, q2) := q in p0 * q0 + p1 * q1 + p2 * q2.
  Definition cross (a b : pt3 A) : pt3 A :=
    let '(a0, a1, a2) := a in let '(b0, b1, b2) := b in (a1 * b2 - a2 * b1, a2 * b0 - a0 * b2, a0 * b1 - a1 * b0).
  (* jacobian columns, normal direction, det(J'J) = integration_element^2 *)
  Definition jac_of (v0 v1 v2 : pt3 A) : pt3 A * pt3 A := (sub3 v1 v0, sub3 v2 v0).
  Definition normal_dir (v0 v1 v2 : pt3 A) : pt3 A := cross (sub3 v1 v0) (sub3 v2 v0).
  Definition gram_det (a b : pt3 A) : A := dot3 a a * dot3 b b - dot3 a b * dot3 a b.

  Lemma sub3_translate p q t : eq3 (sub3 (add3 p t) (add3 q t)) (sub3 p q).
  Proof. destruct p as [[p0 p1] p2], q as [[q0 q1] q2], t as [[t0 t1] t2]; simpl. repeat split; ring. Qed.

  Theorem geometry_from_differences v0 v1 v2 t :
    eq3 (fst (jac_of (add3 v0 t) (add3 v1 t) (add3 v2 t))) (fst (jac_of v0 v1 v2)) /\
    eq3 (snd (jac_of (add3 v0 t) (add3 v1 t) (add3 v2 t))) (snd (jac_of v0 v1 v2)) /\
    eq3 (normal_dir (add3 v0 t) (add3 v1 t) (add3 v2 t)) (normal_dir v0 v1 v2) /\
    gram_det (sub3 (add3 v1 t) (add3 v0 t)) (sub3 (add3 v2 t) (add3 v0 t)) == gram_det (sub3 v1 v0) (sub3 v2 v0).
  Proof.
    destruct v0 as [[a0 a1] a2], v1 as [[b0 b1] b2], v2 as [[c0 c1] c2], t as [[t0 t1] t2].
    unfold jac_of, normal_dir, gram_det, cross, dot3, sub3, add3, eq3; simpl. repeat split; ring.
  Qed.

  (* |n|^2 = det(J'J) (Lagrange identity): the two ways the code computes area agree *)
  Theorem cross_norm_is_gram_det a b : dot3 (cross a b) (cross a b) == gram_det a b.
  Proof. destruct a as [[a0 a1] a2], b as [[b0 b1] b2]. unfold gram_det, cross, dot3. ring. Qed.

  (* orthogonal maps: dot products, hence gram_det, are invariant *)
  Definition mat3 := (pt3 A * pt3 A * pt3 A)%type.   (* rows *)
  Definition mv (Q : mat3) (x : pt3 A) : pt3 A := let '(r0, r1, r2) := Q in (dot3 r0 x, dot3 r1 x, dot3 r2 x).
  Definition orthogonal (Q : mat3) : Prop :=
    let '((q00, q01, q02), (q10, q11, q12), (q20, q21, q22)) := Q in
    q00 * q00 + q10 * q10 + q20 * q20 == 1 /\ q01 * q01 + q11 * q11 + q21 * q21 == 1 /\
    q02 * q02 + q12 * q12 + q22 * q22 == 1 /\ q00 * q01 + q10 * q11 + q20 * q21 == 0 /\
    q00 * q02 + q10 * q12 + q20 * q22 == 0 /\ q01 * q02 + q11 * q12 + q21 * q22 == 0.

  Theorem dot_orthogonal Q a b : orthogonal Q -> dot3 (mv Q a) (mv Q b) == dot3 a b.
  Proof.
    destruct Q as [[[[q00 q01] q02] [[q10 q11] q12]] [[q20 q21] q22]], a as [[a0 a1] a2], b as [[b0 b1] b2].
    unfold orthogonal, mv, dot3. intros (H1 & H2 & H3 & H4 & H5 & H6).
    transitivity ((q00 * q00 + q10 * q10 + q20 * q20) * (a0 * b0) + (q01 * q01 + q11 * q11 + q21 * q21) * (a1 * b1)
                  + (q02 * q02 + q12 * q12 + q22 * q22) * (a2 * b2)
                  + (q00 * q01 + q10 * q11 + q20 * q21) * (a0 * b1 + a1 * b0)
                  + (q00 * q02 + q10 * q12 + q20 * q22) * (a0 * b2 + a2 * b0)
                  + (q01 * q02 + q11 * q12 + q21 * q22) * (a1 * b2 + a2 * b1)); [ring|].
    rewrite H1, H2, H3, H4, H5, H6. ring.
  Qed.

  Theorem gram_det_orthogonal Q a b : orthogonal Q -> gram_det (mv Q a) (mv Q b) == gram_det a b.
  Proof. intros H. unfold gram_det. rewrite !(dot_orthogonal Q) by assumption. reflexivity. Qed.

  (* scaling by s: jacobian columns scale by s, det(J'J) by s^4 (integration element by s^2) *)
  Theorem gram_det_scaling s a b : gram_det (scale3 s a) (scale3 s b) == (s * s) * (s * s) * gram_det a b.
  Proof. destruct a as [[a0 a1] a2], b as [[b0 b1] b2]. unfold gram_det, scale3, dot3. ring. Qed.
End Equivariance.
