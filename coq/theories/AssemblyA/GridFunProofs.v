(* C13: theorems about the grid-function routine models of AssemblyA/Sparse.v. *)
From Coq Require Import List Arith Bool Lia Permutation Setoid Morphisms Ring Ring_theory QArith.
From BV Require Import AssemblyA.Sums AssemblyA.Mat AssemblyA.Dense AssemblyA.Sparse AssemblyA.Congruence
     AssemblyA.L2Proofs.
Import ListNotations.
Local Open Scope cr_scope.

Section GridFun.
  Context {A : Type} {R : CRing A}.
  Add Ring AringG : (@Rth A R) (setoid (@Rsth A R) (@Reqe A R)).

  (* ---- projection of a function that lies in the trial space ------------------------------------------------ *)
  Theorem projection_is_mass_times_coefficients dim rule intel (bt br evt : basisfn) nel (St Sr : space A)
          (J : list nat) (coef : nat -> A) (f : nat -> pt2 A -> nat -> A) r :
    NoDup J -> dofs_in J Sr (sparse_elements nel St Sr) ->
    (forall e i p d, evt e i p d == sp_mult St e i * bt e i p d) ->
    (forall e q d, In e (support_elements nel St) -> In q rule -> (d < dim)%nat ->
                   f e (fst q) d == indic (sp_support Sr e) (uval coef Sr br e (fst q) d)) ->
    project nel dim rule intel St evt f r ==
    mvec J (sparse_core nel (Lsp_identity dim rule intel bt br) St Sr) coef r.
  Proof.
    intros NJ HJ Hev Hf. symmetry.
    rewrite (mvec_ext J _ _ _ r (sparse_core_ext nel _ _ St Sr (Lsp_identity_gram dim rule intel bt br))).
    unfold sparse_core. rewrite mvec_scatter; auto.
    2:{ intros t Ht. apply in_map_iff in Ht. destruct Ht as ([[[[te i] tr] j] v] & <- & Hx).
        apply in_sparse_local in Hx. destruct Hx as (He & -> & Hi & Hj).
        unfold glob_singular, t_col; simpl. apply HJ; auto. }
    rewrite (gram_algebra (qidx dim rule) (qweight intel) (at_q bt) (at_q br) St Sr (delta r) coef).
    unfold project, sparse_elements, support_elements. rewrite !sumf_filter.
    apply sumf_ext; intros e He.
    destruct (sp_support St e) eqn:Hst; [|rewrite andb_false_r; reflexivity].
    rewrite andb_true_r.
    assert (Hin : In e (support_elements nel St)) by (apply support_elements_spec; apply in_seq in He; split; [lia|auto]).
    destruct (sp_support Sr e) eqn:Hsr; cbv iota.
    - (* e in both supports *)
      unfold qidx. rewrite sumf_list_prod.
      transitivity (sumf (fun i => sumf (fun d => sumf (fun q =>
           (delta r (sp_l2g St e i) * sp_mult St e i * bt e i (fst q) d) * uval coef Sr br e (fst q) d
           * (snd q * intel e)) rule) (seq 0 dim)) (seq 0 (sp_ns St))).
      + symmetry. rewrite sumf_exchange. apply sumf_ext_all; intros d.
        rewrite sumf_exchange. apply sumf_ext_all; intros q.
        rewrite sumf_scal_r, sumf_scal_r. unfold fval, uval, at_q, qweight; simpl. reflexivity.
      + apply sumf_ext_all; intros i. unfold delta. rewrite (Nat.eqb_sym (sp_l2g St e i) r).
        destruct (Nat.eqb r (sp_l2g St e i)).
        * rewrite <- sumf_scal_r. apply sumf_ext; intros d Hd. apply in_seq in Hd.
          rewrite <- sumf_scal_r. apply sumf_ext; intros q Hq.
          rewrite Hev, (Hf e q d Hin Hq) by lia. rewrite Hsr; simpl. ring.
        * apply sumf_zero; intros d _. apply sumf_zero; intros q _. ring.
    - (* outside the trial support the function vanishes *)
      symmetry. apply sumf_zero; intros i _. destruct (Nat.eqb r (sp_l2g St e i)); [|reflexivity].
      transitivity (0 * intel e); [|ring]. apply rmul_proper; [|reflexivity].
      apply sumf_zero; intros d Hd. apply in_seq in Hd. apply sumf_zero; intros q Hq.
      rewrite (Hf e q d Hin Hq) by lia. rewrite Hsr; simpl. ring.
  Qed.

  (* ---- _integrate ---------------------------------------------------------------------------------------------- *)
  (* correct where the multiplier applied a second time changes nothing (multipliers 0/1: DP0, DP1, P1) *)
  Theorem integrate_idempotent_multipliers nel rule intel (S : space A) (ev : basisfn) coef d :
    (forall e i q, In e (support_elements nel S) -> (i < sp_ns S)%nat -> In q rule ->
                   ev e i (fst q) d * sp_mult S e i == ev e i (fst q) d) ->
    integrate nel rule intel S ev coef d == integrate_direct nel rule intel S ev coef d.
  Proof.
    intros H. unfold integrate, integrate_direct. apply sumf_ext; intros e He.
    apply rmul_proper; [|reflexivity]. unfold gf_eval.
    rewrite sumf_exchange. apply sumf_ext; intros q Hq. rewrite <- sumf_scal_r.
    apply sumf_ext; intros i Hi. apply in_seq in Hi.
    transitivity (ev e i (fst q) d * sp_mult S e i * snd q * coef (sp_l2g S e i)); [ring|].
    rewrite H by (auto; lia). ring.
  Qed.

  (* what the code computes in general: the multipliers enter squared *)
  Theorem integrate_applies_multipliers_twice nel rule intel (S : space A) (sh : basisfn) coef d :
    integrate nel rule intel S (fun e i p d => sh e i p d * sp_mult S e i) coef d ==
    sumf (fun e => sumf (fun q => sumf (fun i =>
            sh e i (fst q) d * (sp_mult S e i * sp_mult S e i) * coef (sp_l2g S e i)) (seq 0 (sp_ns S)) * snd q) rule
            * intel e) (support_elements nel S).
  Proof.
    unfold integrate. apply sumf_ext_all; intros e. apply rmul_proper; [|reflexivity].
    rewrite sumf_exchange. apply sumf_ext_all; intros q. rewrite <- sumf_scal_r.
    apply sumf_ext_all; intros i. ring.
  Qed.

  (* ---- evaluate_on_element_centers / evaluate_on_vertices ------------------------------------------------------ *)
  Theorem eval_centers_value third (S : space A) ev coef e d :
    sp_support S e = true -> eval_centers third S ev coef e d = gf_eval S ev coef e (third, third) d.
  Proof. intros H; unfold eval_centers; rewrite H; reflexivity. Qed.

  Theorem eval_centers_outside third (S : space A) ev coef e d :
    sp_support S e = false -> eval_centers third S ev coef e d = 0.
  Proof. intros H; unfold eval_centers; rewrite H; reflexivity. Qed.

  (* where the represented function is single valued at a vertex (value c from every adjacent support element)
     the area-weighted average returns it: numerator = c * denominator *)
  Theorem vertex_average_of_continuous nel els vol (S : space A) ev coef v d (c : A) :
    (forall e k, In e (support_elements nel S) -> (k < 3)%nat -> elt_vertex els e k = v ->
                 gf_eval S ev coef e (ref_vertex_pt k) d == c) ->
    vertex_num nel els vol S ev coef v d == c * vertex_den nel els vol S v.
  Proof.
    intros H. unfold vertex_num, vertex_den. rewrite <- sumf_scal_l. apply sumf_ext; intros e He.
    rewrite <- sumf_scal_l. apply sumf_ext; intros k Hk. apply in_seq in Hk.
    destruct (Nat.eqb_spec (elt_vertex els e k) v) as [E|]; [|ring]. rewrite (H e k He) by (auto; lia). reflexivity.
  Qed.

  (* ---- MultiplicationOperator ------------------------------------------------------------------------------------ *)
  Lemma combine_seq_id n m : combine (seq n m) (seq n m) = map (fun e => (e, e)) (seq n m).
  Proof. revert n; induction m; intros n; simpl; [reflexivity|]. rewrite IHm. reflexivity. Qed.

  (* on whole-grid spaces position and element index coincide and the code assembles the intended operator *)
  Theorem mult_op_whole_grid nel dim rule intel (St Sr Sf : space A) evt evr evf gcoef :
    (forall e, (e < nel)%nat -> sp_support St e = true /\ sp_support Sr e = true /\ sp_support Sf e = true) ->
    mult_op_core nel dim rule intel St Sr Sf evt evr evf gcoef =
    mult_op_intended nel dim rule intel St Sr Sf evt evr evf gcoef.
  Proof.
    intros H. unfold mult_op_core, mult_op_intended, mult_op_triplets, enumerate, mult_elements.
    rewrite filter_all_true.
    2:{ intros e He. apply in_seq in He. destruct (H e) as (-> & -> & ->); [lia|reflexivity]. }
    rewrite seq_length, combine_seq_id. rewrite !flat_map_concat_map, !map_map. reflexivity.
  Qed.
End GridFun.

(* ---- refutations over Q (witnesses evaluated by vm_compute) ------------------------------------------------------ *)
Local Close Scope cr_scope.
Open Scope Q_scope.

(* one element, one basis function with multiplier -1 (an RWG/SNC function seen from its second triangle),
   coefficient 1, one quadrature point of weight 1/2: the code returns +1/2, the integral of the function is -1/2 *)
Definition refute_space : space Q := mkSpace 1 (fun _ => true) (fun _ _ => 0%nat) (fun _ _ => -1) [[0%nat]].
Definition refute_ev : @basisfn Q := fun e i p d => 1 * -1.
Definition refute_rule : list (pt2 Q * Q) := [((0, 0), 1 # 2)].

Theorem integrate_refuted :
  exists (nel : nat) (rule : list (pt2 Q * Q)) (intel : nat -> Q) (S : space Q) (sh : @basisfn Q) (coef : nat -> Q) (d : nat),
    let ev := fun e i p d => (sh e i p d * sp_mult S e i)%Q in
    ~ (integrate nel rule intel S ev coef d == integrate_direct nel rule intel S ev coef d).
Proof.
  exists 1%nat, refute_rule, (fun _ => 1), refute_space, (fun _ _ _ _ => 1), (fun _ => 1), 0%nat.
  vm_compute. discriminate.
Qed.

(* two elements with integration elements 1 and 3, all three spaces supported on element 1 only: the code reads
   integration_elements[0] *)
Definition seg_space : space Q := mkSpace 1 (fun e => Nat.eqb e 1) (fun _ _ => 0%nat) (fun _ _ => 1) [[1%nat]].
Theorem mult_op_refuted_on_segments :
  exists (nel dim : nat) (rule : list (pt2 Q * Q)) (intel : nat -> Q) (S : space Q) (ev : @basisfn Q) (g : nat -> Q),
    ~ (scatter (mult_op_core nel dim rule intel S S S ev ev ev g) 0%nat 0%nat ==
       scatter (mult_op_intended nel dim rule intel S S S ev ev ev g) 0%nat 0%nat).
Proof.
  exists 2%nat, 1%nat, refute_rule, (fun e => if Nat.eqb e 0 then 1 else 3), seg_space, (fun _ _ _ _ => 1), (fun _ => 1).
  vm_compute. discriminate.
Qed.
