(* C13: theorems about the grid-function routine models of AssemblyA/Sparse.v. *)
From Coq Require Import List Arith Bool Lia Permutation Setoid Morphisms Ring Ring_theory QArith.
From BV Require Import AssemblyA.Sums AssemblyA.Mat AssemblyA.Dense AssemblyA.Sparse AssemblyA.Congruence
     AssemblyA.L2Proofs.
Import ListNotations.
Local Open Scope cr_scope.

Section GridFun.
  Context {A : Type} {R : CRing A}.
  Add Ring AringG : (@Rth A R) (setoid (@Rsth A R) (@Reqe A R)).

  (* ---- projection of a function that lies in the trial space ------------------------------------------------ *)
  Theorem projection_is_mass_times_coefficients dim rule intel (bt br evt : basisfn) nel (St Sr : space A)
          (J : list nat) (coef : nat -> A) (f : nat -> pt2 A -> nat -> A) r :
    NoDup J -> dofs_in J Sr (sparse_elements nel St Sr) ->
    (forall e i p d, evt e i p d == sp_mult St e i * bt e i p d) ->
    (forall e q d, In e (support_elements nel St) -> In q rule -> (d < dim)%nat ->
                   f e (fst q) d == indic (sp_support Sr e) (uval coef Sr br e (fst q) d)) ->
    project nel dim rule intel St evt f r ==
    mvec J (sparse_core nel (Lsp_identity dim rule intel bt br) St Sr) coef r.
  Proof.
    intros NJ HJ Hev Hf. symmetry.
    rewrite (mvec_ext J _ _ _ r (sparse_core_ext nel _ _ St Sr (Lsp_identity_gram dim rule intel bt br))).
    unfold sparse_core. rewrite mvec_scatter; auto.
    2:{ intros t Ht. apply in_map_iff in Ht. destruct Ht as ([[[[te i] tr] j] v] & <- & Hx).
        apply in_sparse_local in Hx. destruct Hx as (He & -> & Hi & Hj).
        unfold glob_singular, t_col; simpl. apply HJ; auto. }
    rewrite (gram_algebra (qidx dim rule) (qweight intel) (at_q bt) (at_q br) St Sr (delta r) coef).
    unfold project, sparse_elements, support_elements. rewrite !sumf_filter.
    apply sumf_ext; intros e He.
    destruct (sp_support St e) eqn:Hst; [|rewrite andb_false_r; reflexivity].
    rewrite andb_true_r.
    assert (Hin : In e (support_elements nel St)) by (apply support_elements_spec; apply in_seq in He; split; [lia|auto]).
    destruct (sp_support Sr e) eqn:Hsr; cbv iota.
    - (* e in both supports *)
      unfold qidx. rewrite sumf_list_prod.
      transitivity (sumf (fun i => sumf (fun d => sumf (fun q =>
           (delta r (sp_l2g St e i) * sp_mult St e i * bt e i (fst q) d) * uval coef Sr br e (fst q) d
           * (snd q * intel e)) rule) (seq 0 dim)) (seq 0 (sp_ns St))).
      + symmetry. rewrite sumf_exchange. apply sumf_ext_all; intros d.
        rewrite sumf_exchange. apply sumf_ext_all; intros q.
        rewrite sumf_scal_r, sumf_scal_r. unfold fval, uval, at_q, qweight; simpl. reflexivity.
      + apply sumf_ext_all; intros i. unfold delta. rewrite (Nat.eqb_sym (sp_l2g St e i) r).
        destruct (Nat.eqb r (sp_l2g St e i)).
        * rewrite <- sumf_scal_r. apply sumf_ext; intros d Hd. apply in_seq in Hd.
          rewrite <- sumf_scal_r. apply sumf_ext; intros q Hq.
          rewrite Hev, (Hf e q d Hin Hq) by lia. rewrite Hsr; simpl. ring.
        * apply sumf_zero; intros d _. apply sumf_zero; intros q _. ring.
    - (* outside the trial support the function vanishes *)
      symmetry. apply sumf_zero; intros i _. destruct (Nat.eqb r (sp_l2g St e i)); [|reflexivity].
      transitivity (0 * intel e); [|ring]. apply rmul_proper; [|reflexivity].
      apply sumf_zero; intros d Hd. apply in_seq in Hd. apply sumf_zero; intros q Hq.
      rewrite (Hf e q d Hin Hq) by lia. rewrite Hsr; simpl. ring.
  Qed.

  (* ---- the vectorised projection path equals the scalar one --------------------------------------------------- *)
  Lemma sumf_combine_snd {B} (H : B -> A) (l : list B) n :
    sumf (fun pe : nat * B => H (snd pe)) (combine (seq n (length l)) l) == sumf H l.
  Proof. revert n; induction l as [|a l IH]; intros n; simpl; [reflexivity|]. rewrite IH. reflexivity. Qed.

  Lemma sumf_enumerate {B} (G : nat * B -> A) (H : B -> A) (l : list B) :
    (forall pe, In pe (enumerate l) -> G pe == H (snd pe)) -> sumf G (enumerate l) == sumf H l.
  Proof.
    intros E. rewrite (sumf_ext G (fun pe => H (snd pe)) _ E). apply sumf_combine_snd.
  Qed.

  (* if the table handed to _project_function_vectorized holds, at (position of e, number of q), the value of the
     callable at quadrature point q of element e (what get_function_quadrature_information + the callable produce), the
     vectorised projection equals the scalar projection -- for every support, prefix or not *)
  Theorem project_vectorized_is_project nel dim rule intel (S : space A) (ev : basisfn)
          (fdata : nat -> nat -> nat -> A) (f : nat -> pt2 A -> nat -> A) r :
    (forall pos e k q d, In (pos, e) (enumerate (support_elements nel S)) -> In (k, q) (enumerate rule) ->
                         fdata pos k d == f e (fst q) d) ->
    project_vectorized nel dim rule intel S ev fdata r == project nel dim rule intel S ev f r.
  Proof.
    intros Hf. unfold project_vectorized, project.
    apply sumf_enumerate. intros [pos e] Hpe. simpl snd.
    apply sumf_ext_all; intros i. destruct (Nat.eqb r (sp_l2g S e i)); [|reflexivity].
    apply rmul_proper; [|reflexivity]. apply sumf_ext_all; intros d.
    apply (sumf_enumerate (fun kq => let '(k, q) := kq in ev e i (fst q) d * fdata pos k d * snd q)
                          (fun q => ev e i (fst q) d * f e (fst q) d * snd q)).
    intros [k q] Hkq. simpl snd. rewrite (Hf pos e k q d Hpe Hkq). reflexivity.
  Qed.

  Corollary projection_vectorized_is_mass_times_coefficients dim rule intel (bt br evt : basisfn) nel (St Sr : space A)
          (J : list nat) (coef : nat -> A) (fdata : nat -> nat -> nat -> A) (f : nat -> pt2 A -> nat -> A) r :
    NoDup J -> dofs_in J Sr (sparse_elements nel St Sr) ->
    (forall e i p d, evt e i p d == sp_mult St e i * bt e i p d) ->
    (forall e q d, In e (support_elements nel St) -> In q rule -> (d < dim)%nat ->
                   f e (fst q) d == indic (sp_support Sr e) (uval coef Sr br e (fst q) d)) ->
    (forall pos e k q d, In (pos, e) (enumerate (support_elements nel St)) -> In (k, q) (enumerate rule) ->
                         fdata pos k d == f e (fst q) d) ->
    project_vectorized nel dim rule intel St evt fdata r ==
    mvec J (sparse_core nel (Lsp_identity dim rule intel bt br) St Sr) coef r.
  Proof.
    intros NJ HJ Hev Hf Hd. rewrite (project_vectorized_is_project nel dim rule intel St evt fdata f r Hd).
    apply projection_is_mass_times_coefficients; assumption.
  Qed.

  (* ---- _integrate ---------------------------------------------------------------------------------------------- *)
  (* integrate() is the quadrature of the represented function, for every space (signed multipliers included) *)
  Theorem integrate_is_direct_quadrature nel rule intel (S : space A) (ev : basisfn) coef d :
    integrate nel rule intel S ev coef d == integrate_direct nel rule intel S ev coef d.
  Proof.
    unfold integrate, integrate_direct. apply sumf_ext_all; intros e.
    apply rmul_proper; [|reflexivity]. unfold gf_eval.
    rewrite sumf_exchange. apply sumf_ext_all; intros q. rewrite <- sumf_scal_r.
    apply sumf_ext_all; intros i. ring.
  Qed.

  (* ---- evaluate_on_element_centers / evaluate_on_vertices ------------------------------------------------------ *)
  Theorem eval_centers_value third (S : space A) ev coef e d :
    sp_support S e = true -> eval_centers third S ev coef e d = gf_eval S ev coef e (third, third) d.
  Proof. intros H; unfold eval_centers; rewrite H; reflexivity. Qed.

  Theorem eval_centers_outside third (S : space A) ev coef e d :
    sp_support S e = false -> eval_centers third S ev coef e d = 0.
  Proof. intros H; unfold eval_centers; rewrite H; reflexivity. Qed.

  (* where the represented function is single valued at a vertex (value c from every adjacent support element)
     the area-weighted average returns it: numerator = c * denominator *)
  Theorem vertex_average_of_continuous nel els vol (S : space A) ev coef v d (c : A) :
    (forall e k, In e (support_elements nel S) -> (k < 3)%nat -> elt_vertex els e k = v ->
                 gf_eval S ev coef e (ref_vertex_pt k) d == c) ->
    vertex_num nel els vol S ev coef v d == c * vertex_den nel els vol S v.
  Proof.
    intros H. unfold vertex_num, vertex_den. rewrite <- sumf_scal_l. apply sumf_ext; intros e He.
    rewrite <- sumf_scal_l. apply sumf_ext; intros k Hk. apply in_seq in Hk.
    destruct (Nat.eqb_spec (elt_vertex els e k) v) as [E|]; [|ring]. rewrite (H e k He) by (auto; lia). reflexivity.
  Qed.

  (* ---- MultiplicationOperator ------------------------------------------------------------------------------------ *)
  (* global basis function r of a space restricted to element e (the evaluator contains the multipliers) *)
  Definition gfun (r : nat) (S : space A) (ev : basisfn) (e : nat) (p : pt2 A) (d : nat) : A :=
    sumf (fun i => delta r (sp_l2g S e i) * ev e i p d) (seq 0 (sp_ns S)).

  Lemma sumf_exchange4 {I J D Q} (f : I -> J -> D -> Q -> A) li lj ld lq :
    sumf (fun i => sumf (fun j => sumf (fun d => sumf (fun q => f i j d q) lq) ld) lj) li ==
    sumf (fun d => sumf (fun q => sumf (fun i => sumf (fun j => f i j d q) lj) li) lq) ld.
  Proof.
    transitivity (sumf (fun i => sumf (fun d => sumf (fun j => sumf (fun q => f i j d q) lq) lj) ld) li).
    { apply sumf_ext_all; intros i. apply (sumf_exchange (fun j d => sumf (fun q => f i j d q) lq)). }
    rewrite (sumf_exchange (fun i d => sumf (fun j => sumf (fun q => f i j d q) lq) lj)).
    apply sumf_ext_all; intros d.
    transitivity (sumf (fun i => sumf (fun q => sumf (fun j => f i j d q) lj) lq) li).
    { apply sumf_ext_all; intros i. apply (sumf_exchange (fun j q => f i j d q)). }
    apply (sumf_exchange (fun i q => sumf (fun j => f i j d q) lj)).
  Qed.

  Lemma mult_entry_sum (Lm : nat -> nat -> nat -> A) nel (St Sr Sf : space A) r c :
    scatter (mult_op_triplets Lm nel St Sr Sf) r c ==
    sumf (fun e => sumf (fun i => sumf (fun j => delta r (sp_l2g St e i) * Lm e i j * delta c (sp_l2g Sr e j))
                                       (seq 0 (sp_ns Sr))) (seq 0 (sp_ns St))) (mult_elements nel St Sr Sf).
  Proof.
    rewrite entry_scatter. unfold mult_op_triplets. rewrite sumf_flat_map. apply sumf_ext_all; intros e.
    rewrite sumf_flat_map. apply sumf_ext_all; intros i. rewrite sumf_map. reflexivity.
  Qed.

  (* mode 'component': entry (r, c) = sum_e J_e sum_q w_q sum_d Phi_r(e,q,d) * g(e,q,d) * Psi_c(e,q,d):
     the L2 product of test function r with g times trial function c, by quadrature, over the common support *)
  Theorem mult_op_entry nel dim rule intel (St Sr Sf : space A) evt evr evf gcoef r c :
    scatter (mult_op_core nel dim rule intel St Sr Sf evt evr evf gcoef) r c ==
    sumf (fun e => sumf (fun d => sumf (fun q =>
            gfun r St evt e (fst q) d * (gf_eval Sf evf gcoef e (fst q) d * gfun c Sr evr e (fst q) d)
            * (snd q * intel e)) rule) (seq 0 dim)) (mult_elements nel St Sr Sf).
  Proof.
    unfold mult_op_core. rewrite mult_entry_sum. apply sumf_ext_all; intros e.
    transitivity (sumf (fun d => sumf (fun q => sumf (fun i => sumf (fun j =>
        (delta r (sp_l2g St e i) * evt e i (fst q) d) * (delta c (sp_l2g Sr e j) * evr e j (fst q) d)
        * (gf_eval Sf evf gcoef e (fst q) d * (snd q * intel e))) (seq 0 (sp_ns Sr))) (seq 0 (sp_ns St))) rule) (seq 0 dim)).
    - rewrite <- sumf_exchange4. apply sumf_ext_all; intros i. apply sumf_ext_all; intros j.
      unfold mult_local, mult_scale.
      transitivity (sumf (fun d => sumf (fun q => (delta r (sp_l2g St e i) * delta c (sp_l2g Sr e j)) *
          (evt e i (fst q) d * (evr e j (fst q) d * (gf_eval Sf evf gcoef e (fst q) d * snd q * intel e)))) rule) (seq 0 dim)).
      + etransitivity; [|apply sumf_ext_all; intros d; symmetry; apply sumf_scal_l]. rewrite sumf_scal_l. ring.
      + apply sumf_ext_all; intros d. apply sumf_ext_all; intros q. ring.
    - apply sumf_ext_all; intros d. apply sumf_ext_all; intros q. unfold gfun.
      transitivity (sumf (fun i => delta r (sp_l2g St e i) * evt e i (fst q) d) (seq 0 (sp_ns St)) *
                    sumf (fun j => delta c (sp_l2g Sr e j) * evr e j (fst q) d) (seq 0 (sp_ns Sr)) *
                    (gf_eval Sf evf gcoef e (fst q) d * (snd q * intel e))); [|ring].
      rewrite sum_prod, <- sumf_scal_r. apply sumf_ext_all; intros i. rewrite <- sumf_scal_r. reflexivity.
  Qed.
End GridFun.

