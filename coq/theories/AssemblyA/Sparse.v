(* Hand model (tie H) of the sparse assembler and of the grid-function routines, no proofs in this file.
     core/sparse_assembler.py: SparseAssembler.assemble, assemble_sparse        -> [sparse_core], [sparse_op]
     core/numba_kernels.py: default_sparse_kernel, l2_identity_kernel, laplace_beltrami_kernel
                                                                                 -> [Lsp_identity], [Lsp_lb]
     api/space/space.py: _numba_evaluate; maxwell_spaces.py: _numba_rwg0_evaluate, _numba_snc0_evaluate;
     scalar_spaces.py: _numba_p1_surface_gradient; shapesets.py                  -> [ev_scalar] .. [grad_p1]
     api/assembly/grid_function.py: _project_function(_vectorized), _integrate, evaluate,
         evaluate_on_element_centers, evaluate_on_vertices, l2_norm (squared)    -> [project] .. [l2_norm_sq]
     api/assembly/boundary_operator.py: MultiplicationOperator._assemble -> [mult_op_core], [mult_op_inner]  *)
From Coq Require Import List Arith Bool.
From BV Require Import AssemblyA.Sums AssemblyA.Mat AssemblyA.Dense.
Import ListNotations.
Local Open Scope cr_scope.

Section SparseModel.
  Context {A : Type} {R : CRing A}.

  (* support = domain.support * dual_to_range.support; elements = flatnonzero(support) *)
  Definition sparse_elements (nel : nat) (St Sr : space A) : list nat :=
    filter (fun e => sp_support Sr e && sp_support St e) (seq 0 nel).

  (* result[ns_t*ns_r*element_index + i*ns_r + j]; i_ind = e*ns_t + i, j_ind = e*ns_r + j *)
  Definition sparse_local (Lsp : nat -> nat -> nat -> A) (ns_t ns_r : nat) (elems : list nat) : list (lent A) :=
    flat_map (fun e => flat_map (fun i => map (fun j => (e, i, e, j, Lsp e i j)) (seq 0 ns_r)) (seq 0 ns_t)) elems.

  (* global_values = values * trial_multipliers[cols] * test_multipliers[rows]; coo_matrix(...).tocsr() *)
  Definition sparse_core (nel : nat) (Lsp : nat -> nat -> nat -> A) (St Sr : space A) : mat :=
    scatter (map (glob_singular St Sr) (sparse_local Lsp (sp_ns St) (sp_ns Sr) (sparse_elements nel St Sr))).

  (* mat @ domain.dof_transformation ; dual_to_range.dof_transformation.T @ mat  (None: not required) *)
  Definition dof_transform (gdc_t gdc_r : nat) (Xt Xr : option mat) (M : mat) : mat :=
    let M1 := match Xr with None => M | Some X => mmul (seq 0 gdc_r) M X end in
    match Xt with None => M1 | Some X => mmul (seq 0 gdc_t) (tr X) M1 end.
  Definition sparse_op (nel : nat) Lsp (St Sr : space A) (gdc_t gdc_r : nat) (Xt Xr : option mat) : mat :=
    dof_transform gdc_t gdc_r Xt Xr (sparse_core nel Lsp St Sr).

  (* ---- basis evaluators: value of local function i of element e at reference point p, component d ----- *)
  Definition basisfn := nat -> nat -> pt2 A -> nat -> A.

  Definition shape_p0 (i : nat) (p : pt2 A) : A := 1.
  Definition shape_p1 (i : nat) (p : pt2 A) : A :=
    match i with O => 1 - fst p - snd p | S O => fst p | _ => snd p end.
  (* space._numba_evaluate: shapeset values times local_multipliers[e, i] *)
  Definition ev_scalar (shape : nat -> pt2 A -> A) (lm : nat -> nat -> A) : basisfn :=
    fun e i p d => shape i p * lm e i.

  (* _rwg0_shapeset_evaluate: two reference components *)
  Definition shape_rwg (i : nat) (p : pt2 A) : A * A :=
    match i with O => (fst p, snd p - 1) | S O => (fst p - 1, snd p) | _ => (fst p, snd p) end.
  Definition comp3 (v : pt3 A) (d : nat) : A :=
    let '(x, y, z) := v in match d with O => x | S O => y | _ => z end.
  Definition jac_dot (J : pt3 A * pt3 A) (r : A * A) : pt3 A :=
    let '((a0, a1, a2), (b0, b1, b2)) := J in
    (a0 * fst r + b0 * snd r, a1 * fst r + b1 * snd r, a2 * fst r + b2 * snd r).
  (* _numba_rwg0_evaluate: lm[e,i] * edge_lengths[i] / integration_elements[e] * jacobians[e].dot(ref);
     the quotient edge_length/integration_element is passed as [ratio e i] (division-free model) *)
  Definition rwg_vec (G : geom A) (ratio : nat -> nat -> A) (lm : nat -> nat -> A) e i p : pt3 A :=
    scale3 (lm e i * ratio e i) (jac_dot (ge_jac G e) (shape_rwg i p)).
  Definition ev_rwg (G : geom A) ratio lm : basisfn := fun e i p d => comp3 (rwg_vec G ratio lm e i p) d.
  (* _numba_snc0_evaluate: normal x rwg *)
  Definition cross3 (n t : pt3 A) : pt3 A :=
    let '(n0, n1, n2) := n in let '(t0, t1, t2) := t in
    (n1 * t2 - n2 * t1, n2 * t0 - n0 * t2, n0 * t1 - n1 * t0).
  Definition ev_snc (G : geom A) ratio lm (nm : nat -> A) : basisfn :=
    fun e i p d => comp3 (cross3 (scale3 (nm e) (ge_normal G e)) (rwg_vec G ratio lm e i p)) d.

  (* _p1_disc_shapeset_gradient and _numba_p1_surface_gradient: jac_inv_trans[e] (3x2, given by its two columns)
     times the reference gradient; local multipliers are not applied *)
  Definition refgrad_p1 (i : nat) : A * A :=
    match i with O => (- (1), - (1)) | S O => (1, 0) | _ => (0, 1) end.
  Definition grad_p1 (jit : nat -> pt3 A * pt3 A) : basisfn :=
    fun e i p d => comp3 (jac_dot (jit e) (refgrad_p1 i)) d.

  (* ---- local sparse kernels ----------------------------------------------------------------------------- *)
  (* l2_identity_kernel: sum over dim, quad of test[d,i,q] * trial[d,j,q] * w[q] * integration_element *)
  Definition Lsp_identity (dim : nat) (rule : list (pt2 A * A)) (intel : nat -> A) (bt br : basisfn) (e i j : nat) : A :=
    sumf (fun d => sumf (fun q => bt e i (fst q) d * br e j (fst q) d * snd q * intel e) rule) (seq 0 dim).
  (* laplace_beltrami_kernel: dim = 1, grad_index in 0..2 *)
  Definition Lsp_lb (rule : list (pt2 A * A)) (intel : nat -> A) (gt gr : basisfn) (e i j : nat) : A :=
    sumf (fun g => sumf (fun q => gt e i (fst q) g * gr e j (fst q) g * snd q * intel e) rule) (seq 0 3).

  (* ---- grid functions ------------------------------------------------------------------------------------- *)
  (* _project_function / _project_function_vectorized: ev includes the space's local multipliers;
     f e q d = value of the callable at quadrature point q of element e, component d *)
  Definition project (nel dim : nat) (rule : list (pt2 A * A)) (intel : nat -> A) (S : space A) (ev : basisfn)
             (f : nat -> pt2 A -> nat -> A) : nat -> A :=
    fun r =>
      sumf (fun e => sumf (fun i =>
        if Nat.eqb r (sp_l2g S e i) then
          sumf (fun d => sumf (fun q => ev e i (fst q) d * f e (fst q) d * snd q) rule) (seq 0 dim) * intel e
        else 0) (seq 0 (sp_ns S))) (support_elements nel S).

  (* get_function_quadrature_information + the vectorised callable + _project_function_vectorized:
     `for index, element in enumerate(support_elements)`; function_data[:, index*npoints + k] is addressed by the
     POSITION index of the element in the support and the number k of the quadrature point, everything else
     (basis values, local2global, integration_elements) by the element number *)
  Definition enumerate {B} (l : list B) : list (nat * B) := combine (seq 0 (length l)) l.
  Definition project_vectorized (nel dim : nat) (rule : list (pt2 A * A)) (intel : nat -> A) (S : space A) (ev : basisfn)
             (fdata : nat -> nat -> nat -> A) : nat -> A :=
    fun r =>
      sumf (fun pe => let '(pos, e) := pe in
        sumf (fun i =>
          if Nat.eqb r (sp_l2g S e i) then
            sumf (fun d => sumf (fun kq => let '(k, q) := kq in ev e i (fst q) d * fdata pos k d * snd q)
                                (enumerate rule)) (seq 0 dim) * intel e
          else 0) (seq 0 (sp_ns S))) (enumerate (support_elements nel S)).

  (* GridFunction.evaluate: tensordot(space.evaluate(e, p), grid_coefficients[local2global[e]]) *)
  Definition gf_eval (S : space A) (ev : basisfn) (coef : nat -> A) (e : nat) (p : pt2 A) (d : nat) : A :=
    sumf (fun i => ev e i p d * coef (sp_l2g S e i)) (seq 0 (sp_ns S)).

  (* _integrate: sum(sum((element_vals * weights) * coefficients[l2g[e]].reshape(ns,1))) * integration_elements[e];
     element_vals (numba_evaluate) contains the local multipliers *)
  Definition integrate (nel : nat) (rule : list (pt2 A * A)) (intel : nat -> A) (S : space A) (ev : basisfn)
             (coef : nat -> A) (d : nat) : A :=
    sumf (fun e =>
      sumf (fun i => sumf (fun q => ev e i (fst q) d * snd q * coef (sp_l2g S e i)) rule)
           (seq 0 (sp_ns S)) * intel e) (support_elements nel S).

  (* what integrate is meant to be: quadrature of the represented function *)
  Definition integrate_direct (nel : nat) (rule : list (pt2 A * A)) (intel : nat -> A) (S : space A) (ev : basisfn)
             (coef : nat -> A) (d : nat) : A :=
    sumf (fun e => sumf (fun q => gf_eval S ev coef e (fst q) d * snd q) rule * intel e) (support_elements nel S).

  (* evaluate_on_element_centers *)
  Definition eval_centers (third : A) (S : space A) ev coef (e d : nat) : A :=
    if sp_support S e then gf_eval S ev coef e (third, third) d else 0.

  (* evaluate_on_vertices: numerator and denominator of values[:, v] (the division is done over a field) *)
  Definition ref_vertex_pt (k : nat) : pt2 A := match k with O => (0, 0) | S O => (1, 0) | _ => (0, 1) end.
  Definition elt_vertex (els : nat -> nat * nat * nat) (e k : nat) : nat :=
    let '(a, b, c) := els e in match k with O => a | S O => b | _ => c end.
  Definition vertex_num (nel : nat) els (vol : nat -> A) (S : space A) ev coef (v d : nat) : A :=
    sumf (fun e => sumf (fun k => if Nat.eqb (elt_vertex els e k) v
                                  then gf_eval S ev coef e (ref_vertex_pt k) d * vol e else 0) (seq 0 3))
         (support_elements nel S).
  Definition vertex_den (nel : nat) els (vol : nat -> A) (S : space A) (v : nat) : A :=
    sumf (fun e => sumf (fun k => if Nat.eqb (elt_vertex els e k) v then vol e else 0) (seq 0 3))
         (support_elements nel S).

  (* l2_norm()^2 for real coefficients: vec' (mass vec) *)
  Definition l2_norm_sq (I : list nat) (mass : mat) (coef : nat -> A) : A := bilin I I coef mass coef.

  (* MultiplicationOperator._assemble (no dof transformation): elements = flatnonzero(trial.support*test.support*
     fun.support); scale_vals = g.evaluate(e, points) * weights * integration_elements[e];
     mode 'component': trial_vals = domain_vals * scale_vals[:, newaxis, :]  (component d with component d),
     mode 'inner':     trial_vals = sum_d domain_vals[d] * scale_vals[d]      (test space scalar);
     res = tensordot(test_vals, trial_vals, axes=([0, 2], [0, 2])); the evaluators contain the multipliers *)
  Definition mult_elements (nel : nat) (St Sr Sf : space A) : list nat :=
    filter (fun e => sp_support Sr e && sp_support St e && sp_support Sf e) (seq 0 nel).
  Definition mult_scale (rule_pt : pt2 A * A) (intel : nat -> A) (Sf : space A) (evf : basisfn) (gcoef : nat -> A)
             (e d : nat) : A := gf_eval Sf evf gcoef e (fst rule_pt) d * snd rule_pt * intel e.
  Definition mult_local (dim : nat) (rule : list (pt2 A * A)) (intel : nat -> A) (Sf : space A)
             (evt evr evf : basisfn) (gcoef : nat -> A) (e i j : nat) : A :=
    sumf (fun d => sumf (fun q => evt e i (fst q) d * (evr e j (fst q) d * mult_scale q intel Sf evf gcoef e d)) rule)
         (seq 0 dim).
  Definition mult_local_inner (dim : nat) (rule : list (pt2 A * A)) (intel : nat -> A) (Sf : space A)
             (evt evr evf : basisfn) (gcoef : nat -> A) (e i j : nat) : A :=
    sumf (fun q => evt e i (fst q) 0%nat *
                   sumf (fun d => evr e j (fst q) d * mult_scale q intel Sf evf gcoef e d) (seq 0 dim)) rule.
  Definition mult_op_triplets (Lm : nat -> nat -> nat -> A) (nel : nat) (St Sr Sf : space A) : list trip :=
    flat_map (fun e => flat_map (fun i => map (fun j => (sp_l2g St e i, sp_l2g Sr e j, Lm e i j)) (seq 0 (sp_ns Sr)))
                                (seq 0 (sp_ns St))) (mult_elements nel St Sr Sf).
  Definition mult_op_core (nel dim : nat) rule intel (St Sr Sf : space A) evt evr evf gcoef : list trip :=
    mult_op_triplets (mult_local dim rule intel Sf evt evr evf gcoef) nel St Sr Sf.
  Definition mult_op_inner (nel dim : nat) rule intel (St Sr Sf : space A) evt evr evf gcoef : list trip :=
    mult_op_triplets (mult_local_inner dim rule intel Sf evt evr evf gcoef) nel St Sr Sf.
End SparseModel.
