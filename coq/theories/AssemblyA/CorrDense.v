(* Evaluation side of the C04/C03 correspondence: the dense model instantiated with dyadic numbers, fed with
   the arrays the implementation dumped, and compared inside Coq with the matrix the implementation produced.
   Only the indices of failing cases are printed. *)
From Coq Require Import List Arith Bool ZArith.
From Bignums Require Import BigZ.
From BV Require Import AssemblyA.Sums AssemblyA.Mat AssemblyA.Dense AssemblyA.Sparse AssemblyA.Dyadic.
Import ListNotations.
Local Open Scope cr_scope.

Definition D (m : bigZ) (e : Z) : dy := (m, e).
Arguments D m%bigZ_scope e%Z_scope.
Definition P3 := pt3 dy.
Definition P2 := pt2 dy.

(* surrogate kernels: the same polynomials as harness/asm_common.py (_k0, _k1) *)
Definition dot3 (a b : P3) : dy := let '(a0, a1, a2) := a in let '(b0, b1, b2) := b in a0 * b0 + a1 * b1 + a2 * b2.
Definition kernel_k0 (x y nx ny : P3) : dy :=
  let '(x0, x1, x2) := x in let '(y0, y1, y2) := y in
  1 + x0 * y1 - D 2 0 * x2 * y0 + D 1 (-1) * dot3 nx ny.
Definition kernel_k1 (x y nx ny : P3) : dy :=
  let '(x0, x1, x2) := x in let '(y0, y1, y2) := y in
  let '(n0, n1, n2) := nx in let '(m0, m1, m2) := ny in
  (x0 - y0) * n0 + (x1 - y1) * m1 + D 1 (-2) * x2 * y2 - D 3 (-2) * n2 * m0 + D 1 (-3).
Definition kernel_of (k : nat) := match k with O => kernel_k0 | _ => kernel_k1 end.

(* shapeset.evaluate(...)[0, i, :] as used by default_scalar_*_kernel *)
Definition shape_of (id : nat) : nat -> P2 -> dy :=
  match id with O => shape_p0 | S O => shape_p1 | _ => fun i p => fst (shape_rwg i p) end.

Record spdata := mkSp {
  d_shape : nat; d_ns : nat; d_support : list bool; d_l2g : list (list nat); d_mult : list (list dy);
  d_colors : list (list nat); d_nm : list dy }.
Definition to_space (d : spdata) : space dy :=
  mkSpace (d_ns d) (fun e => nth e (d_support d) false) (fun e i => nth i (nth e (d_l2g d) []) 0%nat)
          (fun e i => nth i (nth e (d_mult d) []) 0) (d_colors d).
Definition nm_of (d : spdata) : nat -> dy := fun e => nth e (d_nm d) 0.

Record griddata := mkGd {
  gd_nel : nat; gd_els : list (nat * nat * nat); gd_ea : list (list nat); gd_va : list (list nat);
  gd_v0 : list P3; gd_jac : list (P3 * P3); gd_normal : list P3; gd_intel : list dy }.
Definition z3 : P3 := (0, 0, 0).
Definition to_topo (g : griddata) : gridtopo :=
  mkTopo (gd_nel g) (fun e => nth e (gd_els g) (0, 0, 0)%nat) (gd_ea g) (gd_va g).
Definition to_geom (g : griddata) : geom dy :=
  mkGeom (fun e => nth e (gd_v0 g) z3) (fun e => nth e (gd_jac g) (z3, z3)) (fun e => nth e (gd_normal g) z3)
         (fun e => nth e (gd_intel g) 0).

(* singular rule table: (kind, te, tr, points) in the implementation's order; looked up by the pair *)
Definition kind_code (k : skind) : nat := match k with Coincident => 0 | EdgeAdjacent => 1 | VertexAdjacent => 2 end.
Definition singtab := list (nat * nat * nat * list (P2 * P2 * dy)).
Fixpoint sing_lookup (tab : singtab) (p : spair) : list (P2 * P2 * dy) :=
  match tab with
  | [] => []
  | (k, a, b, pts) :: t =>
    if Nat.eqb k (kind_code (s_kind p)) && Nat.eqb a (s_te p) && Nat.eqb b (s_tr p) then pts else sing_lookup t p
  end.

(* the pairs the model enumerates must be the implementation's, in the same order *)
Definition pairs_match (tab : singtab) (pairs : list spair) : bool :=
  Nat.eqb (length tab) (length pairs) &&
  forallb (fun tp => let '((k, a, b, _), p) := tp in
             Nat.eqb k (kind_code (s_kind p)) && Nat.eqb a (s_te p) && Nat.eqb b (s_tr p)) (combine tab pairs).

Fixpoint count (l : list nat) (x : nat) : nat :=
  match l with [] => 0 | y :: t => (if Nat.eqb y x then 1 else 0) + count t x end.
Definition perm_b (l1 l2 : list nat) : bool :=
  Nat.eqb (length l1) (length l2) && forallb (fun x => Nat.eqb (count l1 x) (count l2 x)) (l1 ++ l2).
Definition wf_colors_b (nel : nat) (S : space dy) : bool := perm_b (color_sorted S) (support_elements nel S).
Definition wf_adj_b (nel : nat) (adj : list (list nat)) : bool :=
  forallb (fun col => Nat.ltb (col_te col) nel && Nat.ltb (col_tr col) nel) adj.

Definition failing {B} (ok : B -> bool) (l : list B) : list nat :=
  map fst (filter (fun ic => negb (ok (snd ic))) (combine (seq 0 (length l)) l)).

Record dcase := mkCase {
  c_grid : griddata; c_test : spdata; c_trial : spdata; c_kernel : nat; c_rule : list (P2 * dy);
  c_sing : singtab; c_rows : nat; c_cols : nat; c_impl : list (list dy); c_tol : dy;
  c_Tt : list (nat * nat * dy); c_Tr : list (nat * nat * dy) }.

Definition model_triplets (c : dcase) : list (@trip dy) :=
  let G := to_geom (c_grid c) in
  let St := to_space (c_test c) in let Sr := to_space (c_trial c) in
  let K := kernel_of (c_kernel c) in
  let sht := shape_of (d_shape (c_test c)) in let shr := shape_of (d_shape (c_trial c)) in
  dense_triplets true (to_topo (c_grid c))
    (Lreg_quad K (c_rule c) G G (nm_of (c_test c)) (nm_of (c_trial c)) sht shr)
    (Lsing_quad K (sing_lookup (c_sing c)) G (nm_of (c_test c)) (nm_of (c_trial c)) sht shr) St Sr.

Definition matrix_ok (tol : dy) (trips : list (@trip dy)) (rows cols : nat) (impl : list (list dy)) : bool :=
  Nat.eqb (length impl) rows &&
  forallb (fun r => let row := nth r impl [] in
             Nat.eqb (length row) cols &&
             forallb (fun c => dclose tol (scatter trips r c) (nth c row 0)) (seq 0 cols)) (seq 0 rows).

(* T = map_to_full_grid: same nonzeros *)
Definition tmat_ok (nel : nat) (S : space dy) (impl : list (nat * nat * dy)) : bool :=
  let t := tmat nel S in
  forallb (fun x => let '(r, c, v) := x in dclose (D 0 0) (scatter t r c) v) impl &&
  forallb (fun x => let '(r, c, v) := x in
             dclose (D 0 0) v 0 || existsb (fun y => let '(r', c', _) := y in Nat.eqb r r' && Nat.eqb c c') impl) t.

Definition case_ok (c : dcase) : bool :=
  let St := to_space (c_test c) in let Sr := to_space (c_trial c) in
  let nel := gd_nel (c_grid c) in
  let trips := model_triplets c in
  wf_colors_b nel St && wf_colors_b nel Sr && wf_adj_b nel (gd_ea (c_grid c)) && wf_adj_b nel (gd_va (c_grid c)) &&
  pairs_match (c_sing c) (singular_pairs nel St Sr (gd_ea (c_grid c)) (gd_va (c_grid c))) &&
  matrix_ok (c_tol c) trips (c_rows c) (c_cols c) (c_impl c) &&
  tmat_ok nel St (c_Tt c) && tmat_ok nel Sr (c_Tr c).

(* which of the checks fails (for diagnostics): bit list *)
Definition case_diag (c : dcase) : list bool :=
  let St := to_space (c_test c) in let Sr := to_space (c_trial c) in
  let nel := gd_nel (c_grid c) in
  [wf_colors_b nel St; wf_colors_b nel Sr; wf_adj_b nel (gd_ea (c_grid c)) && wf_adj_b nel (gd_va (c_grid c));
   pairs_match (c_sing c) (singular_pairs nel St Sr (gd_ea (c_grid c)) (gd_va (c_grid c)));
   matrix_ok (c_tol c) (model_triplets c) (c_rows c) (c_cols c) (c_impl c);
   tmat_ok nel St (c_Tt c); tmat_ok nel Sr (c_Tr c)].

(* ---- first-level cases: ANY regular/singular assembler (default scalar, Laplace / Helmholtz / modified Helmholtz
   hypersingular, Maxwell electric / magnetic).  The local values are the entries of the matrix the SAME assembler
   produced on the full-grid element-wise spaces (unit multipliers, l2g = ns*e+i); the model scatters them through the
   DOF maps, multipliers, supports, colour classes and singular pair lists of the restricted spaces and must reproduce
   the matrix the assembler produced there (this is C04_congruence evaluated on the implementation's arrays). *)
Record lcase := mkLCase {
  l_grid : griddata; l_test : spdata; l_trial : spdata; l_AD : list (list dy);
  l_rows : nat; l_cols : nat; l_impl : list (list dy); l_tol : dy }.
Definition tab (m : list (list dy)) (r c : nat) : dy := nth c (nth r m []) 0.
Definition lcase_triplets (c : lcase) : list (@trip dy) :=
  let St := to_space (l_test c) in let Sr := to_space (l_trial c) in
  let nst := sp_ns St in let nsr := sp_ns Sr in
  dense_triplets true (to_topo (l_grid c))
    (fun te tr i j => tab (l_AD c) (nst * te + i) (nsr * tr + j))
    (fun p i j => tab (l_AD c) (nst * s_te p + i) (nsr * s_tr p + j)) St Sr.
Definition lcase_ok (c : lcase) : bool :=
  let St := to_space (l_test c) in let Sr := to_space (l_trial c) in
  let nel := gd_nel (l_grid c) in
  wf_colors_b nel St && wf_colors_b nel Sr && wf_adj_b nel (gd_ea (l_grid c)) && wf_adj_b nel (gd_va (l_grid c)) &&
  matrix_ok (l_tol c) (lcase_triplets c) (l_rows c) (l_cols c) (l_impl c).
