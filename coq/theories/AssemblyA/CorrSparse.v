(* Evaluation side of the C13 correspondence: sparse operators and grid-function routines of the model,
   instantiated with dyadic numbers and compared inside Coq with what the implementation returned. *)
From Coq Require Import List Arith Bool ZArith.
From Bignums Require Import BigZ.
From BV Require Import AssemblyA.Sums AssemblyA.Mat AssemblyA.Dense AssemblyA.Sparse AssemblyA.Dyadic AssemblyA.CorrDense.
Import ListNotations.
Local Open Scope cr_scope.

Record geoextra := mkGx {
  gx_jit : list (P3 * P3);          (* columns of jac_inv_trans[e] *)
  gx_vol : list dy;                 (* volumes *)
  gx_ratio : list (list dy) }.      (* edge_length[i] / integration_elements[e] as the float quotient *)

Definition jit_of (x : geoextra) : nat -> P3 * P3 := fun e => nth e (gx_jit x) (z3, z3).
Definition vol_of (x : geoextra) : nat -> dy := fun e => nth e (gx_vol x) 0.
Definition ratio_of (x : geoextra) : nat -> nat -> dy := fun e i => nth i (nth e (gx_ratio x) []) 0.

(* basis kinds: 0 = P0 scalar, 1 = P1 scalar, 2 = RWG, 3 = SNC *)
Definition basis_of (kind : nat) (G : geom dy) (x : geoextra) (lm : nat -> nat -> dy) (nm : nat -> dy) : @basisfn dy :=
  match kind with
  | O => ev_scalar shape_p0 lm
  | S O => ev_scalar shape_p1 lm
  | S (S O) => ev_rwg G (ratio_of x) lm
  | _ => ev_snc G (ratio_of x) lm nm
  end.
Definition dim_of (kind : nat) : nat := match kind with O | S O => 1 | _ => 3 end.

(* multipliers of the localised space: 1 on the support *)
Definition loc_mult (d : spdata) : nat -> nat -> dy := fun e i => if nth e (d_support d) false then 1 else 0.
Definition mult_of (d : spdata) : nat -> nat -> dy := fun e i => nth i (nth e (d_mult d) []) 0.
Definition intel_of (g : griddata) : nat -> dy := fun e => nth e (gd_intel g) 0.

Record scase := mkSCase {
  sc_grid : griddata; sc_gx : geoextra; sc_test : spdata; sc_kt : nat; sc_trial : spdata; sc_kr : nat;
  sc_op : nat;                       (* 0 identity, 1 laplace_beltrami *)
  sc_rule : list (P2 * dy); sc_rows : nat; sc_cols : nat; sc_impl : list (list dy); sc_tol : dy }.

Definition sparse_triplets (c : scase) : list (@trip dy) :=
  let G := to_geom (sc_grid c) in
  let St := to_space (sc_test c) in let Sr := to_space (sc_trial c) in
  let Lsp := match sc_op c with
             | O => Lsp_identity (dim_of (sc_kt c)) (sc_rule c) (intel_of (sc_grid c))
                                 (basis_of (sc_kt c) G (sc_gx c) (loc_mult (sc_test c)) (nm_of (sc_test c)))
                                 (basis_of (sc_kr c) G (sc_gx c) (loc_mult (sc_trial c)) (nm_of (sc_trial c)))
             | _ => Lsp_lb (sc_rule c) (intel_of (sc_grid c)) (grad_p1 (jit_of (sc_gx c))) (grad_p1 (jit_of (sc_gx c)))
             end in
  map (glob_singular St Sr)
      (sparse_local Lsp (sp_ns St) (sp_ns Sr) (sparse_elements (gd_nel (sc_grid c)) St Sr)).

Definition scase_ok (c : scase) : bool :=
  matrix_ok (sc_tol c) (sparse_triplets c) (sc_rows c) (sc_cols c) (sc_impl c).

(* ---- grid functions ------------------------------------------------------------------------------------------- *)
Record gcase := mkGCase {
  gc_grid : griddata; gc_gx : geoextra; gc_space : spdata; gc_kind : nat; gc_rule : list (P2 * dy);
  gc_coef : list dy;                          (* grid_coefficients *)
  gc_ftab : list (list (list dy));            (* callable values: element -> quadrature point -> component *)
  gc_nvert : nat;
  gc_proj : list dy;                          (* projections of the callable (grid dofs) *)
  gc_int : list dy;                           (* integrate() per component *)
  gc_centers : list (list dy);                (* evaluate_on_element_centers: component -> element *)
  gc_vertices : list (list dy);               (* evaluate_on_vertices: component -> vertex *)
  gc_third : dy;                              (* the double 1.0/3 *)
  (* vectorised callable: function_data as the library received it, position in the support -> quadrature point number
     -> component (real part, imaginary part), and the projections it produced; empty lists = not run *)
  gc_fdata_re : list (list (list dy)); gc_projv_re : list dy;
  gc_fdata_im : list (list (list dy)); gc_projv_im : list dy;
  gc_tol : dy }.

Definition index_of (p : P2) (rule : list (P2 * dy)) : nat :=
  (fix go (l : list (P2 * dy)) (n : nat) : nat :=
     match l with
     | [] => n
     | (q, _) :: t => if dclose (D 0 0) (fst q) (fst p) && dclose (D 0 0) (snd q) (snd p) then n else go t (S n)
     end) rule 0%nat.

Definition gf_basis (c : gcase) : @basisfn dy :=
  basis_of (gc_kind c) (to_geom (gc_grid c)) (gc_gx c) (mult_of (gc_space c)) (nm_of (gc_space c)).
Definition gf_coef (c : gcase) : nat -> dy := fun k => nth k (gc_coef c) 0.
Definition gf_f (c : gcase) : nat -> P2 -> nat -> dy :=
  fun e p d => nth d (nth (index_of p (gc_rule c)) (nth e (gc_ftab c) []) []) 0.

Definition vec_ok (tol : dy) (n : nat) (model : nat -> dy) (impl : list dy) : bool :=
  Nat.eqb (length impl) n && forallb (fun k => dclose tol (model k) (nth k impl 0)) (seq 0 n).

Definition fdata_of (t : list (list (list dy))) : nat -> nat -> nat -> dy :=
  fun pos k d => nth d (nth k (nth pos t []) []) 0.

Definition gcase_diag (c : gcase) : list bool :=
  let nel := gd_nel (gc_grid c) in
  let Sp := to_space (gc_space c) in
  let dim := dim_of (gc_kind c) in
  let ev := gf_basis c in
  let intel := intel_of (gc_grid c) in
  let els := fun e => nth e (gd_els (gc_grid c)) (0, 0, 0)%nat in
  [ vec_ok (gc_tol c) (length (gc_proj c)) (project nel dim (gc_rule c) intel Sp ev (gf_f c)) (gc_proj c);
    vec_ok (gc_tol c) dim (integrate nel (gc_rule c) intel Sp ev (gf_coef c)) (gc_int c);
    forallb (fun d => vec_ok (gc_tol c) nel (fun e => eval_centers (gc_third c) Sp ev (gf_coef c) e d)
                             (nth d (gc_centers c) [])) (seq 0 dim);
    forallb (fun d => vec_ok (gc_tol c) (gc_nvert c)
                             (fun v => vertex_num nel els (vol_of (gc_gx c)) Sp ev (gf_coef c) v d
                                       - nth v (nth d (gc_vertices c) []) 0 * vertex_den nel els (vol_of (gc_gx c)) Sp v)
                             (repeat 0 (gc_nvert c))) (seq 0 dim);
    match gc_fdata_re c with [] => true | t =>
      vec_ok (gc_tol c) (length (gc_projv_re c)) (project_vectorized nel dim (gc_rule c) intel Sp ev (fdata_of t))
             (gc_projv_re c) end;
    (* hypothesis of C13_vectorized_projection_is_scalar_projection on the library's table: the entry at (position of e,
       number of q) is the value of the callable at quadrature point q of element e *)
    match gc_fdata_re c with [] => true | t =>
      forallb (fun pe => let '(pos, e) := pe in
        forallb (fun kq => let '(k, q) := kq in
          forallb (fun d => dclose (gc_tol c) (fdata_of t pos k d) (gf_f c e (fst q) d)) (seq 0 dim))
          (enumerate (gc_rule c))) (enumerate (support_elements nel Sp)) end;
    match gc_fdata_im c with [] => true | t =>
      vec_ok (gc_tol c) (length (gc_projv_im c)) (project_vectorized nel dim (gc_rule c) intel Sp ev (fdata_of t))
             (gc_projv_im c) end ].
Definition gcase_ok (c : gcase) : bool := forallb (fun b => b) (gcase_diag c).

(* MultiplicationOperator: mode 0 = 'component' (all three spaces of the same codomain dimension), 1 = 'inner'
   (scalar test space, vector-valued trial space and grid function); duplicates summed *)
Record mcase := mkMCase {
  mc_grid : griddata; mc_gx : geoextra; mc_mode : nat; mc_test : spdata; mc_kt : nat; mc_trial : spdata; mc_kr : nat;
  mc_fun : spdata; mc_kf : nat; mc_gcoef : list dy; mc_rule : list (P2 * dy);
  mc_rows : nat; mc_cols : nat; mc_impl : list (list dy); mc_tol : dy }.
Definition mcase_ok (c : mcase) : bool :=
  let G := to_geom (mc_grid c) in
  let b := fun k d => basis_of k G (mc_gx c) (mult_of d) (nm_of d) in
  let f := match mc_mode c with O => mult_op_core | _ => mult_op_inner end in
  matrix_ok (mc_tol c)
    (f (gd_nel (mc_grid c)) (dim_of (mc_kr c)) (mc_rule c) (intel_of (mc_grid c))
       (to_space (mc_test c)) (to_space (mc_trial c)) (to_space (mc_fun c))
       (b (mc_kt c) (mc_test c)) (b (mc_kr c) (mc_trial c)) (b (mc_kf c) (mc_fun c))
       (fun k => nth k (mc_gcoef c) 0))
    (mc_rows c) (mc_cols c) (mc_impl c).
