(* Matrices as functions nat -> nat -> A over a commutative ring, [scatter] of (row, col, value) triplets
   (the meaning of np.add.at on a zero matrix and of coo_matrix(...).tocsr(), which sums duplicates),
   transpose, product over an index list, congruence T' A T. *)
From Coq Require Import List Arith Bool Lia Permutation Setoid Morphisms Ring Ring_theory.
From BV Require Import AssemblyA.Sums.
Import ListNotations.
Local Open Scope cr_scope.

Section Mat.
  Context {A : Type} {R : CRing A}.
  Add Ring AringM : (@Rth A R) (setoid (@Rsth A R) (@Reqe A R)).

  Definition mat := nat -> nat -> A.
  Definition meq (M N : mat) : Prop := forall r c, M r c == N r c.
  Definition trip := (nat * nat * A)%type.
  Definition t_row (t : trip) : nat := fst (fst t).
  Definition t_col (t : trip) : nat := snd (fst t).
  Definition t_val (t : trip) : A := snd t.

  Definition entry (t : trip) (r c : nat) : A :=
    if Nat.eqb r (t_row t) && Nat.eqb c (t_col t) then t_val t else 0.
  Definition scatter (l : list trip) : mat := fun r c => sumf (fun t => entry t r c) l.

  Definition mzero : mat := fun _ _ => 0.
  Definition madd (M N : mat) : mat := fun r c => M r c + N r c.
  Definition tr (M : mat) : mat := fun r c => M c r.
  Definition mmul (idx : list nat) (M N : mat) : mat := fun r c => sumf (fun k => M r k * N k c) idx.
  Definition congr (I J : list nat) (Tt M Tr : mat) : mat := mmul I (tr Tt) (mmul J M Tr).
  (* matrix-vector product and bilinear form over index lists *)
  Definition mvec (J : list nat) (M : mat) (x : nat -> A) : nat -> A := fun r => sumf (fun c => M r c * x c) J.
  Definition bilin (I J : list nat) (y : nat -> A) (M : mat) (x : nat -> A) : A :=
    sumf (fun r => y r * mvec J M x r) I.

  Global Instance meq_equiv : Equivalence meq.
  Proof.
    split; [intros M r c; reflexivity | intros M N H r c; symmetry; apply H |
            intros M N P H1 H2 r c; etransitivity; [apply H1 | apply H2]].
  Qed.

  Lemma scatter_nil r c : scatter [] r c == 0.
  Proof. reflexivity. Qed.
  Lemma scatter_cons t l r c : scatter (t :: l) r c == entry t r c + scatter l r c.
  Proof. reflexivity. Qed.
  Lemma scatter_app l1 l2 : meq (scatter (l1 ++ l2)) (madd (scatter l1) (scatter l2)).
  Proof. intros r c; unfold scatter, madd; apply sumf_app. Qed.
  Lemma scatter_perm l l' : Permutation l l' -> meq (scatter l) (scatter l').
  Proof. intros H r c; unfold scatter; now apply sumf_perm. Qed.

  Lemma mmul_ext I M M' N N' : meq M M' -> meq N N' -> meq (mmul I M N) (mmul I M' N').
  Proof. intros H1 H2 r c; unfold mmul; apply sumf_ext_all; intros k; rewrite (H1 r k), (H2 k c); reflexivity. Qed.
  Lemma tr_ext M M' : meq M M' -> meq (tr M) (tr M').
  Proof. intros H r c; apply H. Qed.
  Lemma congr_ext I J Tt Tt' M M' Tr Tr' :
    meq Tt Tt' -> meq M M' -> meq Tr Tr' -> meq (congr I J Tt M Tr) (congr I J Tt' M' Tr').
  Proof. intros; unfold congr; apply mmul_ext; [now apply tr_ext | now apply mmul_ext]. Qed.

  Lemma congr_zero I J Tt Tr : meq (congr I J Tt mzero Tr) mzero.
  Proof.
    intros r c; unfold congr, mmul, tr, mzero. apply sumf_zero; intros p _.
    rewrite sumf_zero; [ring|]. intros; ring.
  Qed.

  Lemma congr_add I J Tt M N Tr :
    meq (congr I J Tt (madd M N) Tr) (madd (congr I J Tt M Tr) (congr I J Tt N Tr)).
  Proof.
    intros r c; unfold congr, mmul, tr, madd.
    rewrite <- sumf_add. apply sumf_ext_all; intros p.
    assert (E : sumf (fun k => (M p k + N p k) * Tr k c) J ==
                sumf (fun k => M p k * Tr k c) J + sumf (fun k => N p k * Tr k c) J).
    { rewrite <- sumf_add. apply sumf_ext_all; intros; ring. }
    rewrite E; ring.
  Qed.

  (* congruence of a single triplet: both Kronecker deltas collapse *)
  Lemma congr_single I J Tt Tr t :
    NoDup I -> NoDup J -> In (t_row t) I -> In (t_col t) J ->
    forall r c, congr I J Tt (scatter [t]) Tr r c == Tt (t_row t) r * t_val t * Tr (t_col t) c.
  Proof.
    intros NI NJ HI HJ r c. unfold congr, mmul, tr, scatter; simpl.
    transitivity (sumf (fun p => if Nat.eqb p (t_row t) then Tt p r * (t_val t * Tr (t_col t) c) else 0) I).
    - apply sumf_ext_all; intros p. unfold entry.
      destruct (Nat.eqb_spec p (t_row t)); simpl.
      + assert (E : sumf (fun k => ((if Nat.eqb k (t_col t) then t_val t else 0) + 0) * Tr k c) J
                    == t_val t * Tr (t_col t) c).
        { transitivity (sumf (fun k => if Nat.eqb k (t_col t) then t_val t * Tr k c else 0) J).
          - apply sumf_ext_all; intros k. destruct (Nat.eqb k (t_col t)); ring.
          - rewrite (sumf_delta_in (fun k => t_val t * Tr k c)); auto; reflexivity. }
        rewrite E; reflexivity.
      + rewrite sumf_zero; [ring|]. intros; ring.
    - rewrite (sumf_delta_in (fun p => Tt p r * (t_val t * Tr (t_col t) c))); auto. ring.
  Qed.

  Lemma congr_scatter I J Tt Tr l :
    NoDup I -> NoDup J -> (forall t, In t l -> In (t_row t) I /\ In (t_col t) J) ->
    forall r c, congr I J Tt (scatter l) Tr r c == sumf (fun t => Tt (t_row t) r * t_val t * Tr (t_col t) c) l.
  Proof.
    intros NI NJ. induction l as [|t l IH]; intros H r c.
    - simpl. apply (congr_zero I J Tt Tr r c).
    - change (t :: l) with ([t] ++ l).
      rewrite (congr_ext I J Tt Tt _ _ Tr Tr (reflexivity _) (scatter_app [t] l) (reflexivity _) r c).
      rewrite (congr_add I J Tt _ _ Tr r c). unfold madd.
      rewrite congr_single; auto; try (apply H; now left).
      rewrite IH; [simpl; ring|]. intros; apply H; now right.
  Qed.

  Lemma scatter_tr l : meq (tr (scatter l)) (scatter (map (fun t => (t_col t, t_row t, t_val t)) l)).
  Proof.
    intros r c; unfold tr, scatter. rewrite sumf_map. apply sumf_ext_all; intros [[a b] v].
    unfold entry, t_row, t_col, t_val; simpl. rewrite andb_comm; reflexivity.
  Qed.
End Mat.
