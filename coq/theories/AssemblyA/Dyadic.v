(* Dyadic numbers m * 2^e with a BigZ mantissa: the exact arithmetic in which the assembler models are
   evaluated for the correspondence checks (every double is such a number; no gcd is ever needed).
   [DyRing] is a commutative-ring instance, proved by mapping into Q. *)
From Coq Require Import QArith ZArith Lia Ring_theory Setoid Morphisms Qpower.
From Bignums Require Import BigZ.
From BV Require Import AssemblyA.Sums.

Definition dy := (bigZ * Z)%type.
Definition dval (a : dy) : Q := inject_Z (BigZ.to_Z (fst a)) * (2 ^ snd a).

Definition dadd (a b : dy) : dy :=
  let '(m1, e1) := a in let '(m2, e2) := b in
  if (e1 <=? e2)%Z then (BigZ.add m1 (BigZ.shiftl m2 (BigZ.of_Z (e2 - e1))), e1)
  else (BigZ.add (BigZ.shiftl m1 (BigZ.of_Z (e1 - e2))) m2, e2).
Definition dmul (a b : dy) : dy := (BigZ.mul (fst a) (fst b), (snd a + snd b)%Z).
Definition dopp (a : dy) : dy := (BigZ.opp (fst a), snd a).
Definition dsub (a b : dy) : dy := dadd a (dopp b).
Definition d0 : dy := (0%bigZ, 0%Z).
Definition d1 : dy := (1%bigZ, 0%Z).
Definition deq (a b : dy) : Prop := dval a == dval b.

(* |a| <= tol, decided exactly *)
Definition dle_abs (a tol : dy) : bool :=
  let '(m1, e1) := a in let '(m2, e2) := tol in
  let e := Z.min e1 e2 in
  BigZ.leb (BigZ.abs (BigZ.shiftl m1 (BigZ.of_Z (e1 - e)))) (BigZ.shiftl m2 (BigZ.of_Z (e2 - e))).
Definition dclose (tol a b : dy) : bool := dle_abs (dsub a b) tol.

Lemma two_pow_pos (k : Z) : (0 <= k)%Z -> inject_Z (2 ^ k) == 2 ^ k.
Proof. intros H. rewrite Zpower_Qpower by assumption. reflexivity. Qed.

Lemma Q2_neq0 : ~ 2 == 0.
Proof. discriminate. Qed.

Lemma shift_val (m : bigZ) (k e : Z) : (0 <= k)%Z ->
  inject_Z (BigZ.to_Z (BigZ.shiftl m (BigZ.of_Z k))) * 2 ^ e == inject_Z (BigZ.to_Z m) * 2 ^ (k + e).
Proof.
  intros Hk. rewrite BigZ.spec_shiftl, BigZ.spec_of_Z, Z.shiftl_mul_pow2 by assumption.
  rewrite inject_Z_mult, two_pow_pos by assumption.
  rewrite (Qpower_plus 2 k e Q2_neq0). ring.
Qed.

Lemma dval_add a b : dval (dadd a b) == dval a + dval b.
Proof.
  destruct a as [m1 e1], b as [m2 e2]. unfold dadd, dval. destruct (Z.leb_spec e1 e2); simpl fst; simpl snd.
  - rewrite BigZ.spec_add, inject_Z_plus, Qmult_plus_distr_l, shift_val by lia.
    replace (e2 - e1 + e1)%Z with e2 by lia. reflexivity.
  - rewrite BigZ.spec_add, inject_Z_plus, Qmult_plus_distr_l, shift_val by lia.
    replace (e1 - e2 + e2)%Z with e1 by lia. reflexivity.
Qed.

Lemma dval_mul a b : dval (dmul a b) == dval a * dval b.
Proof.
  destruct a as [m1 e1], b as [m2 e2]. unfold dmul, dval; simpl fst; simpl snd.
  rewrite BigZ.spec_mul, inject_Z_mult, (Qpower_plus 2 e1 e2 Q2_neq0). ring.
Qed.

Lemma dval_opp a : dval (dopp a) == - dval a.
Proof.
  destruct a as [m e]. unfold dopp, dval; simpl fst; simpl snd. rewrite BigZ.spec_opp, inject_Z_opp. ring.
Qed.

Lemma dval_sub a b : dval (dsub a b) == dval a - dval b.
Proof. unfold dsub. rewrite dval_add, dval_opp. ring. Qed.

Lemma dval_0 : dval d0 == 0. Proof. reflexivity. Qed.
Lemma dval_1 : dval d1 == 1. Proof. reflexivity. Qed.

Global Instance deq_equiv : Equivalence deq.
Proof.
  split; unfold deq; [intros x; reflexivity | intros x y H; symmetry; exact H |
                      intros x y z H1 H2; rewrite H1; exact H2].
Qed.

Lemma dy_eqe : ring_eq_ext dadd dmul dopp deq.
Proof.
  constructor; unfold deq.
  - intros a b H c d H'. rewrite !dval_add, H, H'. reflexivity.
  - intros a b H c d H'. rewrite !dval_mul, H, H'. reflexivity.
  - intros a b H. rewrite !dval_opp, H. reflexivity.
Qed.

Lemma dy_rth : ring_theory d0 d1 dadd dmul dsub dopp deq.
Proof.
  constructor; unfold deq; intros;
    repeat (rewrite ?dval_add, ?dval_mul, ?dval_sub, ?dval_opp, ?dval_0, ?dval_1); ring.
Qed.

Global Instance DyRing : CRing dy := mkCRing dy d0 d1 dadd dmul dsub dopp deq deq_equiv dy_eqe dy_rth.
