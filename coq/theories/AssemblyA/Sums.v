(* Finite sums over a commutative ring.  The ring is a record of operations with a [ring_theory] (setoid
   equality [req]); every theorem is quantified over the record, it is instantiated with Q/Qeq for evaluation
   (instance [QRing]) and can be instantiated with R, Z or pairs of reals (complex numbers).
   Used by the assembler models of C04, C13, C03. *)
From Coq Require Import List Arith Bool Lia Permutation Setoid Morphisms Ring Ring_theory QArith.
Import ListNotations.

Class CRing (A : Type) := mkCRing {
  rO : A; rI : A; radd : A -> A -> A; rmul : A -> A -> A; rsub : A -> A -> A; ropp : A -> A;
  req : A -> A -> Prop;
  Rsth : Equivalence req;
  Reqe : ring_eq_ext radd rmul ropp req;
  Rth : ring_theory rO rI radd rmul rsub ropp req }.

Declare Scope cr_scope.
Delimit Scope cr_scope with cr.
Notation "x == y" := (req x y) (at level 70, no associativity) : cr_scope.
Notation "x + y" := (radd x y) : cr_scope.
Notation "x * y" := (rmul x y) : cr_scope.
Notation "x - y" := (rsub x y) : cr_scope.
Notation "- x" := (ropp x) : cr_scope.
Notation "0" := rO : cr_scope.
Notation "1" := rI : cr_scope.

Global Instance req_equiv {A} {R : CRing A} : Equivalence (@req A R) := Rsth.
Global Instance radd_proper {A} {R : CRing A} : Proper (req ==> req ==> req) (@radd A R) := Radd_ext Reqe.
Global Instance rmul_proper {A} {R : CRing A} : Proper (req ==> req ==> req) (@rmul A R) := Rmul_ext Reqe.
Global Instance ropp_proper {A} {R : CRing A} : Proper (req ==> req) (@ropp A R) := Ropp_ext Reqe.
Global Instance rsub_proper {A} {R : CRing A} : Proper (req ==> req ==> req) (@rsub A R).
Proof.
  intros a b Hab c d Hcd. rewrite (Rsub_def Rth a c), (Rsub_def Rth b d), Hab, Hcd. reflexivity.
Qed.

Lemma Qeqe : ring_eq_ext Qplus Qmult Qopp Qeq.
Proof.
  constructor.
  - intros ? ? H ? ? H'; rewrite H, H'; reflexivity.
  - intros ? ? H ? ? H'; rewrite H, H'; reflexivity.
  - intros ? ? H; rewrite H; reflexivity.
Qed.
Global Instance QRing : CRing Q := mkCRing Q 0%Q 1%Q Qplus Qmult Qminus Qopp Qeq Q_Setoid Qeqe Qsrt.

Local Open Scope cr_scope.

Section Sums.
  Context {A : Type} {R : CRing A}.
  Add Ring Aring : (@Rth A R) (setoid (@Rsth A R) (@Reqe A R)).

  Fixpoint sumf {B : Type} (f : B -> A) (l : list B) : A :=
    match l with [] => 0 | x :: t => f x + sumf f t end.

  Lemma sumf_ext {B} (f g : B -> A) l : (forall x, In x l -> f x == g x) -> sumf f l == sumf g l.
  Proof.
    induction l as [|a l IH]; simpl; intros H; [reflexivity|].
    rewrite (H a (or_introl eq_refl)), IH; [reflexivity|]. intros; apply H; now right.
  Qed.

  Lemma sumf_ext_all {B} (f g : B -> A) l : (forall x, f x == g x) -> sumf f l == sumf g l.
  Proof. intros; apply sumf_ext; auto. Qed.

  Lemma sumf_app {B} (f : B -> A) l1 l2 : sumf f (l1 ++ l2) == sumf f l1 + sumf f l2.
  Proof. induction l1; simpl; [ring|]. rewrite IHl1; ring. Qed.

  Lemma sumf_map {B C} (f : C -> A) (g : B -> C) l : sumf f (map g l) = sumf (fun x => f (g x)) l.
  Proof. induction l; simpl; congruence. Qed.

  Lemma sumf_flat_map {B C} (f : C -> A) (g : B -> list C) l :
    sumf f (flat_map g l) == sumf (fun x => sumf f (g x)) l.
  Proof. induction l; simpl; [reflexivity|]. rewrite sumf_app, IHl; reflexivity. Qed.

  Lemma sumf_concat {B} (f : B -> A) ll : sumf f (concat ll) == sumf (fun l => sumf f l) ll.
  Proof. induction ll; simpl; [reflexivity|]. rewrite sumf_app, IHll; reflexivity. Qed.

  Lemma sumf_zero {B} (f : B -> A) l : (forall x, In x l -> f x == 0) -> sumf f l == 0.
  Proof.
    induction l; simpl; intros H; [reflexivity|].
    rewrite (H a (or_introl eq_refl)), IHl; [ring|]. intros; apply H; now right.
  Qed.

  Lemma sumf_add {B} (f g : B -> A) l : sumf (fun x => f x + g x) l == sumf f l + sumf g l.
  Proof. induction l; simpl; [ring|]. rewrite IHl; ring. Qed.

  Lemma sumf_scal_l {B} (c : A) (f : B -> A) l : sumf (fun x => c * f x) l == c * sumf f l.
  Proof. induction l; simpl; [ring|]. rewrite IHl; ring. Qed.

  Lemma sumf_scal_r {B} (c : A) (f : B -> A) l : sumf (fun x => f x * c) l == sumf f l * c.
  Proof. induction l; simpl; [ring|]. rewrite IHl; ring. Qed.

  Lemma sumf_perm {B} (f : B -> A) l l' : Permutation l l' -> sumf f l == sumf f l'.
  Proof.
    induction 1; simpl.
    - reflexivity.
    - rewrite IHPermutation; reflexivity.
    - ring.
    - etransitivity; eauto.
  Qed.

  Lemma sumf_filter {B} (p : B -> bool) (f : B -> A) l :
    sumf f (filter p l) == sumf (fun x => if p x then f x else 0) l.
  Proof. induction l; simpl; [reflexivity|]. destruct (p a); simpl; rewrite IHl; [reflexivity|ring]. Qed.

  Lemma sumf_exchange {B C} (f : B -> C -> A) l1 l2 :
    sumf (fun x => sumf (fun y => f x y) l2) l1 == sumf (fun y => sumf (fun x => f x y) l1) l2.
  Proof.
    induction l1; simpl.
    - symmetry; apply sumf_zero; reflexivity.
    - rewrite IHl1, <- sumf_add; reflexivity.
  Qed.

  (* a sum against a Kronecker delta over a duplicate-free index list picks one term *)
  Lemma sumf_delta_in (f : nat -> A) k l :
    NoDup l -> In k l -> sumf (fun x => if Nat.eqb x k then f x else 0) l == f k.
  Proof.
    induction l as [|a l IH]; simpl; intros ND Hin; [tauto|].
    inversion ND; subst. destruct (Nat.eqb_spec a k).
    - subst. rewrite sumf_zero; [ring|]. intros x Hx. destruct (Nat.eqb_spec x k); [subst; tauto|reflexivity].
    - destruct Hin; [congruence|]. rewrite IH by assumption. ring.
  Qed.

  Lemma sumf_delta_notin (f : nat -> A) k l :
    ~ In k l -> sumf (fun x => if Nat.eqb x k then f x else 0) l == 0.
  Proof.
    intros H; apply sumf_zero; intros x Hx. destruct (Nat.eqb_spec x k); [subst; tauto|reflexivity].
  Qed.

  Lemma sumf_const_zero {B} (l : list B) : sumf (fun _ => 0) l == 0.
  Proof. apply sumf_zero; reflexivity. Qed.

  Lemma sumf_opp {B} (f : B -> A) l : sumf (fun x => ropp (f x)) l == ropp (sumf f l).
  Proof. induction l; simpl; [ring|]. rewrite IHl; ring. Qed.
End Sums.
