(* C03: rigid-motion invariance and homogeneity of the Laplace Green's-function kernels, stated over the kernels
   regenerated from bempp_cl/core/numba_kernels.py by translators/py_kernels.py (BVgen.NumbaKernels, over R). *)
From Coq Require Import Reals Lra Psatz.
From BVgen Require Import NumbaKernels.
Open Scope R_scope.

(* an orthogonal 3x3 matrix, row-major q_ij, acting on (x0,x1,x2) *)
Definition orth (q00 q01 q02 q10 q11 q12 q20 q21 q22 : R) : Prop :=
  q00 * q00 + q10 * q10 + q20 * q20 = 1 /\ q01 * q01 + q11 * q11 + q21 * q21 = 1 /\
  q02 * q02 + q12 * q12 + q22 * q22 = 1 /\ q00 * q01 + q10 * q11 + q20 * q21 = 0 /\
  q00 * q02 + q10 * q12 + q20 * q22 = 0 /\ q01 * q02 + q11 * q12 + q21 * q22 = 0.

Lemma dot_rot q00 q01 q02 q10 q11 q12 q20 q21 q22 a0 a1 a2 b0 b1 b2 :
  orth q00 q01 q02 q10 q11 q12 q20 q21 q22 ->
  (q00 * a0 + q01 * a1 + q02 * a2) * (q00 * b0 + q01 * b1 + q02 * b2) +
  (q10 * a0 + q11 * a1 + q12 * a2) * (q10 * b0 + q11 * b1 + q12 * b2) +
  (q20 * a0 + q21 * a1 + q22 * a2) * (q20 * b0 + q21 * b1 + q22 * b2) = a0 * b0 + a1 * b1 + a2 * b2.
Proof.
  intros (H1 & H2 & H3 & H4 & H5 & H6).
  replace ((q00 * a0 + q01 * a1 + q02 * a2) * (q00 * b0 + q01 * b1 + q02 * b2) +
           (q10 * a0 + q11 * a1 + q12 * a2) * (q10 * b0 + q11 * b1 + q12 * b2) +
           (q20 * a0 + q21 * a1 + q22 * a2) * (q20 * b0 + q21 * b1 + q22 * b2))
    with ((q00 * q00 + q10 * q10 + q20 * q20) * (a0 * b0) + (q01 * q01 + q11 * q11 + q21 * q21) * (a1 * b1)
          + (q02 * q02 + q12 * q12 + q22 * q22) * (a2 * b2)
          + (q00 * q01 + q10 * q11 + q20 * q21) * (a0 * b1 + a1 * b0)
          + (q00 * q02 + q10 * q12 + q20 * q22) * (a0 * b2 + a2 * b0)
          + (q01 * q02 + q11 * q12 + q21 * q22) * (a1 * b2 + a2 * b1)) by ring.
  rewrite H1, H2, H3, H4, H5, H6. ring.
Qed.

Section Rigid.
  Variables q00 q01 q02 q10 q11 q12 q20 q21 q22 t0 t1 t2 : R.
  Hypothesis HQ : orth q00 q01 q02 q10 q11 q12 q20 q21 q22.
  (* image of a point / of a direction *)
  Let P0 (x0 x1 x2 : R) := q00 * x0 + q01 * x1 + q02 * x2 + t0.
  Let P1 (x0 x1 x2 : R) := q10 * x0 + q11 * x1 + q12 * x2 + t1.
  Let P2 (x0 x1 x2 : R) := q20 * x0 + q21 * x1 + q22 * x2 + t2.
  Let V0 (x0 x1 x2 : R) := q00 * x0 + q01 * x1 + q02 * x2.
  Let V1 (x0 x1 x2 : R) := q10 * x0 + q11 * x1 + q12 * x2.
  Let V2 (x0 x1 x2 : R) := q20 * x0 + q21 * x1 + q22 * x2.

  Lemma dist_rigid x0 x1 x2 y0 y1 y2 :
    0 + (P0 y0 y1 y2 - P0 x0 x1 x2) * (P0 y0 y1 y2 - P0 x0 x1 x2)
      + (P1 y0 y1 y2 - P1 x0 x1 x2) * (P1 y0 y1 y2 - P1 x0 x1 x2)
      + (P2 y0 y1 y2 - P2 x0 x1 x2) * (P2 y0 y1 y2 - P2 x0 x1 x2)
    = 0 + (y0 - x0) * (y0 - x0) + (y1 - x1) * (y1 - x1) + (y2 - x2) * (y2 - x2).
  Proof.
    unfold P0, P1, P2.
    pose proof (dot_rot q00 q01 q02 q10 q11 q12 q20 q21 q22 (y0 - x0) (y1 - x1) (y2 - x2) (y0 - x0) (y1 - x1) (y2 - x2) HQ) as H.
    rewrite <- (Rplus_0_l ((y0 - x0) * (y0 - x0))) in H at 1. lra || nra.
  Qed.

  Lemma proj_rigid x0 x1 x2 y0 y1 y2 n0 n1 n2 :
    0 + (P0 y0 y1 y2 - P0 x0 x1 x2) * V0 n0 n1 n2 + (P1 y0 y1 y2 - P1 x0 x1 x2) * V1 n0 n1 n2
      + (P2 y0 y1 y2 - P2 x0 x1 x2) * V2 n0 n1 n2
    = 0 + (y0 - x0) * n0 + (y1 - x1) * n1 + (y2 - x2) * n2.
  Proof.
    unfold P0, P1, P2, V0, V1, V2.
    pose proof (dot_rot q00 q01 q02 q10 q11 q12 q20 q21 q22 (y0 - x0) (y1 - x1) (y2 - x2) n0 n1 n2 HQ) as H.
    lra || nra.
  Qed.

  Theorem laplace_single_layer_rigid x0 x1 x2 y0 y1 y2 nx0 nx1 nx2 ny0 ny1 ny2 p0 p1 :
    laplace_single_layer_regular (P0 x0 x1 x2) (P1 x0 x1 x2) (P2 x0 x1 x2) (P0 y0 y1 y2) (P1 y0 y1 y2) (P2 y0 y1 y2)
       (V0 nx0 nx1 nx2) (V1 nx0 nx1 nx2) (V2 nx0 nx1 nx2) (V0 ny0 ny1 ny2) (V1 ny0 ny1 ny2) (V2 ny0 ny1 ny2) p0 p1
    = laplace_single_layer_regular x0 x1 x2 y0 y1 y2 nx0 nx1 nx2 ny0 ny1 ny2 p0 p1.
  Proof.
    unfold laplace_single_layer_regular, laplace_single_layer_regular_re, laplace_single_layer_regular_im.
    rewrite dist_rigid. reflexivity.
  Qed.

  Theorem laplace_double_layer_rigid x0 x1 x2 y0 y1 y2 nx0 nx1 nx2 ny0 ny1 ny2 p0 p1 :
    laplace_double_layer_regular (P0 x0 x1 x2) (P1 x0 x1 x2) (P2 x0 x1 x2) (P0 y0 y1 y2) (P1 y0 y1 y2) (P2 y0 y1 y2)
       (V0 nx0 nx1 nx2) (V1 nx0 nx1 nx2) (V2 nx0 nx1 nx2) (V0 ny0 ny1 ny2) (V1 ny0 ny1 ny2) (V2 ny0 ny1 ny2) p0 p1
    = laplace_double_layer_regular x0 x1 x2 y0 y1 y2 nx0 nx1 nx2 ny0 ny1 ny2 p0 p1.
  Proof.
    unfold laplace_double_layer_regular, laplace_double_layer_regular_re, laplace_double_layer_regular_im.
    rewrite dist_rigid, proj_rigid. reflexivity.
  Qed.

  Theorem laplace_adjoint_double_layer_rigid x0 x1 x2 y0 y1 y2 nx0 nx1 nx2 ny0 ny1 ny2 p0 p1 :
    laplace_adjoint_double_layer_regular (P0 x0 x1 x2) (P1 x0 x1 x2) (P2 x0 x1 x2) (P0 y0 y1 y2) (P1 y0 y1 y2) (P2 y0 y1 y2)
       (V0 nx0 nx1 nx2) (V1 nx0 nx1 nx2) (V2 nx0 nx1 nx2) (V0 ny0 ny1 ny2) (V1 ny0 ny1 ny2) (V2 ny0 ny1 ny2) p0 p1
    = laplace_adjoint_double_layer_regular x0 x1 x2 y0 y1 y2 nx0 nx1 nx2 ny0 ny1 ny2 p0 p1.
  Proof.
    unfold laplace_adjoint_double_layer_regular, laplace_adjoint_double_layer_regular_re,
      laplace_adjoint_double_layer_regular_im.
    rewrite dist_rigid, proj_rigid. reflexivity.
  Qed.
End Rigid.

(* ---- homogeneity: scaling the geometry by s > 0 --------------------------------------------------------------- *)
Lemma dist_scale s x0 x1 x2 y0 y1 y2 : 0 < s ->
  sqrt (0 + (s * y0 - s * x0) * (s * y0 - s * x0) + (s * y1 - s * x1) * (s * y1 - s * x1)
          + (s * y2 - s * x2) * (s * y2 - s * x2))
  = s * sqrt (0 + (y0 - x0) * (y0 - x0) + (y1 - x1) * (y1 - x1) + (y2 - x2) * (y2 - x2)).
Proof.
  intros Hs.
  replace (0 + (s * y0 - s * x0) * (s * y0 - s * x0) + (s * y1 - s * x1) * (s * y1 - s * x1)
             + (s * y2 - s * x2) * (s * y2 - s * x2))
    with ((s * s) * (0 + (y0 - x0) * (y0 - x0) + (y1 - x1) * (y1 - x1) + (y2 - x2) * (y2 - x2))) by ring.
  assert (Hn : 0 <= 0 + (y0 - x0) * (y0 - x0) + (y1 - x1) * (y1 - x1) + (y2 - x2) * (y2 - x2)).
  { pose proof (Rle_0_sqr (y0 - x0)); pose proof (Rle_0_sqr (y1 - x1)); pose proof (Rle_0_sqr (y2 - x2)).
    unfold Rsqr in *. lra. }
  assert (Hss : 0 <= s * s) by (pose proof (Rle_0_sqr s); unfold Rsqr in *; lra).
  rewrite sqrt_mult by assumption. rewrite sqrt_square by lra. reflexivity.
Qed.

(* away from the diagonal (x <> y, which is where the regular kernels are evaluated) *)
Theorem laplace_single_layer_homogeneous s x0 x1 x2 y0 y1 y2 nx0 nx1 nx2 ny0 ny1 ny2 p0 p1 :
  0 < s -> 0 < (y0 - x0) * (y0 - x0) + (y1 - x1) * (y1 - x1) + (y2 - x2) * (y2 - x2) ->
  fst (laplace_single_layer_regular (s * x0) (s * x1) (s * x2) (s * y0) (s * y1) (s * y2)
                                    nx0 nx1 nx2 ny0 ny1 ny2 p0 p1)
  = fst (laplace_single_layer_regular x0 x1 x2 y0 y1 y2 nx0 nx1 nx2 ny0 ny1 ny2 p0 p1) / s.
Proof.
  intros Hs Hd. unfold laplace_single_layer_regular, laplace_single_layer_regular_re; simpl fst.
  rewrite dist_scale by assumption.
  assert (0 < sqrt (0 + (y0 - x0) * (y0 - x0) + (y1 - x1) * (y1 - x1) + (y2 - x2) * (y2 - x2))).
  { apply sqrt_lt_R0. lra. }
  field. split; lra.
Qed.

Theorem laplace_double_layer_homogeneous s x0 x1 x2 y0 y1 y2 nx0 nx1 nx2 ny0 ny1 ny2 p0 p1 :
  0 < s -> 0 < (y0 - x0) * (y0 - x0) + (y1 - x1) * (y1 - x1) + (y2 - x2) * (y2 - x2) ->
  fst (laplace_double_layer_regular (s * x0) (s * x1) (s * x2) (s * y0) (s * y1) (s * y2)
                                    nx0 nx1 nx2 ny0 ny1 ny2 p0 p1)
  = fst (laplace_double_layer_regular x0 x1 x2 y0 y1 y2 nx0 nx1 nx2 ny0 ny1 ny2 p0 p1) / (s * s).
Proof.
  intros Hs Hd. unfold laplace_double_layer_regular, laplace_double_layer_regular_re; simpl fst.
  rewrite dist_scale by assumption.
  assert (0 < sqrt (0 + (y0 - x0) * (y0 - x0) + (y1 - x1) * (y1 - x1) + (y2 - x2) * (y2 - x2))).
  { apply sqrt_lt_R0. lra. }
  field. split; lra.
Qed.

Theorem laplace_adjoint_double_layer_homogeneous s x0 x1 x2 y0 y1 y2 nx0 nx1 nx2 ny0 ny1 ny2 p0 p1 :
  0 < s -> 0 < (y0 - x0) * (y0 - x0) + (y1 - x1) * (y1 - x1) + (y2 - x2) * (y2 - x2) ->
  fst (laplace_adjoint_double_layer_regular (s * x0) (s * x1) (s * x2) (s * y0) (s * y1) (s * y2)
                                            nx0 nx1 nx2 ny0 ny1 ny2 p0 p1)
  = fst (laplace_adjoint_double_layer_regular x0 x1 x2 y0 y1 y2 nx0 nx1 nx2 ny0 ny1 ny2 p0 p1) / (s * s).
Proof.
  intros Hs Hd. unfold laplace_adjoint_double_layer_regular, laplace_adjoint_double_layer_regular_re; simpl fst.
  rewrite dist_scale by assumption.
  assert (0 < sqrt (0 + (y0 - x0) * (y0 - x0) + (y1 - x1) * (y1 - x1) + (y2 - x2) * (y2 - x2))).
  { apply sqrt_lt_R0. lra. }
  field. split; lra.
Qed.

Lemma laplace_rigid_all :
  forall q00 q01 q02 q10 q11 q12 q20 q21 q22 t0 t1 t2 : R,
    orth q00 q01 q02 q10 q11 q12 q20 q21 q22 ->
    let P0 := fun x0 x1 x2 => (q00 * x0 + q01 * x1 + q02 * x2 + t0)%R in
    let P1 := fun x0 x1 x2 => (q10 * x0 + q11 * x1 + q12 * x2 + t1)%R in
    let P2 := fun x0 x1 x2 => (q20 * x0 + q21 * x1 + q22 * x2 + t2)%R in
    let V0 := fun x0 x1 x2 => (q00 * x0 + q01 * x1 + q02 * x2)%R in
    let V1 := fun x0 x1 x2 => (q10 * x0 + q11 * x1 + q12 * x2)%R in
    let V2 := fun x0 x1 x2 => (q20 * x0 + q21 * x1 + q22 * x2)%R in
    forall x0 x1 x2 y0 y1 y2 nx0 nx1 nx2 ny0 ny1 ny2 p0 p1 : R,
      laplace_single_layer_regular (P0 x0 x1 x2) (P1 x0 x1 x2) (P2 x0 x1 x2) (P0 y0 y1 y2) (P1 y0 y1 y2) (P2 y0 y1 y2)
         (V0 nx0 nx1 nx2) (V1 nx0 nx1 nx2) (V2 nx0 nx1 nx2) (V0 ny0 ny1 ny2) (V1 ny0 ny1 ny2) (V2 ny0 ny1 ny2) p0 p1
      = laplace_single_layer_regular x0 x1 x2 y0 y1 y2 nx0 nx1 nx2 ny0 ny1 ny2 p0 p1 /\
      laplace_double_layer_regular (P0 x0 x1 x2) (P1 x0 x1 x2) (P2 x0 x1 x2) (P0 y0 y1 y2) (P1 y0 y1 y2) (P2 y0 y1 y2)
         (V0 nx0 nx1 nx2) (V1 nx0 nx1 nx2) (V2 nx0 nx1 nx2) (V0 ny0 ny1 ny2) (V1 ny0 ny1 ny2) (V2 ny0 ny1 ny2) p0 p1
      = laplace_double_layer_regular x0 x1 x2 y0 y1 y2 nx0 nx1 nx2 ny0 ny1 ny2 p0 p1 /\
      laplace_adjoint_double_layer_regular (P0 x0 x1 x2) (P1 x0 x1 x2) (P2 x0 x1 x2) (P0 y0 y1 y2) (P1 y0 y1 y2) (P2 y0 y1 y2)
         (V0 nx0 nx1 nx2) (V1 nx0 nx1 nx2) (V2 nx0 nx1 nx2) (V0 ny0 ny1 ny2) (V1 ny0 ny1 ny2) (V2 ny0 ny1 ny2) p0 p1
      = laplace_adjoint_double_layer_regular x0 x1 x2 y0 y1 y2 nx0 nx1 nx2 ny0 ny1 ny2 p0 p1.
Proof.
  intros. repeat split;
    [apply laplace_single_layer_rigid | apply laplace_double_layer_rigid | apply laplace_adjoint_double_layer_rigid];
    assumption.
Qed.

Lemma laplace_homogeneous_all :
  forall s x0 x1 x2 y0 y1 y2 nx0 nx1 nx2 ny0 ny1 ny2 p0 p1 : R,
    (0 < s)%R -> (0 < (y0 - x0) * (y0 - x0) + (y1 - x1) * (y1 - x1) + (y2 - x2) * (y2 - x2))%R ->
    fst (laplace_single_layer_regular (s * x0) (s * x1) (s * x2) (s * y0) (s * y1) (s * y2) nx0 nx1 nx2 ny0 ny1 ny2 p0 p1)
    = (fst (laplace_single_layer_regular x0 x1 x2 y0 y1 y2 nx0 nx1 nx2 ny0 ny1 ny2 p0 p1) / s)%R /\
    fst (laplace_double_layer_regular (s * x0) (s * x1) (s * x2) (s * y0) (s * y1) (s * y2) nx0 nx1 nx2 ny0 ny1 ny2 p0 p1)
    = (fst (laplace_double_layer_regular x0 x1 x2 y0 y1 y2 nx0 nx1 nx2 ny0 ny1 ny2 p0 p1) / (s * s))%R /\
    fst (laplace_adjoint_double_layer_regular (s * x0) (s * x1) (s * x2) (s * y0) (s * y1) (s * y2) nx0 nx1 nx2 ny0 ny1 ny2 p0 p1)
    = (fst (laplace_adjoint_double_layer_regular x0 x1 x2 y0 y1 y2 nx0 nx1 nx2 ny0 ny1 ny2 p0 p1) / (s * s))%R.
Proof.
  intros. repeat split;
    [apply laplace_single_layer_homogeneous | apply laplace_double_layer_homogeneous
     | apply laplace_adjoint_double_layer_homogeneous]; assumption.
Qed.
