(* C13 / C04 (sparse part): theorems about the sparse assembler model and the grid-function routines of
   AssemblyA/Sparse.v, for every commutative ring. *)
From Coq Require Import List Arith Bool Lia Permutation Setoid Morphisms Ring Ring_theory.
From BV Require Import AssemblyA.Sums AssemblyA.Mat AssemblyA.Dense AssemblyA.Sparse AssemblyA.Congruence.
Import ListNotations.
Local Open Scope cr_scope.

Section L2.
  Context {A : Type} {R : CRing A}.
  Add Ring AringL : (@Rth A R) (setoid (@Rsth A R) (@Reqe A R)).

  Lemma sum_prod {B C} (f : B -> A) (g : C -> A) l1 l2 :
    sumf f l1 * sumf g l2 == sumf (fun x => sumf (fun y => f x * g y) l2) l1.
  Proof.
    induction l1; simpl; [ring|]. rewrite <- IHl1, sumf_scal_l. ring.
  Qed.

  Definition delta (r : nat) : nat -> A := fun p => if Nat.eqb p r then 1 else 0.

  (* ---- scatter against vectors --------------------------------------------------------------------------- *)
  Lemma mvec_scatter (J : list nat) (L : list trip) (x : nat -> A) r :
    NoDup J -> (forall t, In t L -> In (t_col t) J) ->
    mvec J (scatter L) x r == sumf (fun t => delta r (t_row t) * t_val t * x (t_col t)) L.
  Proof.
    intros NJ. induction L as [|t L IH]; intros H; unfold mvec in *.
    - simpl. apply sumf_zero; intros; unfold scatter; simpl; ring.
    - simpl sumf at 2. rewrite <- IH by (intros; apply H; now right).
      transitivity (sumf (fun c => entry t r c * x c) J + sumf (fun c => scatter L r c * x c) J).
      + rewrite <- sumf_add. apply sumf_ext_all; intros c. unfold scatter; simpl. ring.
      + apply radd_proper; [|reflexivity].
        transitivity (sumf (fun c => if Nat.eqb c (t_col t) then delta r (t_row t) * t_val t * x c else 0) J).
        * apply sumf_ext_all; intros c. unfold entry, delta. rewrite (Nat.eqb_sym (t_row t) r).
          destruct (Nat.eqb r (t_row t)), (Nat.eqb c (t_col t)); simpl; ring.
        * rewrite (sumf_delta_in (fun c => delta r (t_row t) * t_val t * x c)); auto; [reflexivity|].
          apply H; now left.
  Qed.

  Lemma bilin_scatter (I J : list nat) (L : list trip) (y x : nat -> A) :
    NoDup I -> NoDup J -> (forall t, In t L -> In (t_row t) I /\ In (t_col t) J) ->
    bilin I J y (scatter L) x == sumf (fun t => y (t_row t) * t_val t * x (t_col t)) L.
  Proof.
    intros NI NJ H. unfold bilin.
    transitivity (sumf (fun r => sumf (fun t => y r * (delta r (t_row t) * t_val t * x (t_col t))) L) I).
    - apply sumf_ext_all; intros r. rewrite mvec_scatter; auto; [|intros; now apply H].
      rewrite sumf_scal_l. reflexivity.
    - rewrite sumf_exchange. apply sumf_ext; intros t Ht.
      transitivity (sumf (fun r => if Nat.eqb r (t_row t) then y r * t_val t * x (t_col t) else 0) I).
      + apply sumf_ext_all; intros r. unfold delta. rewrite (Nat.eqb_sym (t_row t) r).
        destruct (Nat.eqb r (t_row t)); ring.
      + rewrite (sumf_delta_in (fun r => y r * t_val t * x (t_col t))); auto; [reflexivity|]. now apply H.
  Qed.

  Lemma entry_scatter (L : list trip) r c :
    scatter L r c == sumf (fun t => delta r (t_row t) * t_val t * delta c (t_col t)) L.
  Proof.
    unfold scatter. apply sumf_ext_all; intros t. unfold entry, delta.
    rewrite (Nat.eqb_sym (t_row t) r), (Nat.eqb_sym (t_col t) c).
    destruct (Nat.eqb r (t_row t)), (Nat.eqb c (t_col t)); simpl; ring.
  Qed.

  (* ---- the sparse matrix as a Gram sum ---------------------------------------------------------------------- *)
  (* local values of the form  sum_k a(e,i,k) b(e,j,k) wt(e,k):  k ranges over (component, quadrature point) *)
  Definition gram_local {B} (K : list B) (wt : nat -> B -> A) (a b : nat -> nat -> B -> A) (e i j : nat) : A :=
    sumf (fun k => a e i k * b e j k * wt e k) K.

  (* value at k of the function with coefficient vector y:  sum_i y[l2g(e,i)] * mult(e,i) * a(e,i,k) *)
  Definition fval {B} (y : nat -> A) (S : space A) (a : nat -> nat -> B -> A) (e : nat) (k : B) : A :=
    sumf (fun i => y (sp_l2g S e i) * sp_mult S e i * a e i k) (seq 0 (sp_ns S)).

  Lemma sum_sparse_local (g : lent A -> A) Lsp ns_t ns_r elems :
    sumf g (sparse_local Lsp ns_t ns_r elems) ==
    sumf (fun e => sumf (fun i => sumf (fun j => g (e, i, e, j, Lsp e i j)) (seq 0 ns_r)) (seq 0 ns_t)) elems.
  Proof.
    unfold sparse_local. rewrite sumf_flat_map. apply sumf_ext_all; intros e.
    rewrite sumf_flat_map. apply sumf_ext_all; intros i. rewrite sumf_map. reflexivity.
  Qed.

  Lemma gram_algebra {B} (K : list B) wt a b (St Sr : space A) (y x : nat -> A) elems :
    sumf (fun t => y (t_row t) * t_val t * x (t_col t))
         (map (glob_singular St Sr) (sparse_local (gram_local K wt a b) (sp_ns St) (sp_ns Sr) elems)) ==
    sumf (fun e => sumf (fun k => fval y St a e k * fval x Sr b e k * wt e k) K) elems.
  Proof.
    rewrite sumf_map, sum_sparse_local. apply sumf_ext_all; intros e.
    unfold glob_singular, t_row, t_col, t_val; simpl. unfold gram_local.
    transitivity (sumf (fun k => sumf (fun i => sumf (fun j =>
        (y (sp_l2g St e i) * sp_mult St e i * a e i k) * (x (sp_l2g Sr e j) * sp_mult Sr e j * b e j k) * wt e k)
        (seq 0 (sp_ns Sr))) (seq 0 (sp_ns St))) K).
    - symmetry. rewrite sumf_exchange. apply sumf_ext_all; intros i.
      rewrite sumf_exchange. apply sumf_ext_all; intros j.
      transitivity (sumf (fun k => (y (sp_l2g St e i) * sp_mult St e i * x (sp_l2g Sr e j) * sp_mult Sr e j)
                                   * (a e i k * b e j k * wt e k)) K).
      + apply sumf_ext_all; intros k. ring.
      + rewrite sumf_scal_l. ring.
    - apply sumf_ext_all; intros k. unfold fval. rewrite sum_prod, <- sumf_scal_r.
      apply sumf_ext_all; intros i. rewrite <- sumf_scal_r. apply sumf_ext_all; intros j. ring.
  Qed.

  Definition dofs_in (I : list nat) (S : space A) (elems : list nat) : Prop :=
    forall e i, In e elems -> (i < sp_ns S)%nat -> In (sp_l2g S e i) I.

  Lemma in_sparse_local Lsp ns_t ns_r elems te i tr j (v : A) :
    In (te, i, tr, j, v) (sparse_local Lsp ns_t ns_r elems) ->
    In te elems /\ tr = te /\ (i < ns_t)%nat /\ (j < ns_r)%nat.
  Proof.
    unfold sparse_local. rewrite in_flat_map. intros (e & He & H).
    rewrite in_flat_map in H. destruct H as (i' & Hi & H).
    rewrite in_map_iff in H. destruct H as (j' & E & Hj). inversion E; subst.
    apply in_seq in Hi, Hj. repeat split; auto; lia.
  Qed.

  (* y' M x = sum over common-support elements and quadrature points of u_y * u_x * weight *)
  Theorem sparse_bilinear_form {B} (K : list B) wt a b nel (St Sr : space A) (I J : list nat) (y x : nat -> A) :
    NoDup I -> NoDup J ->
    dofs_in I St (sparse_elements nel St Sr) -> dofs_in J Sr (sparse_elements nel St Sr) ->
    bilin I J y (sparse_core nel (gram_local K wt a b) St Sr) x ==
    sumf (fun e => sumf (fun k => fval y St a e k * fval x Sr b e k * wt e k) K) (sparse_elements nel St Sr).
  Proof.
    intros NI NJ HI HJ. unfold sparse_core. rewrite bilin_scatter; auto.
    - apply gram_algebra.
    - intros t Ht. apply in_map_iff in Ht. destruct Ht as ([[[[te i] tr] j] v] & <- & Hx).
      apply in_sparse_local in Hx. destruct Hx as (He & -> & Hi & Hj).
      unfold glob_singular, t_row, t_col; simpl. split; [apply HI | apply HJ]; auto.
  Qed.

  Theorem sparse_entry {B} (K : list B) wt a b nel (St Sr : space A) r c :
    sparse_core nel (gram_local K wt a b) St Sr r c ==
    sumf (fun e => sumf (fun k => fval (delta r) St a e k * fval (delta c) Sr b e k * wt e k) K)
         (sparse_elements nel St Sr).
  Proof. unfold sparse_core. rewrite entry_scatter. apply gram_algebra. Qed.

  Lemma sparse_elements_sym nel (S : space A) : sparse_elements nel S S = support_elements nel S.
  Proof.
    unfold sparse_elements, support_elements. apply filter_ext. intros e. destruct (sp_support S e); reflexivity.
  Qed.

  Theorem sparse_symmetric {B} (K : list B) wt a nel (S : space A) r c :
    sparse_core nel (gram_local K wt a a) S S r c == sparse_core nel (gram_local K wt a a) S S c r.
  Proof.
    rewrite !sparse_entry. apply sumf_ext_all; intros e. apply sumf_ext_all; intros k. ring.
  Qed.

  (* partition of unity: if the basis functions (with multipliers) sum to one at every quadrature point, the
     entries of the matrix sum to  sum_e sum_k wt(e,k) *)
  Theorem sparse_partition_sum {B} (K : list B) wt a b nel (St Sr : space A) (I J : list nat) :
    NoDup I -> NoDup J ->
    dofs_in I St (sparse_elements nel St Sr) -> dofs_in J Sr (sparse_elements nel St Sr) ->
    (forall e k, In e (sparse_elements nel St Sr) -> In k K -> fval (fun _ => 1) St a e k == 1) ->
    (forall e k, In e (sparse_elements nel St Sr) -> In k K -> fval (fun _ => 1) Sr b e k == 1) ->
    bilin I J (fun _ => 1) (sparse_core nel (gram_local K wt a b) St Sr) (fun _ => 1) ==
    sumf (fun e => sumf (fun k => wt e k) K) (sparse_elements nel St Sr).
  Proof.
    intros NI NJ HI HJ Ht Hr. rewrite sparse_bilinear_form; auto.
    apply sumf_ext; intros e He. apply sumf_ext; intros k Hk. rewrite Ht, Hr; auto. ring.
  Qed.

  (* rows annihilate constants when the trial functions (gradients) sum to zero at every point *)
  Theorem sparse_annihilates_constants {B} (K : list B) wt a b nel (St Sr : space A) (J : list nat) r :
    NoDup J -> dofs_in J Sr (sparse_elements nel St Sr) ->
    (forall e k, In e (sparse_elements nel St Sr) -> In k K -> fval (fun _ => 1) Sr b e k == 0) ->
    mvec J (sparse_core nel (gram_local K wt a b) St Sr) (fun _ => 1) r == 0.
  Proof.
    intros NJ HJ Hz. unfold sparse_core. rewrite mvec_scatter; auto.
    - transitivity (sumf (fun t => delta r (t_row t) * t_val t * (fun _ => 1) (t_col t))
                         (map (glob_singular St Sr)
                              (sparse_local (gram_local K wt a b) (sp_ns St) (sp_ns Sr) (sparse_elements nel St Sr)))).
      + reflexivity.
      + rewrite (gram_algebra K wt a b St Sr (delta r) (fun _ => 1)).
        apply sumf_zero; intros e He. apply sumf_zero; intros k Hk. rewrite Hz; auto. ring.
    - intros t Ht. apply in_map_iff in Ht. destruct Ht as ([[[[te i] tr] j] v] & <- & Hx).
      apply in_sparse_local in Hx. destruct Hx as (He & -> & Hi & Hj).
      unfold glob_singular, t_col; simpl. apply HJ; auto.
  Qed.

  (* quadratic form as a weighted sum of squares (positive semi-definiteness over an ordered ring follows
     when the weights wt(e,k) are non-negative; see [gram_nonneg_Q]) *)
  Theorem sparse_quadratic_form {B} (K : list B) wt a nel (S : space A) (I : list nat) (x : nat -> A) :
    NoDup I -> dofs_in I S (support_elements nel S) ->
    bilin I I x (sparse_core nel (gram_local K wt a a) S S) x ==
    sumf (fun e => sumf (fun k => fval x S a e k * fval x S a e k * wt e k) K) (support_elements nel S).
  Proof.
    intros NI HI. rewrite <- sparse_elements_sym. apply sparse_bilinear_form; auto; rewrite sparse_elements_sym; auto.
  Qed.

  (* ---- the code's local kernels are Gram sums ----------------------------------------------------------------- *)
  Definition qidx (dim : nat) (rule : list (pt2 A * A)) : list (nat * (pt2 A * A)) := list_prod (seq 0 dim) rule.
  Definition qweight (intel : nat -> A) : nat -> nat * (pt2 A * A) -> A := fun e k => snd (snd k) * intel e.
  Definition at_q (b : basisfn) : nat -> nat -> nat * (pt2 A * A) -> A := fun e i k => b e i (fst (snd k)) (fst k).

  Lemma sumf_list_prod {B C} (f : B * C -> A) l1 l2 :
    sumf f (list_prod l1 l2) == sumf (fun x => sumf (fun y => f (x, y)) l2) l1.
  Proof.
    induction l1; simpl; [reflexivity|]. rewrite sumf_app, sumf_map, IHl1. reflexivity.
  Qed.

  Lemma Lsp_identity_gram dim rule intel bt br e i j :
    Lsp_identity dim rule intel bt br e i j ==
    gram_local (qidx dim rule) (qweight intel) (at_q bt) (at_q br) e i j.
  Proof.
    unfold Lsp_identity, gram_local, qidx. rewrite sumf_list_prod.
    apply sumf_ext_all; intros d. apply sumf_ext_all; intros q. unfold qweight, at_q; simpl. ring.
  Qed.

  Lemma Lsp_lb_gram rule intel gt gr e i j :
    Lsp_lb rule intel gt gr e i j == gram_local (qidx 3 rule) (qweight intel) (at_q gt) (at_q gr) e i j.
  Proof.
    unfold Lsp_lb, gram_local, qidx. rewrite sumf_list_prod.
    apply sumf_ext_all; intros d. apply sumf_ext_all; intros q. unfold qweight, at_q; simpl. ring.
  Qed.

  Lemma sparse_core_ext nel Lsp Lsp' (St Sr : space A) :
    (forall e i j, Lsp e i j == Lsp' e i j) -> meq (sparse_core nel Lsp St Sr) (sparse_core nel Lsp' St Sr).
  Proof.
    intros H r c. unfold sparse_core, scatter. rewrite !sumf_map, !sum_sparse_local.
    apply sumf_ext_all; intros e. apply sumf_ext_all; intros i. apply sumf_ext_all; intros j.
    unfold glob_singular, entry, t_row, t_col, t_val; simpl.
    destruct (Nat.eqb r (sp_l2g St e i) && Nat.eqb c (sp_l2g Sr e j)); [|reflexivity]. rewrite H; reflexivity.
  Qed.

  Lemma bilin_ext I J y M M' x : meq M M' -> bilin I J y M x == bilin I J y M' x.
  Proof.
    intros H. unfold bilin, mvec. apply sumf_ext_all; intros r. apply rmul_proper; [reflexivity|].
    apply sumf_ext_all; intros c. rewrite (H r c); reflexivity.
  Qed.
  Lemma mvec_ext J M M' x r : meq M M' -> mvec J M x r == mvec J M' x r.
  Proof. intros H. unfold mvec. apply sumf_ext_all; intros c. rewrite (H r c); reflexivity. Qed.

  (* value of the discrete function with coefficients y at quadrature point q, component d *)
  Definition uval (y : nat -> A) (S : space A) (b : basisfn) (e : nat) (p : pt2 A) (d : nat) : A :=
    sumf (fun i => y (sp_l2g S e i) * sp_mult S e i * b e i p d) (seq 0 (sp_ns S)).

  (* identity operator: y' M x = sum_e J_e sum_q w_q sum_d u_y(e,q,d) u_x(e,q,d) *)
  Theorem identity_bilinear_form dim rule intel bt br nel (St Sr : space A) (I J : list nat) (y x : nat -> A) :
    NoDup I -> NoDup J ->
    dofs_in I St (sparse_elements nel St Sr) -> dofs_in J Sr (sparse_elements nel St Sr) ->
    bilin I J y (sparse_core nel (Lsp_identity dim rule intel bt br) St Sr) x ==
    sumf (fun e => sumf (fun d => sumf (fun q =>
            uval y St bt e (fst q) d * uval x Sr br e (fst q) d * (snd q * intel e)) rule) (seq 0 dim))
         (sparse_elements nel St Sr).
  Proof.
    intros NI NJ HI HJ.
    rewrite (bilin_ext I J y _ _ x (sparse_core_ext nel _ _ St Sr (Lsp_identity_gram dim rule intel bt br))).
    rewrite sparse_bilinear_form; auto. apply sumf_ext_all; intros e. unfold qidx. rewrite sumf_list_prod.
    reflexivity.
  Qed.

  Theorem identity_entry dim rule intel bt br nel (St Sr : space A) r c :
    sparse_core nel (Lsp_identity dim rule intel bt br) St Sr r c ==
    sumf (fun e => sumf (fun d => sumf (fun q =>
            uval (delta r) St bt e (fst q) d * uval (delta c) Sr br e (fst q) d * (snd q * intel e)) rule) (seq 0 dim))
         (sparse_elements nel St Sr).
  Proof.
    rewrite (sparse_core_ext nel _ _ St Sr (Lsp_identity_gram dim rule intel bt br) r c).
    rewrite sparse_entry. apply sumf_ext_all; intros e. unfold qidx. rewrite sumf_list_prod. reflexivity.
  Qed.

  Theorem identity_symmetric dim rule intel b nel (S : space A) r c :
    sparse_core nel (Lsp_identity dim rule intel b b) S S r c == sparse_core nel (Lsp_identity dim rule intel b b) S S c r.
  Proof.
    rewrite !identity_entry. apply sumf_ext_all; intros e. apply sumf_ext_all; intros d.
    apply sumf_ext_all; intros q. ring.
  Qed.

  Theorem lb_symmetric rule intel g nel (S : space A) r c :
    sparse_core nel (Lsp_lb rule intel g g) S S r c == sparse_core nel (Lsp_lb rule intel g g) S S c r.
  Proof.
    rewrite (sparse_core_ext nel _ _ S S (Lsp_lb_gram rule intel g g) r c).
    rewrite (sparse_core_ext nel _ _ S S (Lsp_lb_gram rule intel g g) c r). apply sparse_symmetric.
  Qed.

  (* partition-of-unity bases: entries sum to (sum of weights) * (sum of integration elements) *)
  Theorem identity_partition_sum rule intel bt br nel (St Sr : space A) (I J : list nat) :
    NoDup I -> NoDup J ->
    dofs_in I St (sparse_elements nel St Sr) -> dofs_in J Sr (sparse_elements nel St Sr) ->
    (forall e q, In e (sparse_elements nel St Sr) -> In q rule -> uval (fun _ => 1) St bt e (fst q) 0%nat == 1) ->
    (forall e q, In e (sparse_elements nel St Sr) -> In q rule -> uval (fun _ => 1) Sr br e (fst q) 0%nat == 1) ->
    bilin I J (fun _ => 1) (sparse_core nel (Lsp_identity 1 rule intel bt br) St Sr) (fun _ => 1) ==
    sumf (fun q => snd q) rule * sumf intel (sparse_elements nel St Sr).
  Proof.
    intros NI NJ HI HJ Ht Hr. rewrite identity_bilinear_form; auto.
    transitivity (sumf (fun e => sumf (fun q => snd q * intel e) rule) (sparse_elements nel St Sr)).
    - apply sumf_ext; intros e He. change (seq 0 1) with [0%nat].
      transitivity (sumf (fun q => snd q * intel e) rule + 0); [|ring].
      apply radd_proper; [|reflexivity]. apply sumf_ext; intros q Hq. rewrite Ht, Hr; auto. ring.
    - rewrite sum_prod, sumf_exchange. reflexivity.
  Qed.

  (* P1 shape functions sum to one; P1 reference gradients sum to zero *)
  Lemma shape_p1_sum (p : pt2 A) : sumf (fun i => shape_p1 i p) (seq 0 3) == 1.
  Proof. simpl. ring. Qed.

  Lemma grad_p1_sum jit e p d : sumf (fun i => grad_p1 jit e i p d) (seq 0 3) == 0.
  Proof.
    unfold grad_p1, jac_dot, comp3. simpl. destruct (jit e) as [[[a0 a1] a2] [[b0 b1] b2]].
    destruct d as [|[|d]]; simpl; ring.
  Qed.

  (* Laplace-Beltrami: rows annihilate constants for a unit-multiplier P1-type trial space *)
  Theorem lb_annihilates_constants rule intel jit (gt : basisfn) nel (St Sr : space A) (J : list nat) r :
    NoDup J -> dofs_in J Sr (sparse_elements nel St Sr) -> sp_ns Sr = 3%nat ->
    (forall e i, In e (sparse_elements nel St Sr) -> (i < 3)%nat -> sp_mult Sr e i == 1) ->
    mvec J (sparse_core nel (Lsp_lb rule intel gt (grad_p1 jit)) St Sr) (fun _ => 1) r == 0.
  Proof.
    intros NJ HJ Hns Hm.
    rewrite (mvec_ext J _ _ _ r (sparse_core_ext nel _ _ St Sr (Lsp_lb_gram rule intel gt (grad_p1 jit)))).
    apply sparse_annihilates_constants; auto.
    intros e k He Hk. unfold fval. rewrite Hns.
    transitivity (sumf (fun i => grad_p1 jit e i (fst (snd k)) (fst k)) (seq 0 3)); [|apply grad_p1_sum].
    apply sumf_ext; intros i Hi. apply in_seq in Hi. unfold at_q. rewrite Hm by (auto; lia). ring.
  Qed.

  (* quadratic forms of identity and Laplace-Beltrami as weighted sums of squares *)
  Theorem identity_quadratic_form dim rule intel b nel (S : space A) (I : list nat) (x : nat -> A) :
    NoDup I -> dofs_in I S (support_elements nel S) ->
    bilin I I x (sparse_core nel (Lsp_identity dim rule intel b b) S S) x ==
    sumf (fun e => sumf (fun d => sumf (fun q =>
            uval x S b e (fst q) d * uval x S b e (fst q) d * (snd q * intel e)) rule) (seq 0 dim))
         (support_elements nel S).
  Proof.
    intros NI HI. rewrite <- sparse_elements_sym. apply identity_bilinear_form; auto; rewrite sparse_elements_sym; auto.
  Qed.

  Theorem lb_quadratic_form rule intel g nel (S : space A) (I : list nat) (x : nat -> A) :
    NoDup I -> dofs_in I S (support_elements nel S) ->
    bilin I I x (sparse_core nel (Lsp_lb rule intel g g) S S) x ==
    sumf (fun e => sumf (fun d => sumf (fun q =>
            uval x S g e (fst q) d * uval x S g e (fst q) d * (snd q * intel e)) rule) (seq 0 3))
         (support_elements nel S).
  Proof.
    intros NI HI.
    rewrite (bilin_ext I I x _ _ x (sparse_core_ext nel _ _ S S (Lsp_lb_gram rule intel g g))).
    rewrite sparse_quadratic_form; auto. apply sumf_ext_all; intros e. unfold qidx. rewrite sumf_list_prod.
    reflexivity.
  Qed.
End L2.
