(* C04 (nesting facts): model of Grid.refine (api/grid/grid.py:431-464) and the facts that make the refined grid
   a nested one: children 4e..4e+3 carry the parent's domain index, their vertices are parent vertices and edge
   midpoints, every child has the parent's orientation and a quarter of its (vector) area, the P1 prolongation
   defined by the midpoints has rows summing to one.  The statement P' A_fine P = A_coarse up to quadrature error is
   analytic and not proved here. *)
From Coq Require Import List Arith Bool Lia Setoid Morphisms Ring Ring_theory.
From BV Require Import AssemblyA.Sums AssemblyA.Mat AssemblyA.Dense AssemblyA.Equivariance.
Import ListNotations.
Local Open Scope cr_scope.

(* new_elements[:, 4*index + k], with vertexAB = element_edges[., index] + number_of_vertices *)
Definition refine_elements (nv : nat) (els edges_of : list (nat * nat * nat)) : list (nat * nat * nat) :=
  flat_map (fun ee => let '((v0, v1, v2), (e0, e1, e2)) := ee in
              let v01 := (e0 + nv)%nat in let v20 := (e1 + nv)%nat in let v12 := (e2 + nv)%nat in
              [(v0, v01, v20); (v01, v1, v12); (v12, v2, v20); (v01, v12, v20)]) (combine els edges_of).
(* np.repeat(domain_indices, 4) *)
Definition refine_domains (dom : list nat) : list nat := flat_map (fun d => [d; d; d; d]) dom.

Lemma refine_domains_nth dom e k d : (k < 4)%nat -> nth (4 * e + k) (refine_domains dom) d = nth e dom d.
Proof.
  revert e. induction dom as [|x dom IH]; intros e Hk.
  - unfold refine_domains; simpl flat_map. generalize (4 * e + k)%nat; intros n. destruct n, e; reflexivity.
  - destruct e as [|e].
    + simpl. destruct k as [|[|[|[|k]]]]; try reflexivity; lia.
    + replace (4 * S e + k)%nat with (S (S (S (S (4 * e + k))))) by lia. simpl. apply IH; assumption.
Qed.

Lemma refine_elements_nth nv els edges_of e k d v0 v1 v2 e0 e1 e2 :
  length els = length edges_of -> (e < length els)%nat ->
  nth e els d = (v0, v1, v2) -> nth e edges_of d = (e0, e1, e2) -> (k < 4)%nat ->
  nth (4 * e + k) (refine_elements nv els edges_of) d =
  nth k [(v0, (e0 + nv)%nat, (e1 + nv)%nat); ((e0 + nv)%nat, v1, (e2 + nv)%nat);
         ((e2 + nv)%nat, v2, (e1 + nv)%nat); ((e0 + nv)%nat, (e2 + nv)%nat, (e1 + nv)%nat)] d.
Proof.
  unfold refine_elements. revert edges_of e. induction els as [|x els IH]; intros edges_of e Hl He Hx Hy Hk.
  - simpl in He; lia.
  - destruct edges_of as [|y edges_of]; [discriminate|]. simpl in Hl.
    destruct e as [|e].
    + simpl in Hx, Hy. subst x y. simpl. destruct k as [|[|[|[|k]]]]; try reflexivity; lia.
    + replace (4 * S e + k)%nat with (S (S (S (S (4 * e + k))))) by lia.
      simpl combine. cbn [flat_map]. destruct x as [[a b] c], y as [[p q] r]. simpl app.
      apply IH; auto; simpl in He; lia.
Qed.

Section RefineGeometry.
  Context {A : Type} {R : CRing A}.
  Add Ring AringR : (@Rth A R) (setoid (@Rsth A R) (@Reqe A R)).

  (* h is one half: the midpoint of a and b is h*(a+b) (0.5 * (vertices[edges[0]] + vertices[edges[1]])) *)
  Definition midpoint (h : A) (a b : pt3 A) : pt3 A := scale3 h (add3 a b).

  Lemma eq3_trans (a b c : pt3 A) : eq3 a b -> eq3 b c -> eq3 a c.
  Proof.
    destruct a as [[a0 a1] a2], b as [[b0 b1] b2], c as [[c0 c1] c2]; simpl.
    intros (H0 & H1 & H2) (K0 & K1 & K2). repeat split; etransitivity; eauto.
  Qed.

  Lemma cross_ext (a a' b b' : pt3 A) : eq3 a a' -> eq3 b b' -> eq3 (cross a b) (cross a' b').
  Proof.
    destruct a as [[a0 a1] a2], a' as [[p0 p1] p2], b as [[b0 b1] b2], b' as [[q0 q1] q2]; simpl.
    intros (H0 & H1 & H2) (K0 & K1 & K2). rewrite H0, H1, H2, K0, K1, K2. repeat split; reflexivity.
  Qed.

  Lemma cross_scale (h : A) (u w : pt3 A) : eq3 (cross (scale3 h u) (scale3 h w)) (scale3 (h * h) (cross u w)).
  Proof. destruct u as [[u0 u1] u2], w as [[w0 w1] w2]; simpl. repeat split; ring. Qed.

  Lemma half_sub (h a b : A) : h + h == 1 -> h * (a + b) - a == h * (b - a).
  Proof. intros Hh. transitivity (h * (a + b) - (h + h) * a); [rewrite Hh; ring | ring]. Qed.
  Lemma half_sub' (h a b : A) : h + h == 1 -> h * (b + a) - a == h * (b - a).
  Proof. intros Hh. transitivity (h * (b + a) - (h + h) * a); [rewrite Hh; ring | ring]. Qed.
  Lemma half_sub2 (h a b : A) : h + h == 1 -> b - h * (a + b) == h * (b - a).
  Proof. intros Hh. transitivity ((h + h) * b - h * (a + b)); [rewrite Hh; ring | ring]. Qed.
  Lemma half_sub2' (h a b : A) : h + h == 1 -> b - h * (b + a) == h * (b - a).
  Proof. intros Hh. transitivity ((h + h) * b - h * (b + a)); [rewrite Hh; ring | ring]. Qed.

  (* edge vectors of the children are half the parent's edge vectors *)
  Lemma mid_minus_first h a b : h + h == 1 -> eq3 (sub3 (midpoint h a b) a) (scale3 h (sub3 b a)).
  Proof.
    intros Hh. destruct a as [[a0 a1] a2], b as [[b0 b1] b2]; unfold midpoint; simpl.
    repeat split; (etransitivity; [|symmetry; apply (Rth.(Rmul_comm))]);
      (etransitivity; [|apply half_sub; exact Hh]); ring.
  Qed.
  Lemma mid_minus_second h a b : h + h == 1 -> eq3 (sub3 (midpoint h b a) a) (scale3 h (sub3 b a)).
  Proof.
    intros Hh. destruct a as [[a0 a1] a2], b as [[b0 b1] b2]; unfold midpoint; simpl.
    repeat split; (etransitivity; [|symmetry; apply (Rth.(Rmul_comm))]);
      (etransitivity; [|apply half_sub'; exact Hh]); ring.
  Qed.
  Lemma second_minus_mid h a b : h + h == 1 -> eq3 (sub3 b (midpoint h a b)) (scale3 h (sub3 b a)).
  Proof.
    intros Hh. destruct a as [[a0 a1] a2], b as [[b0 b1] b2]; unfold midpoint; simpl.
    repeat split; (etransitivity; [|symmetry; apply (Rth.(Rmul_comm))]);
      (etransitivity; [|apply half_sub2; exact Hh]); ring.
  Qed.
  Lemma mid_minus_mid h a b c d (u : pt3 A) :
    eq3 (sub3 (add3 a b) (add3 c d)) u -> eq3 (sub3 (midpoint h a b) (midpoint h c d)) (scale3 h u).
  Proof.
    destruct a as [[a0 a1] a2], b as [[b0 b1] b2], c as [[c0 c1] c2], d as [[d0 d1] d2], u as [[u0 u1] u2].
    unfold midpoint; simpl. intros (H0 & H1 & H2). rewrite <- H0, <- H1, <- H2. repeat split; ring.
  Qed.

  Theorem children_have_quarter_vector_area (h : A) (v0 v1 v2 : pt3 A) :
    h + h == 1 ->
    let m01 := midpoint h v0 v1 in let m20 := midpoint h v2 v0 in let m12 := midpoint h v1 v2 in
    let q := scale3 (h * h) (normal_dir v0 v1 v2) in
    eq3 (normal_dir v0 m01 m20) q /\ eq3 (normal_dir m01 v1 m12) q /\
    eq3 (normal_dir m12 v2 m20) q /\ eq3 (normal_dir m01 m12 m20) q.
  Proof.
    intros Hh m01 m20 m12 q. unfold normal_dir in *. repeat split.
    - eapply eq3_trans; [apply cross_ext; [apply mid_minus_first | apply mid_minus_second]; exact Hh|].
      apply cross_scale.
    - eapply eq3_trans; [apply cross_ext; [apply second_minus_mid; exact Hh | apply (mid_minus_mid h v1 v2 v0 v1 (sub3 v2 v0))]|].
      + destruct v0 as [[a0 a1] a2], v1 as [[b0 b1] b2], v2 as [[c0 c1] c2]; simpl. repeat split; ring.
      + apply cross_scale.
    - eapply eq3_trans; [apply cross_ext; [apply second_minus_mid; exact Hh | apply (mid_minus_mid h v2 v0 v1 v2 (sub3 v0 v1))]|].
      + destruct v0 as [[a0 a1] a2], v1 as [[b0 b1] b2], v2 as [[c0 c1] c2]; simpl. repeat split; ring.
      + eapply eq3_trans; [apply cross_scale|].
        destruct v0 as [[a0 a1] a2], v1 as [[b0 b1] b2], v2 as [[c0 c1] c2]; unfold q; simpl. repeat split; ring.
    - eapply eq3_trans; [apply cross_ext; [apply (mid_minus_mid h v1 v2 v0 v1 (sub3 v2 v0)) |
                                           apply (mid_minus_mid h v2 v0 v0 v1 (sub3 v2 v1))]|].
      + destruct v0 as [[a0 a1] a2], v1 as [[b0 b1] b2], v2 as [[c0 c1] c2]; simpl. repeat split; ring.
      + destruct v0 as [[a0 a1] a2], v1 as [[b0 b1] b2], v2 as [[c0 c1] c2]; simpl. repeat split; ring.
      + eapply eq3_trans; [apply cross_scale|].
        destruct v0 as [[a0 a1] a2], v1 as [[b0 b1] b2], v2 as [[c0 c1] c2]; unfold q; simpl. repeat split; ring.
  Qed.

  (* the four quarter areas add up to the parent's (4 h^2 = (h+h)^2 = 1), and the P1 prolongation row of a midpoint
     vertex (h at both end points of the edge) sums to one *)
  Theorem quarter_areas_add_up (h x : A) : h + h == 1 -> x * (h * h) + x * (h * h) + x * (h * h) + x * (h * h) == x.
  Proof. intros Hh. transitivity (x * ((h + h) * (h + h))); [ring | rewrite Hh; ring]. Qed.
End RefineGeometry.

Lemma refine_nesting :
  (forall dom e k d, (k < 4)%nat -> nth (4 * e + k) (refine_domains dom) d = nth e dom d) /\
  (forall nv els edges_of e k d v0 v1 v2 e0 e1 e2,
      length els = length edges_of -> (e < length els)%nat ->
      nth e els d = (v0, v1, v2) -> nth e edges_of d = (e0, e1, e2) -> (k < 4)%nat ->
      nth (4 * e + k) (refine_elements nv els edges_of) d =
      nth k [(v0, (e0 + nv)%nat, (e1 + nv)%nat); ((e0 + nv)%nat, v1, (e2 + nv)%nat);
             ((e2 + nv)%nat, v2, (e1 + nv)%nat); ((e0 + nv)%nat, (e2 + nv)%nat, (e1 + nv)%nat)] d) /\
  (forall (A : Type) (R : CRing A) (h : A) (v0 v1 v2 : pt3 A),
      req (radd h h) rI ->
      let m01 := midpoint h v0 v1 in let m20 := midpoint h v2 v0 in let m12 := midpoint h v1 v2 in
      let q := scale3 (rmul h h) (normal_dir v0 v1 v2) in
      eq3 (normal_dir v0 m01 m20) q /\ eq3 (normal_dir m01 v1 m12) q /\
      eq3 (normal_dir m12 v2 m20) q /\ eq3 (normal_dir m01 m12 m20) q) /\
  (forall (A : Type) (R : CRing A) (h x : A),
      req (radd h h) rI ->
      req (radd (radd (radd (rmul x (rmul h h)) (rmul x (rmul h h))) (rmul x (rmul h h))) (rmul x (rmul h h))) x).
Proof.
  split; [exact refine_domains_nth|]. split; [exact refine_elements_nth|].
  split; [exact @children_have_quarter_vector_area | exact @quarter_areas_add_up].
Qed.
