(* Hand model (tie H) of the dense boundary-operator assembly of bempp-cl, no proofs in this file.
     core/dense_assembler.py: assemble_dense            -> [dense]
     core/numba_assemblers.py: dense_assembler          -> the loop over test colours in [regular_local]
     core/numba_kernels.py: default_scalar_regular_kernel (and the other regular assemblers, which share the
         loop/skip/scatter structure)                   -> [regular_local], [Lreg_quad]
     core/singular_assembler.py: _SingularQuadratureRuleInterfaceGalerkin.__init__/_vectorize_indices,
         assemble_singular_part                         -> [singular_pairs], [singular_local]
     core/numba_kernels.py: default_scalar_singular_kernel -> [Lsing_quad]
     api/space/space.py: FunctionSpace.__init__ (map_to_full_grid), make_localised_space -> [tmat], [full_space]
   The kernel, the quadrature rules, the geometry arrays, the DOF maps, multipliers, supports, colour classes and
   adjacency arrays are parameters; the correspondence check feeds the implementation's own arrays. *)
From Coq Require Import List Arith Bool.
From BV Require Import AssemblyA.Sums AssemblyA.Mat.
Import ListNotations.
Local Open Scope cr_scope.

Section DenseModel.
  Context {A : Type} {R : CRing A}.

  (* what the assemblers read from a FunctionSpace *)
  Record space := mkSpace {
    sp_ns : nat;                     (* number_of_shape_functions *)
    sp_support : nat -> bool;        (* support[e] *)
    sp_l2g : nat -> nat -> nat;      (* local2global[e, i] *)
    sp_mult : nat -> nat -> A;       (* local_multipliers[e, i] *)
    sp_colors : list (list nat) }.   (* get_elements_by_color(): sorted_indices[indexptr[c]:indexptr[c+1]], c = 0.. *)

  Definition support_elements (nel : nat) (S : space) : list nat := filter (sp_support S) (seq 0 nel).
  Definition color_sorted (S : space) : list nat := concat (sp_colors S).

  (* numba_kernels.elements_adjacent *)
  Definition elements_adjacent (els : nat -> nat * nat * nat) (a b : nat) : bool :=
    let '(a0, a1, a2) := els a in let '(b0, b1, b2) := els b in
    Nat.eqb a0 b0 || Nat.eqb a0 b1 || Nat.eqb a0 b2 || Nat.eqb a1 b0 || Nat.eqb a1 b1 || Nat.eqb a1 b2 ||
    Nat.eqb a2 b0 || Nat.eqb a2 b1 || Nat.eqb a2 b2.

  (* local entry: (test element, test function, trial element, trial function, value) *)
  Definition lent := (nat * nat * nat * nat * A)%type.

  (* the loops of dense_assembler + default_scalar_regular_kernel; Lreg te tr i j is local_result[tr, i, j]
     of a non-adjacent pair; for an adjacent pair on identical grids the accumulation is skipped (`continue`)
     and the zero-initialised local_result is still scattered *)
  Definition regular_local (ident : bool) (els : nat -> nat * nat * nat) (Lreg : nat -> nat -> nat -> nat -> A)
             (ns_t ns_r : nat) (test_classes : list (list nat)) (trial_indices : list nat) : list lent :=
    flat_map (fun cls =>
      flat_map (fun te =>
        flat_map (fun tr =>
          flat_map (fun i =>
            map (fun j => (te, i, tr, j, if ident && elements_adjacent els te tr then 0 else Lreg te tr i j))
                (seq 0 ns_r)) (seq 0 ns_t)) trial_indices) cls) test_classes.

  (* result[test_global_dofs[te, i], trial_global_dofs[tr, j]] += local * test_mult[te, i] * trial_mult[tr, j] *)
  Definition glob_regular (St Sr : space) (x : lent) : trip :=
    let '(te, i, tr, j, v) := x in
    (sp_l2g St te i, sp_l2g Sr tr j, v * sp_mult St te i * sp_mult Sr tr j).

  (* singular pairs: coincident elements, then the columns of grid.edge_adjacency, then of grid.vertex_adjacency,
     each filtered by test_support[.] * trial_support[.] (rows 0 and 1 of a column are test and trial element) *)
  Inductive skind := Coincident | EdgeAdjacent | VertexAdjacent.
  Record spair := mkPair { s_kind : skind; s_te : nat; s_tr : nat; s_loc : list nat }.
  Definition col_te (col : list nat) := nth 0 col 0%nat.
  Definition col_tr (col : list nat) := nth 1 col 0%nat.
  Definition pair_of_col (k : skind) (col : list nat) : spair := mkPair k (col_te col) (col_tr col) (skipn 2 col).
  Definition both (St Sr : space) (a b : nat) : bool := sp_support St a && sp_support Sr b.

  Definition singular_pairs (nel : nat) (St Sr : space) (edge_adj vertex_adj : list (list nat)) : list spair :=
    map (fun e => mkPair Coincident e e []) (filter (fun e => both St Sr e e) (seq 0 nel)) ++
    map (pair_of_col EdgeAdjacent) (filter (fun col => both St Sr (col_te col) (col_tr col)) edge_adj) ++
    map (pair_of_col VertexAdjacent) (filter (fun col => both St Sr (col_te col) (col_tr col)) vertex_adj).

  (* assemble_singular_part: result[ns_t*ns_r*index + i*ns_r + j] with i_ind = te*ns_t + i, j_ind = tr*ns_r + j *)
  Definition singular_local (Lsing : spair -> nat -> nat -> A) (ns_t ns_r : nat) (pairs : list spair) : list lent :=
    flat_map (fun p => flat_map (fun i => map (fun j => (s_te p, i, s_tr p, j, Lsing p i j)) (seq 0 ns_r)) (seq 0 ns_t))
             pairs.

  (* rows = test_l2g.ravel()[i_ind]; cols = trial_l2g.ravel()[j_ind];
     values = singular_values * trial_multipliers[j_ind] * test_multipliers[i_ind]   (i < ns_t, j < ns_r) *)
  Definition glob_singular (St Sr : space) (x : lent) : trip :=
    let '(te, i, tr, j, v) := x in
    (sp_l2g St te i, sp_l2g Sr tr j, v * sp_mult Sr tr j * sp_mult St te i).

  Record gridtopo := mkTopo {
    g_nel : nat;
    g_els : nat -> nat * nat * nat;         (* grid.elements[:, e] *)
    g_edge_adj : list (list nat);           (* columns of grid.edge_adjacency *)
    g_vertex_adj : list (list nat) }.       (* columns of grid.vertex_adjacency *)

  Definition dense_triplets (ident : bool) (G : gridtopo) (Lreg : nat -> nat -> nat -> nat -> A)
             (Lsing : spair -> nat -> nat -> A) (St Sr : space) : list trip :=
    map (glob_regular St Sr)
        (regular_local ident (g_els G) Lreg (sp_ns St) (sp_ns Sr) (sp_colors St) (color_sorted Sr)) ++
    (if ident then
       map (glob_singular St Sr)
           (singular_local Lsing (sp_ns St) (sp_ns Sr)
                           (singular_pairs (g_nel G) St Sr (g_edge_adj G) (g_vertex_adj G)))
     else []).

  (* np.zeros + += in the regular kernel + np.add.at of the singular triplets *)
  Definition dense (ident : bool) (G : gridtopo) Lreg Lsing (St Sr : space) : mat :=
    scatter (dense_triplets ident G Lreg Lsing St Sr).

  (* map_to_full_grid: coo((mult[support].ravel(), (ns*repeat(support_elements, ns) + tile(arange(ns)),
     local2global[support].ravel()))) *)
  Definition tmat (nel : nat) (S : space) : list trip :=
    flat_map (fun e => map (fun i => ((sp_ns S * e + i)%nat, sp_l2g S e i, sp_mult S e i)) (seq 0 (sp_ns S)))
             (support_elements nel S).

  (* the full-grid element-wise space with the same shapeset (localised space of the whole-grid space) *)
  Definition full_space (ns : nat) (colors : list (list nat)) : space :=
    mkSpace ns (fun _ => true) (fun e i => (ns * e + i)%nat) (fun _ _ => 1) colors.

  (* ---- second level: the local values as quadrature sums ------------------------------------------------ *)
  Definition pt2 := (A * A)%type.
  Definition pt3 := (A * A * A)%type.
  Record geom := mkGeom {
    ge_v0 : nat -> pt3;                 (* vertices[:, elements[0, e]] *)
    ge_jac : nat -> pt3 * pt3;          (* the two columns of jacobians[e] *)
    ge_normal : nat -> pt3;             (* normals[e] *)
    ge_intel : nat -> A }.              (* integration_elements[e] *)

  Definition scale3 (s : A) (p : pt3) : pt3 := let '(x, y, z) := p in (x * s, y * s, z * s).
  (* GridData.local2global *)
  Definition l2gpoint (G : geom) (e : nat) (p : pt2) : pt3 :=
    let '(v0, v1, v2) := ge_v0 G e in let '((a0, a1, a2), (b0, b1, b2)) := ge_jac G e in
    (v0 + (a0 * fst p + b0 * snd p), v1 + (a1 * fst p + b1 * snd p), v2 + (a2 * fst p + b2 * snd p)).

  Definition Lreg_quad (kernel : pt3 -> pt3 -> pt3 -> pt3 -> A) (rule : list (pt2 * A)) (Gt Gr : geom)
             (nm_t nm_r : nat -> A) (shape_t shape_r : nat -> pt2 -> A) (te tr i j : nat) : A :=
    sumf (fun tq =>
      sumf (fun rq =>
        kernel (l2gpoint Gt te (fst tq)) (l2gpoint Gr tr (fst rq))
               (scale3 (nm_t te) (ge_normal Gt te)) (scale3 (nm_r tr) (ge_normal Gr tr))
        * (snd rq * ge_intel Gr tr * ge_intel Gt te * snd tq)
        * shape_r j (fst rq) * shape_t i (fst tq)) rule) rule.

  (* sing_rule p = the (test point, trial point, weight) list the implementation's offset arrays select for p *)
  Definition Lsing_quad (kernel : pt3 -> pt3 -> pt3 -> pt3 -> A) (sing_rule : spair -> list (pt2 * pt2 * A))
             (G : geom) (nm_t nm_r : nat -> A) (shape_t shape_r : nat -> pt2 -> A) (p : spair) (i j : nat) : A :=
    sumf (fun q => let '(tp, rp, w) := q in
            kernel (l2gpoint G (s_te p) tp) (l2gpoint G (s_tr p) rp)
                   (scale3 (nm_t (s_te p)) (ge_normal G (s_te p))) (scale3 (nm_r (s_tr p)) (ge_normal G (s_tr p)))
            * w * shape_t i tp * shape_r j rp) (sing_rule p)
    * (ge_intel G (s_te p) * ge_intel G (s_tr p)).
End DenseModel.

Arguments space : clear implicits.
Arguments lent : clear implicits.
Arguments pt2 : clear implicits.
Arguments pt3 : clear implicits.
Arguments geom : clear implicits.
