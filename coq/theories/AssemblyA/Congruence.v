(* C04: the dense operator on a space S is the congruence transform T_test' * dense(full element-wise spaces) * T_trial.
   Proofs over the model of AssemblyA/Dense.v, for every commutative ring, every grid topology, supports,
   DOF maps, multipliers, colourings and local kernel values. *)
From Coq Require Import List Arith Bool Lia Permutation Setoid Morphisms Ring Ring_theory.
From BV Require Import AssemblyA.Sums AssemblyA.Mat AssemblyA.Dense.
Import ListNotations.
Local Open Scope cr_scope.

Section Congruence.
  Context {A : Type} {R : CRing A}.
  Add Ring AringC : (@Rth A R) (setoid (@Rsth A R) (@Reqe A R)).

  Definition indic (b : bool) (x : A) : A := if b then x else 0.

  Global Instance indic_proper b : Proper (req ==> req) (indic b).
  Proof. intros x y H; destruct b; simpl; auto; reflexivity. Qed.

  Lemma indic_true x : indic true x = x. Proof. reflexivity. Qed.
  Lemma indic_and a b x : indic (a && b) x = indic a (indic b x).
  Proof. destruct a, b; reflexivity. Qed.

  (* well-formedness of what the implementation hands to the assembler (checked on the real arrays by the
     correspondence harness; the colour part is C16's partition theorem) *)
  Definition wf_colors (nel : nat) (S : space A) : Prop := Permutation (color_sorted S) (support_elements nel S).
  Definition wf_adj (nel : nat) (adj : list (list nat)) : Prop :=
    forall col, In col adj -> (col_te col < nel)%nat /\ (col_tr col < nel)%nat.

  Lemma support_elements_spec nel (S : space A) e : In e (support_elements nel S) <-> (e < nel)%nat /\ sp_support S e = true.
  Proof. unfold support_elements. rewrite filter_In, in_seq. intuition lia. Qed.

  Lemma NoDup_support_elements nel (S : space A) : NoDup (support_elements nel S).
  Proof. apply NoDup_filter, seq_NoDup. Qed.

  Lemma decode_unique ns e i e' i' :
    (i < ns)%nat -> (i' < ns)%nat -> (ns * e + i = ns * e' + i')%nat -> e = e' /\ i = i'.
  Proof.
    intros Hi Hi' E.
    assert (e = e').
    { destruct (Nat.lt_trichotomy e e') as [H|[H|H]]; auto; exfalso.
      - assert (ns * (e + 1) <= ns * e')%nat by (apply Nat.mul_le_mono_l; lia). lia.
      - assert (ns * (e' + 1) <= ns * e)%nat by (apply Nat.mul_le_mono_l; lia). lia. }
    subst; split; auto; lia.
  Qed.

  (* row ns*e+i of map_to_full_grid *)
  Lemma tmat_row nel (S : space A) e i c :
    (e < nel)%nat -> (i < sp_ns S)%nat ->
    scatter (tmat nel S) (sp_ns S * e + i)%nat c ==
    indic (sp_support S e) (indic (Nat.eqb c (sp_l2g S e i)) (sp_mult S e i)).
  Proof.
    intros He Hi. unfold scatter, tmat. rewrite sumf_flat_map.
    transitivity (sumf (fun e' => if Nat.eqb e' e then indic (Nat.eqb c (sp_l2g S e i)) (sp_mult S e i) else 0)
                       (support_elements nel S)).
    - apply sumf_ext; intros e' He'. rewrite sumf_map.
      destruct (Nat.eqb_spec e' e) as [->|Hne].
      + transitivity (sumf (fun i' => if Nat.eqb i' i then indic (Nat.eqb c (sp_l2g S e i)) (sp_mult S e i) else 0)
                           (seq 0 (sp_ns S))).
        * apply sumf_ext; intros i' Hi'. apply in_seq in Hi'. unfold entry, t_row, t_col, t_val; simpl.
          destruct (Nat.eqb_spec i' i) as [->|Hni].
          -- rewrite Nat.eqb_refl; simpl. reflexivity.
          -- destruct (Nat.eqb_spec (sp_ns S * e + i) (sp_ns S * e + i')); [lia|]. reflexivity.
        * rewrite (sumf_delta_in (fun _ => indic (Nat.eqb c (sp_l2g S e i)) (sp_mult S e i))).
          -- reflexivity.
          -- apply seq_NoDup.
          -- apply in_seq; lia.
      + apply sumf_zero; intros i' Hi'. apply in_seq in Hi'. unfold entry, t_row, t_col, t_val; simpl.
        destruct (Nat.eqb_spec (sp_ns S * e + i) (sp_ns S * e' + i')) as [E|]; [|reflexivity].
        exfalso. apply decode_unique in E; [|lia|lia]. destruct E; congruence.
    - destruct (sp_support S e) eqn:Hs; unfold indic at 1.
      + rewrite (sumf_delta_in (fun _ => indic (Nat.eqb c (sp_l2g S e i)) (sp_mult S e i))).
        * reflexivity.
        * apply NoDup_support_elements.
        * apply support_elements_spec; auto.
      + apply sumf_delta_notin. rewrite support_elements_spec. intros [_ H]; congruence.
  Qed.

  (* ---- sums over the loop nests ------------------------------------------------------------------------ *)
  Definition pair_sum (g : lent A -> A) (ns_t ns_r : nat) (val : nat -> nat -> A) (te tr : nat) : A :=
    sumf (fun i => sumf (fun j => g (te, i, tr, j, val i j)) (seq 0 ns_r)) (seq 0 ns_t).

  Definition reg_val (ident : bool) els (Lreg : nat -> nat -> nat -> nat -> A) te tr i j : A :=
    if ident && elements_adjacent els te tr then 0 else Lreg te tr i j.

  Lemma sum_regular_local (g : lent A -> A) ident els Lreg ns_t ns_r classes trial :
    sumf g (regular_local ident els Lreg ns_t ns_r classes trial) ==
    sumf (fun te => sumf (fun tr => pair_sum g ns_t ns_r (reg_val ident els Lreg te tr) te tr) trial) (concat classes).
  Proof.
    unfold regular_local. rewrite sumf_flat_map, sumf_concat.
    apply sumf_ext_all; intros cls. rewrite sumf_flat_map. apply sumf_ext_all; intros te.
    rewrite sumf_flat_map. apply sumf_ext_all; intros tr. unfold pair_sum.
    rewrite sumf_flat_map. apply sumf_ext_all; intros i. rewrite sumf_map. reflexivity.
  Qed.

  Lemma sum_singular_local (g : lent A -> A) Lsing ns_t ns_r pairs :
    sumf g (singular_local Lsing ns_t ns_r pairs) ==
    sumf (fun p => pair_sum g ns_t ns_r (Lsing p) (s_te p) (s_tr p)) pairs.
  Proof.
    unfold singular_local. rewrite sumf_flat_map. apply sumf_ext_all; intros p. unfold pair_sum.
    rewrite sumf_flat_map. apply sumf_ext_all; intros i. rewrite sumf_map. reflexivity.
  Qed.

  Lemma sum_over_support nel (S : space A) (f : nat -> A) :
    wf_colors nel S ->
    sumf f (color_sorted S) == sumf (fun e => indic (sp_support S e) (f e)) (seq 0 nel).
  Proof. intros H. rewrite (sumf_perm f _ _ H). unfold support_elements. apply sumf_filter. Qed.

  Lemma filter_all_true {B} (p : B -> bool) l : (forall x, In x l -> p x = true) -> filter p l = l.
  Proof.
    induction l; simpl; intros H; [reflexivity|]. rewrite (H a (or_introl eq_refl)), IHl; auto.
  Qed.

  Lemma sum_singular_pairs nel (St Sr : space A) ea va (F : spair -> A) :
    sumf F (singular_pairs nel St Sr ea va) ==
    sumf (fun e => indic (both St Sr e e) (F (mkPair Coincident e e []))) (seq 0 nel)
    + (sumf (fun col => indic (both St Sr (col_te col) (col_tr col)) (F (pair_of_col EdgeAdjacent col))) ea
    + sumf (fun col => indic (both St Sr (col_te col) (col_tr col)) (F (pair_of_col VertexAdjacent col))) va).
  Proof.
    unfold singular_pairs. rewrite !sumf_app, !sumf_map, !sumf_filter. reflexivity.
  Qed.

  Lemma pair_sum_ext g g' ns_t ns_r val te tr :
    (forall i j, (i < ns_t)%nat -> (j < ns_r)%nat -> g (te, i, tr, j, val i j) == g' (te, i, tr, j, val i j)) ->
    pair_sum g ns_t ns_r val te tr == pair_sum g' ns_t ns_r val te tr.
  Proof.
    intros H. unfold pair_sum. apply sumf_ext; intros i Hi. apply sumf_ext; intros j Hj.
    apply in_seq in Hi, Hj. apply H; lia.
  Qed.

  Lemma pair_sum_indic b g ns_t ns_r val te tr :
    pair_sum (fun x => indic b (g x)) ns_t ns_r val te tr == indic b (pair_sum g ns_t ns_r val te tr).
  Proof.
    destruct b; simpl; [reflexivity|]. unfold pair_sum. apply sumf_zero; intros. apply sumf_zero; reflexivity.
  Qed.

  Lemma sumf_indic {B} b (f : B -> A) l : indic b (sumf f l) == sumf (fun x => indic b (f x)) l.
  Proof. destruct b; simpl; [reflexivity|]. symmetry; apply sumf_zero; reflexivity. Qed.

  Lemma indic_ext b x y : x == y -> indic b x == indic b y.
  Proof. destruct b; simpl; auto; reflexivity. Qed.

  (* ---- the summand of the congruence for one local entry of the full-space operator ------------------- *)
  Section Main.
    Variables (nel : nat) (St Sr : space A).
    Let nst := sp_ns St.
    Let nsr := sp_ns Sr.
    Let Tt : mat := scatter (tmat nel St).
    Let Tr : mat := scatter (tmat nel Sr).

    Lemma summand_regular ct cr r c te i tr j v :
      (te < nel)%nat -> (tr < nel)%nat -> (i < nst)%nat -> (j < nsr)%nat ->
      let t := glob_regular (full_space nst ct) (full_space nsr cr) (te, i, tr, j, v) in
      Tt (t_row t) r * t_val t * Tr (t_col t) c ==
      indic (sp_support St te) (indic (sp_support Sr tr) (entry (glob_regular St Sr (te, i, tr, j, v)) r c)).
    Proof.
      intros Hte Htr Hi Hj. cbv zeta. unfold glob_regular, full_space, t_row, t_col, t_val; simpl.
      unfold Tt, Tr, nst, nsr in *. rewrite (tmat_row nel St te i r Hte Hi), (tmat_row nel Sr tr j c Htr Hj).
      unfold entry, t_row, t_col, t_val; simpl.
      destruct (sp_support St te), (sp_support Sr tr), (Nat.eqb r (sp_l2g St te i)), (Nat.eqb c (sp_l2g Sr tr j));
        simpl; ring.
    Qed.

    Lemma summand_singular ct cr r c te i tr j v :
      (te < nel)%nat -> (tr < nel)%nat -> (i < nst)%nat -> (j < nsr)%nat ->
      let t := glob_singular (full_space nst ct) (full_space nsr cr) (te, i, tr, j, v) in
      Tt (t_row t) r * t_val t * Tr (t_col t) c ==
      indic (sp_support St te) (indic (sp_support Sr tr) (entry (glob_singular St Sr (te, i, tr, j, v)) r c)).
    Proof.
      intros Hte Htr Hi Hj. cbv zeta. unfold glob_singular, full_space, t_row, t_col, t_val; simpl.
      unfold Tt, Tr, nst, nsr in *. rewrite (tmat_row nel St te i r Hte Hi), (tmat_row nel Sr tr j c Htr Hj).
      unfold entry, t_row, t_col, t_val; simpl.
      destruct (sp_support St te), (sp_support Sr tr), (Nat.eqb r (sp_l2g St te i)), (Nat.eqb c (sp_l2g Sr tr j));
        simpl; ring.
    Qed.
  End Main.

  (* ---- membership facts about the loop nests -------------------------------------------------------------- *)
  Lemma in_regular_local ident els Lreg ns_t ns_r classes trial te i tr j (v : A) :
    In (te, i, tr, j, v) (regular_local ident els Lreg ns_t ns_r classes trial) ->
    In te (concat classes) /\ In tr trial /\ (i < ns_t)%nat /\ (j < ns_r)%nat.
  Proof.
    unfold regular_local. rewrite in_flat_map. intros (cls & Hc & H).
    rewrite in_flat_map in H. destruct H as (te' & Hte & H).
    rewrite in_flat_map in H. destruct H as (tr' & Htr & H).
    rewrite in_flat_map in H. destruct H as (i' & Hi & H).
    rewrite in_map_iff in H. destruct H as (j' & E & Hj). inversion E; subst.
    apply in_seq in Hi, Hj. repeat split; auto; try lia. apply in_concat. eauto.
  Qed.

  Lemma in_singular_local Lsing ns_t ns_r pairs te i tr j (v : A) :
    In (te, i, tr, j, v) (singular_local Lsing ns_t ns_r pairs) ->
    (exists p, In p pairs /\ te = s_te p /\ tr = s_tr p) /\ (i < ns_t)%nat /\ (j < ns_r)%nat.
  Proof.
    unfold singular_local. rewrite in_flat_map. intros (p & Hp & H).
    rewrite in_flat_map in H. destruct H as (i' & Hi & H).
    rewrite in_map_iff in H. destruct H as (j' & E & Hj). inversion E; subst.
    apply in_seq in Hi, Hj. repeat split; try lia. eauto.
  Qed.

  Lemma in_singular_pairs nel (St Sr : space A) ea va p :
    wf_adj nel ea -> wf_adj nel va -> In p (singular_pairs nel St Sr ea va) ->
    (s_te p < nel)%nat /\ (s_tr p < nel)%nat.
  Proof.
    intros He Hv. unfold singular_pairs. rewrite !in_app_iff, !in_map_iff.
    intros [(e & <- & H)|[(col & <- & H)|(col & <- & H)]]; apply filter_In in H; destruct H as [H _]; simpl.
    - apply in_seq in H; lia.
    - apply He; auto.
    - apply Hv; auto.
  Qed.

  Lemma idx_bound ns nel e i : (e < nel)%nat -> (i < ns)%nat -> In (ns * e + i)%nat (seq 0 (ns * nel)).
  Proof.
    intros He Hi. apply in_seq. split; [lia|]. simpl.
    assert (ns * (e + 1) <= ns * nel)%nat by (apply Nat.mul_le_mono_l; lia). lia.
  Qed.

  Lemma perm_lt nel l e : Permutation l (seq 0 nel) -> In e l -> (e < nel)%nat.
  Proof. intros P H. apply (Permutation_in _ P) in H. apply in_seq in H; lia. Qed.

  (* ---- C04 main theorem --------------------------------------------------------------------------------------- *)
  Theorem congruence_dense (ident : bool) (G : gridtopo) (Lreg : nat -> nat -> nat -> nat -> A)
          (Lsing : spair -> nat -> nat -> A) (St Sr : space A) (ct cr : list (list nat)) :
    wf_colors (g_nel G) St -> wf_colors (g_nel G) Sr ->
    Permutation (concat ct) (seq 0 (g_nel G)) -> Permutation (concat cr) (seq 0 (g_nel G)) ->
    wf_adj (g_nel G) (g_edge_adj G) -> wf_adj (g_nel G) (g_vertex_adj G) ->
    meq (dense ident G Lreg Lsing St Sr)
        (congr (seq 0 (sp_ns St * g_nel G)) (seq 0 (sp_ns Sr * g_nel G))
               (scatter (tmat (g_nel G) St))
               (dense ident G Lreg Lsing (full_space (sp_ns St) ct) (full_space (sp_ns Sr) cr))
               (scatter (tmat (g_nel G) Sr))).
  Proof.
    intros Wt Wr Pt Pr Wea Wva r c. set (nel := g_nel G) in *.
    symmetry. unfold dense at 1.
    rewrite congr_scatter; [| apply seq_NoDup | apply seq_NoDup |].
    2:{ intros t Ht. unfold dense_triplets in Ht. apply in_app_or in Ht. destruct Ht as [Ht|Ht].
        - apply in_map_iff in Ht. destruct Ht as ([[[[te i] tr] j] v] & <- & Hx).
          apply in_regular_local in Hx. destruct Hx as (Hte & Htr & Hi & Hj). simpl in Hi, Hj.
          unfold color_sorted in Htr; simpl in Htr.
          unfold glob_regular, t_row, t_col; simpl.
          split; apply idx_bound; eauto using perm_lt.
        - destruct ident; [|destruct Ht].
          apply in_map_iff in Ht. destruct Ht as ([[[[te i] tr] j] v] & <- & Hx).
          apply in_singular_local in Hx. destruct Hx as ((p & Hp & -> & ->) & Hi & Hj). simpl in Hi, Hj.
          apply (in_singular_pairs nel) in Hp; auto. destruct Hp.
          unfold glob_singular, t_row, t_col; simpl. split; apply idx_bound; auto. }
    unfold dense.
    change (scatter (dense_triplets ident G Lreg Lsing St Sr) r c)
      with (sumf (fun t => entry t r c) (dense_triplets ident G Lreg Lsing St Sr)).
    unfold dense_triplets. rewrite !sumf_app, !sumf_map.
    apply radd_proper.
    - (* regular part *)
      rewrite !sum_regular_local. simpl sp_colors. unfold color_sorted at 1; simpl sp_colors.
      rewrite (sumf_perm _ _ _ Pt). rewrite (sum_over_support nel St _ Wt).
      apply sumf_ext; intros te Hte. apply in_seq in Hte.
      rewrite (sumf_perm _ _ _ Pr).
      transitivity (indic (sp_support St te) (sumf (fun tr => indic (sp_support Sr tr)
                       (pair_sum (fun x => entry (glob_regular St Sr x) r c) (sp_ns St) (sp_ns Sr)
                                 (reg_val ident (g_els G) Lreg te tr) te tr)) (seq 0 nel))).
      2:{ apply indic_ext. symmetry. apply sum_over_support; auto. }
      rewrite sumf_indic.
      apply sumf_ext; intros tr Htr. apply in_seq in Htr. simpl sp_ns.
      rewrite <- !pair_sum_indic. apply pair_sum_ext; intros i j Hi Hj.
      apply (summand_regular nel St Sr ct cr r c te i tr j); lia.
    - (* singular part *)
      destruct ident; [|reflexivity].
      rewrite !sumf_map. rewrite !sum_singular_local. rewrite !sum_singular_pairs. simpl sp_ns.
      apply radd_proper; [|apply radd_proper].
      + apply sumf_ext; intros e He. apply in_seq in He. unfold both; simpl sp_support. simpl andb.
        rewrite indic_true, indic_and. rewrite <- !pair_sum_indic. apply pair_sum_ext; intros i j Hi Hj.
        apply (summand_singular nel St Sr ct cr r c e i e j); simpl; lia.
      + apply sumf_ext; intros col Hc. destruct (Wea col Hc). unfold both; simpl sp_support. simpl andb.
        rewrite indic_true, indic_and. rewrite <- !pair_sum_indic. apply pair_sum_ext; intros i j Hi Hj.
        apply (summand_singular nel St Sr ct cr r c (col_te col) i (col_tr col) j); simpl; auto.
      + apply sumf_ext; intros col Hc. destruct (Wva col Hc). unfold both; simpl sp_support. simpl andb.
        rewrite indic_true, indic_and. rewrite <- !pair_sum_indic. apply pair_sum_ext; intros i j Hi Hj.
        apply (summand_singular nel St Sr ct cr r c (col_te col) i (col_tr col) j); simpl; auto.
  Qed.

  (* ---- corollaries -------------------------------------------------------------------------------------------- *)
  (* a space whose DOF map is injective on its support with unit multipliers (DP0/DP1 on a segment or on
     arbitrary support elements): T selects rows, the congruence is a sub-block *)
  Definition selects (nel : nat) (S : space A) : Prop :=
    (forall e i, (e < nel)%nat -> sp_support S e = true -> (i < sp_ns S)%nat -> sp_mult S e i == 1) /\
    (forall e i e' i', (e < nel)%nat -> (e' < nel)%nat -> sp_support S e = true -> sp_support S e' = true ->
                       (i < sp_ns S)%nat -> (i' < sp_ns S)%nat -> sp_l2g S e i = sp_l2g S e' i' -> e = e' /\ i = i').

  Lemma decode ns nel p : In p (seq 0 (ns * nel)) -> exists e i, (e < nel)%nat /\ (i < ns)%nat /\ p = (ns * e + i)%nat.
  Proof.
    intros H. apply in_seq in H. destruct ns as [|ns]; [simpl in H; lia|].
    exists (p / S ns)%nat, (p mod S ns)%nat. repeat split.
    - apply Nat.div_lt_upper_bound; lia.
    - apply Nat.mod_upper_bound; lia.
    - apply Nat.div_mod; lia.
  Qed.

  Lemma tmat_col_delta nel (S : space A) e i p :
    selects nel S -> (e < nel)%nat -> sp_support S e = true -> (i < sp_ns S)%nat -> In p (seq 0 (sp_ns S * nel)) ->
    scatter (tmat nel S) p (sp_l2g S e i) == (if Nat.eqb p (sp_ns S * e + i) then 1 else 0).
  Proof.
    intros [Hm Hinj] He Hs Hi Hp. destruct (decode _ _ _ Hp) as (e' & i' & He' & Hi' & ->).
    rewrite tmat_row by assumption.
    destruct (sp_support S e') eqn:Hs'; simpl.
    - destruct (Nat.eqb_spec (sp_l2g S e i) (sp_l2g S e' i')) as [E|E]; simpl.
      + destruct (Hinj e i e' i' He He' Hs Hs' Hi Hi' E) as [-> ->]. rewrite Nat.eqb_refl. apply Hm; auto.
      + destruct (Nat.eqb_spec (sp_ns S * e' + i') (sp_ns S * e + i)) as [E'|]; [|reflexivity].
        apply decode_unique in E'; auto. destruct E'; subst; congruence.
    - destruct (Nat.eqb_spec (sp_ns S * e' + i') (sp_ns S * e + i)) as [E'|]; [|reflexivity].
      apply decode_unique in E'; auto. destruct E'; subst; congruence.
  Qed.

  Lemma congr_selects nel (St Sr : space A) (M : mat) e i f j :
    selects nel St -> selects nel Sr ->
    (e < nel)%nat -> sp_support St e = true -> (i < sp_ns St)%nat ->
    (f < nel)%nat -> sp_support Sr f = true -> (j < sp_ns Sr)%nat ->
    congr (seq 0 (sp_ns St * nel)) (seq 0 (sp_ns Sr * nel)) (scatter (tmat nel St)) M (scatter (tmat nel Sr))
          (sp_l2g St e i) (sp_l2g Sr f j) == M (sp_ns St * e + i)%nat (sp_ns Sr * f + j)%nat.
  Proof.
    intros Ht Hr He Hse Hi Hf Hsf Hj. unfold congr, mmul, tr.
    transitivity (sumf (fun p => if Nat.eqb p (sp_ns St * e + i) then M p (sp_ns Sr * f + j)%nat else 0)
                       (seq 0 (sp_ns St * nel))).
    - apply sumf_ext; intros p Hp. rewrite (tmat_col_delta nel St e i p) by assumption.
      transitivity ((if Nat.eqb p (sp_ns St * e + i) then 1 else 0) *
                    sumf (fun q => if Nat.eqb q (sp_ns Sr * f + j) then M p q else 0) (seq 0 (sp_ns Sr * nel))).
      + apply rmul_proper; [reflexivity|]. apply sumf_ext; intros q Hq.
        rewrite (tmat_col_delta nel Sr f j q) by assumption. destruct (Nat.eqb q (sp_ns Sr * f + j)); ring.
      + rewrite (sumf_delta_in (fun q => M p q)); [| apply seq_NoDup | apply idx_bound; auto].
        destruct (Nat.eqb p (sp_ns St * e + i)); ring.
    - rewrite (sumf_delta_in (fun p => M p (sp_ns Sr * f + j)%nat)); [reflexivity | apply seq_NoDup | apply idx_bound; auto].
  Qed.

  Theorem segment_blocks ident (G : gridtopo) Lreg Lsing (St Sr : space A) ct cr e i f j :
    wf_colors (g_nel G) St -> wf_colors (g_nel G) Sr ->
    Permutation (concat ct) (seq 0 (g_nel G)) -> Permutation (concat cr) (seq 0 (g_nel G)) ->
    wf_adj (g_nel G) (g_edge_adj G) -> wf_adj (g_nel G) (g_vertex_adj G) ->
    selects (g_nel G) St -> selects (g_nel G) Sr ->
    (e < g_nel G)%nat -> sp_support St e = true -> (i < sp_ns St)%nat ->
    (f < g_nel G)%nat -> sp_support Sr f = true -> (j < sp_ns Sr)%nat ->
    dense ident G Lreg Lsing St Sr (sp_l2g St e i) (sp_l2g Sr f j) ==
    dense ident G Lreg Lsing (full_space (sp_ns St) ct) (full_space (sp_ns Sr) cr)
          (sp_ns St * e + i)%nat (sp_ns Sr * f + j)%nat.
  Proof.
    intros. etransitivity; [apply (congruence_dense ident G Lreg Lsing St Sr ct cr); assumption|].
    apply congr_selects; assumption.
  Qed.

  (* the full space is mapped to itself by the identity *)
  Lemma wf_colors_full nel ns colors : Permutation (concat colors) (seq 0 nel) -> wf_colors nel (full_space ns colors).
  Proof.
    intros P. unfold wf_colors, color_sorted, support_elements; simpl.
    rewrite filter_all_true; auto.
  Qed.

  Lemma selects_full nel ns colors : selects nel (full_space ns colors).
  Proof.
    split; simpl; intros; [reflexivity|]. apply (decode_unique ns); auto.
  Qed.

  (* test and trial side are independent: restricting only the test space *)
  Theorem congruence_test_side ident (G : gridtopo) Lreg Lsing (St : space A) ct cr nsr r f j :
    wf_colors (g_nel G) St ->
    Permutation (concat ct) (seq 0 (g_nel G)) -> Permutation (concat cr) (seq 0 (g_nel G)) ->
    wf_adj (g_nel G) (g_edge_adj G) -> wf_adj (g_nel G) (g_vertex_adj G) ->
    (f < g_nel G)%nat -> (j < nsr)%nat ->
    dense ident G Lreg Lsing St (full_space nsr cr) r (nsr * f + j)%nat ==
    mmul (seq 0 (sp_ns St * g_nel G)) (tr (scatter (tmat (g_nel G) St)))
         (dense ident G Lreg Lsing (full_space (sp_ns St) ct) (full_space nsr cr)) r (nsr * f + j)%nat.
  Proof.
    intros Wt Pt Pr Wea Wva Hf Hj.
    etransitivity; [apply (congruence_dense ident G Lreg Lsing St (full_space nsr cr) ct cr);
                    auto using wf_colors_full|].
    unfold congr, mmul at 1 3. apply sumf_ext; intros p Hp. apply rmul_proper; [reflexivity|].
    unfold mmul. simpl sp_ns.
    transitivity (sumf (fun q => if Nat.eqb q (nsr * f + j) then
         dense ident G Lreg Lsing (full_space (sp_ns St) ct) (full_space nsr cr) p q else 0) (seq 0 (nsr * g_nel G))).
    - apply sumf_ext; intros q Hq.
      pose proof (tmat_col_delta (g_nel G) (full_space nsr cr) f j q (selects_full _ _ _) Hf eq_refl Hj Hq) as E.
      simpl in E. rewrite E. destruct (Nat.eqb q (nsr * f + j)); ring.
    - rewrite (sumf_delta_in (fun q => dense ident G Lreg Lsing (full_space (sp_ns St) ct) (full_space nsr cr) p q));
        [reflexivity | apply seq_NoDup | apply idx_bound; auto].
  Qed.
End Congruence.
