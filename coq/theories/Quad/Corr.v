(* Comparison functions used by the C12 correspondence check: the harness writes what the implementation
   returned (exact rationals of its doubles) into a cases file and these functions diff it against the model. *)
From Coq Require Import QArith Qabs ZArith List Bool.
From BVgen Require Import TriTables GaussTables.
From BV Require Import Quad.Poly Quad.Rules.
Import ListNotations.

Fixpoint forallb2 {A B} (f : A -> B -> bool) (l1 : list A) (l2 : list B) : bool :=
  match l1, l2 with
  | [], [] => true
  | a :: l1', b :: l2' => f a b && forallb2 f l1' l2'
  | _, _ => false end.
Definition qclose (tol a b : Q) : bool := Qle_bool (Qabs (a - b)) tol.

Definition tri_case_ok (c : Z * option (list (Q * Q * Q))) : bool :=
  match tri_rule (fst c), snd c with
  | None, None => true
  | Some r, Some l =>
    forallb2 (fun m i => let '(X, Y, W) := m in let '(x, y, w) := i in
              Qeq_bool (X # Z.to_pos (2 ^ tri_scale)) x && Qeq_bool (Y # Z.to_pos (2 ^ tri_scale)) y &&
              Qeq_bool (W # Z.to_pos (2 ^ (tri_scale + 1))) w) r l
  | _, _ => false end.

(* 0.5*(1+c) is rounded once by the implementation: tolerance 2^-52 *)
Definition gauss_case_ok (c : Z * option (list (Q * Q))) : bool :=
  match gauss_ruleQ (fst c), snd c with
  | None, None => true
  | Some r, Some l => forallb2 (fun m i => qclose (1 # 2 ^ 52) (fst m) (fst i) && Qeq_bool (snd m) (snd i)) r l
  | _, _ => false end.

Definition duffy_case_ok (c : Z * nat * list (Q * Q * Q * Q * Q)) : bool :=
  let '(order, adj, impl) := c in
  match duffy order adj with
  | None => false
  | Some pts =>
    forallb2 (fun m i => let '(t0, t1, r0, r1, w) := i in
              let tol := 1 # 100000000000000 in
              qclose tol (q_t0 m) t0 && qclose tol (q_t1 m) t1 && qclose tol (q_r0 m) r0 &&
              qclose tol (q_r1 m) r1 && qclose tol (q_w m) w) pts impl
  end.

Definition remap_edge_case_ok (pts : list (Q * Q)) (c : nat * nat * list (Q * Q)) : bool :=
  let '(v0, v1, impl) := c in
  forallb2 (fun p i => let m := remap_edge v0 v1 p in Qeq_bool (fst m) (fst i) && Qeq_bool (snd m) (snd i)) pts impl.
Definition remap_vertex_case_ok (pts : list (Q * Q)) (c : nat * list (Q * Q)) : bool :=
  let '(k, impl) := c in
  forallb2 (fun p i => let m := remap_vertex k p in Qeq_bool (fst m) (fst i) && Qeq_bool (snd m) (snd i)) pts impl.

Definition failing {A} (ok : A -> bool) (l : list A) : list nat :=
  map fst (filter (fun ic => negb (ok (snd ic))) (combine (seq 0 (length l)) l)).
