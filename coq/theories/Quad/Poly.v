(* Polynomial expressions in the four Duffy variables (xsi, eta1, eta2, eta3), a sparse normal form, and
   soundness of normalisation with respect to evaluation over Q.  Model definitions and their
   characterising lemmas; the property theorems live in props/C12.v. *)
From Coq Require Import QArith ZArith List Lia Arith Setoid Morphisms.
Import ListNotations.
Open Scope Q_scope.

Inductive pexpr :=
| PV (i : nat) | PC (c : Z) | PAdd (a b : pexpr) | PSub (a b : pexpr) | PMul (a b : pexpr).

Record region := mkRegion { rt0 : pexpr; rt1 : pexpr; rr0 : pexpr; rr1 : pexpr; rw : pexpr }.

Fixpoint pevalQ (v : nat -> Q) (p : pexpr) : Q :=
  match p with
  | PV i => v i
  | PC c => inject_Z c
  | PAdd a b => pevalQ v a + pevalQ v b
  | PSub a b => pevalQ v a - pevalQ v b
  | PMul a b => pevalQ v a * pevalQ v b
  end.

Fixpoint ppow (p : pexpr) (n : nat) : pexpr :=
  match n with O => PC 1 | S k => PMul p (ppow p k) end.

Fixpoint qpow (x : Q) (n : nat) : Q := match n with O => 1 | S k => x * qpow x k end.

Lemma qpow_add x a b : qpow x (a + b) == qpow x a * qpow x b.
Proof. induction a as [|a IH]; simpl; [ring | rewrite IH; ring]. Qed.

Lemma pevalQ_ppow v p n : pevalQ v (ppow p n) == qpow (pevalQ v p) n.
Proof. induction n as [|n IH]; simpl; [reflexivity | rewrite IH; reflexivity]. Qed.

Global Instance qpow_proper : Proper (Qeq ==> eq ==> Qeq) qpow.
Proof. intros x y H n m <-. induction n as [|n IH]; simpl; [reflexivity | apply Qmult_comp; [exact H | exact IH]]. Qed.

(* ---- sparse normal form --------------------------------------------------------------------------- *)
Definition mono := (nat * nat * nat * nat)%type.
Definition term := (mono * Z)%type.
Definition poly := list term.

Definition mono_eval (v : nat -> Q) (m : mono) : Q :=
  let '(a, b, c, d) := m in qpow (v 0%nat) a * qpow (v 1%nat) b * qpow (v 2%nat) c * qpow (v 3%nat) d.
Definition term_eval (v : nat -> Q) (t : term) : Q := inject_Z (snd t) * mono_eval v (fst t).
Fixpoint poly_eval (v : nat -> Q) (p : poly) : Q :=
  match p with [] => 0 | t :: p' => term_eval v t + poly_eval v p' end.

Definition madd (m n : mono) : mono :=
  let '(a, b, c, d) := m in let '(a', b', c', d') := n in ((a + a')%nat, (b + b')%nat, (c + c')%nat, (d + d')%nat).

Definition mono_cmp (m n : mono) : comparison :=
  let '(a, b, c, d) := m in let '(a', b', c', d') := n in
  match Nat.compare a a' with
  | Eq => match Nat.compare b b' with
          | Eq => match Nat.compare c c' with Eq => Nat.compare d d' | r => r end
          | r => r end
  | r => r end.

Lemma mono_cmp_eq m n : mono_cmp m n = Eq -> m = n.
Proof.
  destruct m as [[[a b] c] d], n as [[[a' b'] c'] d']; simpl.
  destruct (Nat.compare_spec a a'); try discriminate.
  destruct (Nat.compare_spec b b'); try discriminate.
  destruct (Nat.compare_spec c c'); try discriminate.
  destruct (Nat.compare_spec d d'); try discriminate.
  intros _; subst; reflexivity.
Qed.

(* insert a term into a polynomial kept sorted by mono_cmp, merging equal monomials *)
Fixpoint pinsert (t : term) (p : poly) : poly :=
  match p with
  | [] => if Z.eqb (snd t) 0 then [] else [t]
  | u :: p' =>
    match mono_cmp (fst t) (fst u) with
    | Lt => if Z.eqb (snd t) 0 then p else t :: p
    | Eq => let c := (snd t + snd u)%Z in if Z.eqb c 0 then p' else (fst u, c) :: p'
    | Gt => u :: pinsert t p'
    end
  end.

Definition padd (p q : poly) : poly := fold_right pinsert q p.
Definition pmul_term (t : term) (q : poly) : poly := map (fun u => (madd (fst t) (fst u), (snd t * snd u)%Z)) q.
Definition pmul (p q : poly) : poly := fold_right (fun t acc => padd (pmul_term t q) acc) [] p.
Definition pneg (p : poly) : poly := map (fun u => (fst u, (- snd u)%Z)) p.

Definition pvar (i : nat) : poly :=
  match i with
  | 0%nat => [((1, 0, 0, 0)%nat, 1%Z)] | 1%nat => [((0, 1, 0, 0)%nat, 1%Z)]
  | 2%nat => [((0, 0, 1, 0)%nat, 1%Z)] | 3%nat => [((0, 0, 0, 1)%nat, 1%Z)]
  | _ => [] end.

Fixpoint norm (p : pexpr) : poly :=
  match p with
  | PV i => pvar i
  | PC c => if Z.eqb c 0 then [] else [((0, 0, 0, 0)%nat, c)]
  | PAdd a b => padd (norm a) (norm b)
  | PSub a b => padd (norm a) (pneg (norm b))
  | PMul a b => pmul (norm a) (norm b)
  end.

(* variables above index 3 do not occur in translated regions; [closed4] is the boolean guard *)
Fixpoint closed4 (p : pexpr) : bool :=
  match p with
  | PV i => Nat.ltb i 4
  | PC _ => true
  | PAdd a b | PSub a b | PMul a b => closed4 a && closed4 b
  end.

Lemma inject_Z_0_eq c : Z.eqb c 0 = true -> inject_Z c == 0.
Proof. intros H; apply Z.eqb_eq in H; subst; reflexivity. Qed.

Lemma pinsert_sound v t p : poly_eval v (pinsert t p) == term_eval v t + poly_eval v p.
Proof.
  destruct t as [m c]. induction p as [|[n d] p IH]; cbn [pinsert poly_eval fst snd].
  - destruct (Z.eqb c 0) eqn:E; cbn [poly_eval].
    + apply Z.eqb_eq in E. subst c. unfold term_eval; cbn [fst snd]. change (inject_Z 0) with 0. ring.
    + ring.
  - destruct (mono_cmp m n) eqn:C.
    + apply mono_cmp_eq in C. subst n. destruct (Z.eqb (c + d) 0) eqn:E; cbn [poly_eval].
      * apply Z.eqb_eq in E. unfold term_eval; cbn [fst snd].
        assert (H : (c = - d)%Z) by lia. rewrite H, inject_Z_opp. ring.
      * unfold term_eval; cbn [fst snd]. rewrite inject_Z_plus. ring.
    + destruct (Z.eqb c 0) eqn:E; cbn [poly_eval].
      * apply Z.eqb_eq in E. subst c. unfold term_eval; cbn [fst snd]. change (inject_Z 0) with 0. ring.
      * ring.
    + cbn [poly_eval]. rewrite IH. ring.
Qed.

Lemma padd_sound v p q : poly_eval v (padd p q) == poly_eval v p + poly_eval v q.
Proof.
  unfold padd. induction p as [|t p IH]; simpl; [ring|]. rewrite pinsert_sound, IH. ring.
Qed.

Lemma madd_sound v m n : mono_eval v (madd m n) == mono_eval v m * mono_eval v n.
Proof.
  destruct m as [[[a b] c] d], n as [[[a' b'] c'] d']; simpl. rewrite !qpow_add. ring.
Qed.

Lemma pmul_term_sound v t q : poly_eval v (pmul_term t q) == term_eval v t * poly_eval v q.
Proof.
  induction q as [|u q IH]; simpl; [ring|]. rewrite IH. unfold term_eval at 1 3; simpl.
  rewrite madd_sound, inject_Z_mult. unfold term_eval. ring.
Qed.

Lemma pmul_sound v p q : poly_eval v (pmul p q) == poly_eval v p * poly_eval v q.
Proof.
  unfold pmul. induction p as [|t p IH]; simpl; [ring|]. rewrite padd_sound, pmul_term_sound, IH. ring.
Qed.

Lemma pneg_sound v p : poly_eval v (pneg p) == - poly_eval v p.
Proof.
  induction p as [|u p IH]; simpl; [ring|]. rewrite IH. unfold term_eval; simpl. rewrite inject_Z_opp. ring.
Qed.

Lemma pvar_sound v i : (i < 4)%nat -> poly_eval v (pvar i) == v i.
Proof.
  intros H. destruct i as [|[|[|[|i]]]]; try lia; simpl; unfold term_eval; simpl; ring.
Qed.

Theorem norm_sound v p : closed4 p = true -> poly_eval v (norm p) == pevalQ v p.
Proof.
  induction p as [i|c|a IHa b IHb|a IHa b IHb|a IHa b IHb]; simpl; intros H.
  - apply pvar_sound. apply Nat.ltb_lt. exact H.
  - destruct (Z.eqb c 0) eqn:E; simpl.
    + apply Z.eqb_eq in E. rewrite E. reflexivity.
    + unfold term_eval; simpl. ring.
  - apply andb_prop in H as [Ha Hb]. rewrite padd_sound, IHa, IHb by assumption. ring.
  - apply andb_prop in H as [Ha Hb]. rewrite padd_sound, pneg_sound, IHa, IHb by assumption. ring.
  - apply andb_prop in H as [Ha Hb]. rewrite pmul_sound, IHa, IHb by assumption. ring.
Qed.

Lemma closed4_ppow p n : closed4 p = true -> closed4 (ppow p n) = true.
Proof. intros H; induction n as [|n IH]; simpl; [reflexivity | rewrite H, IH; reflexivity]. Qed.
