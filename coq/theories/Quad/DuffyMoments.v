(* For every 1-D rule and every set of polynomial regions, the Duffy rule applied to a monomial equals the
   product-moment functional of the 1-D rule applied to the normalised region integrands (C12). *)
From Coq Require Import QArith ZArith List Lia Setoid Morphisms.
From BV Require Import Quad.Poly Quad.Rules.
Import ListNotations.
Open Scope Q_scope.

Lemma qsum_app l1 l2 : qsum (l1 ++ l2) == qsum l1 + qsum l2.
Proof. induction l1 as [|x l1 IH]; simpl; [ring | rewrite IH; ring]. Qed.

Lemma qsum_map_ext {A} (f g : A -> Q) l : (forall x, f x == g x) -> qsum (map f l) == qsum (map g l).
Proof. intros H; induction l as [|x l IH]; simpl; [reflexivity | rewrite H, IH; reflexivity]. Qed.

Lemma qsum_map_scale {A} c (f : A -> Q) l : qsum (map (fun x => c * f x) l) == c * qsum (map f l).
Proof. induction l as [|x l IH]; simpl; [ring | rewrite IH; ring]. Qed.

Lemma qsum_map_plus {A} (f g : A -> Q) l :
  qsum (map (fun x => f x + g x) l) == qsum (map f l) + qsum (map g l).
Proof. induction l as [|x l IH]; simpl; [ring | rewrite IH; ring]. Qed.

Lemma qsum_map_zero {A} (l : list A) : qsum (map (fun _ => 0) l) == 0.
Proof. induction l as [|x l IH]; simpl; [reflexivity | rewrite IH; ring]. Qed.

Lemma qsum_flat_map {A B} (f : A -> list B) (g : B -> Q) l :
  qsum (map g (flat_map f l)) == qsum (map (fun x => qsum (map g (f x))) l).
Proof. induction l as [|x l IH]; simpl; [reflexivity | rewrite map_app, qsum_app, IH; reflexivity]. Qed.

(* the double sum over (test, trial) tensor points of a function of the four Duffy variables *)
Definition dsum (xw : list (Q * Q)) (F : Q -> Q -> Q -> Q -> Q) : Q :=
  qsum (map (fun test : Q * Q * Q => qsum (map (fun trial : Q * Q * Q =>
    snd test * snd trial * F (fst (fst test)) (snd (fst test)) (fst (fst trial)) (snd (fst trial)))
    (tensor xw))) (tensor xw)).

Lemma dsum_ext xw F G : (forall x y z t, F x y z t == G x y z t) -> dsum xw F == dsum xw G.
Proof.
  intros H. unfold dsum. apply qsum_map_ext; intros test. apply qsum_map_ext; intros trial. rewrite H. reflexivity.
Qed.

Lemma dsum_plus xw F G : dsum xw (fun x y z t => F x y z t + G x y z t) == dsum xw F + dsum xw G.
Proof.
  unfold dsum. rewrite <- qsum_map_plus. apply qsum_map_ext; intros test.
  rewrite <- qsum_map_plus. apply qsum_map_ext; intros trial. ring.
Qed.

Lemma dsum_zero xw : dsum xw (fun _ _ _ _ => 0) == 0.
Proof.
  unfold dsum. transitivity (qsum (map (fun _ : Q * Q * Q => 0) (tensor xw))); [|apply qsum_map_zero].
  apply qsum_map_ext; intros test.
  transitivity (qsum (map (fun _ : Q * Q * Q => 0) (tensor xw))); [|apply qsum_map_zero].
  apply qsum_map_ext; intros trial. ring.
Qed.

(* separation of a tensor sum into two 1-D moments *)
Lemma tensor_sum_sep xw e0 e1 :
  qsum (map (fun t : Q * Q * Q => snd t * (qpow (fst (fst t)) e0 * qpow (snd (fst t)) e1)) (tensor xw))
  == moment xw e0 * moment xw e1.
Proof.
  unfold tensor. rewrite qsum_flat_map.
  transitivity (qsum (map (fun i : Q * Q => (snd i * qpow (fst i) e1) * moment xw e0) xw)).
  - apply qsum_map_ext; intros i. rewrite map_map; cbn [fst snd].
    unfold moment. rewrite <- qsum_map_scale. apply qsum_map_ext; intros j. ring.
  - unfold moment at 3.
    transitivity (qsum (map (fun i : Q * Q => moment xw e0 * (snd i * qpow (fst i) e1)) xw)).
    + apply qsum_map_ext; intros i. ring.
    + rewrite qsum_map_scale. reflexivity.
Qed.

Lemma dsum_term xw (t : term) :
  dsum xw (fun x y z u => term_eval (env4 x y z u) t)
  == (let '(a, b, c, d) := fst t in
      inject_Z (snd t) * moment xw a * moment xw b * moment xw c * moment xw d).
Proof.
  destruct t as [[[[a b] c] d] k]. cbn [fst snd]. unfold dsum.
  transitivity (qsum (map (fun test : Q * Q * Q =>
      (inject_Z k * (moment xw c * moment xw d)) * (snd test * (qpow (fst (fst test)) a * qpow (snd (fst test)) b)))
      (tensor xw))).
  - apply qsum_map_ext; intros test.
    transitivity (qsum (map (fun trial : Q * Q * Q =>
       (snd test * inject_Z k * qpow (fst (fst test)) a * qpow (snd (fst test)) b) *
       (snd trial * (qpow (fst (fst trial)) c * qpow (snd (fst trial)) d))) (tensor xw))).
    + apply qsum_map_ext; intros trial. unfold term_eval, mono_eval, env4; cbn [fst snd]. ring.
    + rewrite qsum_map_scale, tensor_sum_sep. ring.
  - rewrite qsum_map_scale, tensor_sum_sep. ring.
Qed.

Theorem dsum_poly xw (p : poly) :
  dsum xw (fun x y z u => poly_eval (env4 x y z u) p) == apply_moments (moment xw) p.
Proof.
  induction p as [|t p IH]; unfold apply_moments; cbn [poly_eval map qsum fold_right].
  - apply dsum_zero.
  - rewrite dsum_plus, dsum_term, IH. unfold apply_moments, qsum. reflexivity.
Qed.

(* sum of the normalised integrands of all regions *)
Definition total_poly (regs : list region) (a b c d : nat) : poly :=
  fold_right (fun r acc => padd (norm (integrand r a b c d)) acc) [] regs.

Lemma integrand_closed r a b c d : region_closed r = true -> closed4 (integrand r a b c d) = true.
Proof.
  unfold region_closed. intros H.
  repeat (apply andb_prop in H; destruct H as [H ?]).
  cbn [integrand closed4]. rewrite !closed4_ppow by assumption.
  repeat (apply andb_true_intro; split); assumption || reflexivity.
Qed.

Lemma region_term test trial r a b c d :
  region_closed r = true ->
  q_w (region_point test trial r) * monoQ a b c d (region_point test trial r)
  == snd test * snd trial *
     poly_eval (env4 (fst (fst test)) (snd (fst test)) (fst (fst trial)) (snd (fst trial)))
               (norm (integrand r a b c d)).
Proof.
  intros H. destruct test as [[xsi eta1] wt], trial as [[eta2 eta3] wr]. cbn [fst snd].
  rewrite norm_sound by (apply integrand_closed; exact H).
  unfold region_point, monoQ; cbn [q_w q_t0 q_t1 q_r0 q_r1 integrand pevalQ].
  rewrite !pevalQ_ppow. ring.
Qed.

Lemma regions_sum test trial regs a b c d :
  forallb region_closed regs = true ->
  qsum (map (fun p => q_w p * monoQ a b c d p) (map (region_point test trial) regs))
  == snd test * snd trial *
     poly_eval (env4 (fst (fst test)) (snd (fst test)) (fst (fst trial)) (snd (fst trial)))
               (total_poly regs a b c d).
Proof.
  induction regs as [|r regs IH]; cbn [forallb map qsum fold_right total_poly]; intros H.
  - cbn [poly_eval]. ring.
  - apply andb_prop in H as [Hr Hs]. fold (qsum (map (fun p => q_w p * monoQ a b c d p) (map (region_point test trial) regs))).
    rewrite IH by exact Hs. rewrite region_term by exact Hr. rewrite padd_sound.
    fold (total_poly regs a b c d). ring.
Qed.

Theorem duffy_product_moment regs xw a b c d :
  forallb region_closed regs = true ->
  rule_sum (duffy_rule regs xw) (monoQ a b c d) == apply_moments (moment xw) (total_poly regs a b c d).
Proof.
  intros H. rewrite <- dsum_poly. unfold rule_sum, duffy_rule, dsum.
  rewrite qsum_flat_map. apply qsum_map_ext; intros test.
  rewrite qsum_flat_map. apply qsum_map_ext; intros trial.
  apply regions_sum. exact H.
Qed.

(* ---- point counts ------------------------------------------------------------------------------------ *)
Lemma flat_map_length_const {A B} (f : A -> list B) l k :
  (forall x, length (f x) = k) -> length (flat_map f l) = (length l * k)%nat.
Proof. intros H; induction l as [|x l IH]; simpl; [reflexivity | rewrite app_length, H, IH; reflexivity]. Qed.

Lemma tensor_length xw : length (tensor xw) = (length xw * length xw)%nat.
Proof. unfold tensor. apply flat_map_length_const. intros; apply map_length. Qed.

Theorem duffy_rule_length regs xw :
  length (duffy_rule regs xw) = (length regs * (length xw * length xw * (length xw * length xw)))%nat.
Proof.
  unfold duffy_rule.
  rewrite (flat_map_length_const _ _ (length (tensor xw) * length regs)%nat).
  - rewrite tensor_length. lia.
  - intros test. apply flat_map_length_const. intros; apply map_length.
Qed.
