(* The Sauter-Schwab identity for the translated Duffy regions with the exact moments 1/(k+1): for every
   monomial of total degree <= 8 the region integrands sum to the exact integral over the product of two
   reference triangles; remap facts (C12, C01). *)
From Coq Require Import QArith ZArith List Lia Bool.
From BVgen Require Import DuffyRegions.
From BV Require Import Quad.Poly Quad.Rules Quad.DuffyMoments Quad.Exactness.
Import ListNotations.

Definition exact_mu (k : nat) : Q := 1 # Pos.of_nat (k + 1).
(* int_T int_T x1^a x2^b y1^c y2^d  =  a! b! / (a+b+2)!  *  c! d! / (c+d+2)! *)
Definition exactQ (a b c d : nat) : Q :=
  (zfact a * zfact b * zfact c * zfact d) # Z.to_pos (zfact (a + b + 2) * zfact (c + d + 2)).

Definition monos4 (n : nat) : list (nat * nat * nat * nat) :=
  flat_map (fun a => flat_map (fun b => flat_map (fun c => map (fun d => (a, b, c, d))
    (seq 0 (n + 1 - a - b - c))) (seq 0 (n + 1 - a - b))) (seq 0 (n + 1 - a))) (seq 0 (n + 1)).

Lemma in_monos4 n a b c d : (a + b + c + d <= n)%nat -> In (a, b, c, d) (monos4 n).
Proof.
  intros H. unfold monos4.
  apply in_flat_map. exists a. split; [apply in_seq; lia|].
  apply in_flat_map. exists b. split; [apply in_seq; lia|].
  apply in_flat_map. exists c. split; [apply in_seq; lia|].
  apply in_map. apply in_seq. lia.
Qed.

Definition max_exp (p : poly) : nat :=
  fold_right (fun t acc => let '(a, b, c, d) := fst t in Nat.max (Nat.max (Nat.max a b) (Nat.max c d)) acc) 0%nat p.

(* identity with exact moments, and: every variable occurs with exponent <= total degree + 3 *)
Definition id_ok (regs : list region) (m : nat * nat * nat * nat) : bool :=
  let '(a, b, c, d) := m in
  let p := total_poly regs a b c d in
  Qeq_bool (apply_moments exact_mu p) (exactQ a b c d) && Nat.leb (max_exp p) (a + b + c + d + 3).

Definition cap : nat := 8.

Lemma id_coincident : forallb (id_ok duffy_coincident) (monos4 cap) = true.
Proof. vm_compute. reflexivity. Qed.
Lemma id_edge : forallb (id_ok duffy_edge) (monos4 cap) = true.
Proof. vm_compute. reflexivity. Qed.
Lemma id_vertex : forallb (id_ok duffy_vertex) (monos4 cap) = true.
Proof. vm_compute. reflexivity. Qed.

Lemma regions_closed adj : forallb region_closed (regions_of adj) = true.
Proof. destruct adj as [|[|adj]]; vm_compute; reflexivity. Qed.

Lemma region_counts :
  length duffy_coincident = 6%nat /\ length duffy_edge = 5%nat /\ length duffy_vertex = 2%nat /\
  duffy_count_factor_coincident = 6%Z /\ duffy_count_factor_edge = 5%Z /\ duffy_count_factor_vertex = 2%Z.
Proof. repeat split; vm_compute; reflexivity. Qed.

Theorem duffy_identity adj a b c d :
  (a + b + c + d <= cap)%nat ->
  apply_moments exact_mu (total_poly (regions_of adj) a b c d) == exactQ a b c d /\
  (max_exp (total_poly (regions_of adj) a b c d) <= a + b + c + d + 3)%nat.
Proof.
  intros H. pose proof (in_monos4 _ _ _ _ _ H) as Hin.
  assert (S : id_ok (regions_of adj) (a, b, c, d) = true).
  { destruct adj as [|[|adj]]; cbn [regions_of].
    - exact (proj1 (forallb_forall _ _) id_coincident _ Hin).
    - exact (proj1 (forallb_forall _ _) id_edge _ Hin).
    - exact (proj1 (forallb_forall _ _) id_vertex _ Hin). }
  unfold id_ok in S. apply andb_prop in S as [S1 S2]. split.
  - apply Qeq_bool_iff. exact S1.
  - apply Nat.leb_le. exact S2.
Qed.

(* ---- remaps ------------------------------------------------------------------------------------------ *)
Local Open Scope Q_scope.
Definition vtx (x0 x1 x2 : Q) (k : nat) : Q := match k with 0%nat => x0 | 1%nat => x1 | _ => x2 end.

(* the edge remap (v0,v1) places vertex v0 at the reference origin, v1 at (1,0), the third vertex at (0,1) *)
Theorem remap_edge_places x0 x1 x2 v0 v1 p :
  (v0 < 3)%nat -> (v1 < 3)%nat -> v0 <> v1 ->
  local2global x0 x1 x2 (remap_edge v0 v1 p)
  == vtx x0 x1 x2 v0 + (vtx x0 x1 x2 v1 - vtx x0 x1 x2 v0) * fst p
     + (vtx x0 x1 x2 (3 - v0 - v1) - vtx x0 x1 x2 v0) * snd p.
Proof.
  intros H0 H1 Hne. destruct p as [p1 p2].
  destruct v0 as [|[|[|v0]]]; destruct v1 as [|[|[|v1]]]; try lia;
    unfold local2global, remap_edge, ref_vertex, vtx; cbn [fst snd Nat.sub]; ring.
Qed.

Definition vperm (k i : nat) : nat :=
  match k, i with
  | 0%nat, _ => i
  | 1%nat, 0%nat => 1%nat | 1%nat, 1%nat => 0%nat | 1%nat, _ => 2%nat
  | _, 0%nat => 2%nat | _, 1%nat => 1%nat | _, _ => 0%nat end.

(* the vertex remap k places vertex k at the reference origin *)
Theorem remap_vertex_places x0 x1 x2 k p :
  (k < 3)%nat ->
  local2global x0 x1 x2 (remap_vertex k p)
  == vtx x0 x1 x2 k + (vtx x0 x1 x2 (vperm k 1) - vtx x0 x1 x2 k) * fst p
     + (vtx x0 x1 x2 (vperm k 2) - vtx x0 x1 x2 k) * snd p.
Proof.
  intros H. destruct p as [p1 p2].
  destruct k as [|[|[|k]]]; try lia;
    unfold local2global, remap_vertex, remap_vertex_expr, vtx, vperm; cbn; ring.
Qed.
