(* Finite sweeps over the shipped quadrature tables (computed in BigZ, stated in Z) and the exact-moment
   Sauter-Schwab identity for the translated Duffy regions (C12). *)
From Coq Require Import QArith ZArith List Lia Bool.
From Bignums Require Import BigZ.
From BVgen Require Import TriTables GaussTables DuffyRegions.
From BV Require Import Quad.Poly Quad.Rules Quad.DuffyMoments.
Import ListNotations.
Open Scope Z_scope.

(* ---- Z-level statements ------------------------------------------------------------------------------ *)
Fixpoint zfact (n : nat) : Z := match n with O => 1 | S k => Z.of_nat n * zfact k end.
Definition zsum (l : list Z) : Z := fold_right Z.add 0 l.

(* |num/den - enum/eden| <= 1/tolinv, for positive den, eden *)
Definition within (num den enum eden tolinv : Z) : bool :=
  Z.abs (num * eden - enum * den) * tolinv <=? den * eden.

Definition tri_term (a b : nat) (p : Z * Z * Z) : Z :=
  let '(x, y, w) := p in w * x ^ Z.of_nat a * y ^ Z.of_nat b.
Definition tri_moment (r : list (Z * Z * Z)) (a b : nat) : Z := zsum (map (tri_term a b) r).
Definition tri_den (a b : nat) : Z := 2 ^ (tri_scale * Z.of_nat (1 + a + b) + 1).
(* sum_i w_i x_i^a y_i^b  versus  a! b! / (a+b+2)!  at tolerance 1e-14 *)
Definition tri_ok (r : list (Z * Z * Z)) (a b : nat) : bool :=
  within (tri_moment r a b) (tri_den a b) (zfact a * zfact b) (zfact (a + b + 2)) (10 ^ 14).

Definition gauss_term (k : nat) (p : Z * Z) : Z := snd p * fst p ^ Z.of_nat k.
Definition gauss_moment (r : list (Z * Z)) (k : nat) : Z := zsum (map (gauss_term k) r).
Definition gauss_mden (k : nat) : Z := 2 ^ ((gauss_scale + 1) * Z.of_nat (1 + k)).
(* sum_i w_i x_i^k  versus  1/(k+1)  at tolerance 1e-14 *)
Definition gauss_ok (r : list (Z * Z)) (k : nat) : bool :=
  within (gauss_moment r k) (gauss_mden k) 1 (Z.of_nat (k + 1)) (10 ^ 14).

Definition monos (n : nat) : list (nat * nat) :=
  flat_map (fun a => map (fun b => (a, b)) (seq 0 (n + 1 - a))) (seq 0 (n + 1)).
Definition monos_exact (n : nat) : list (nat * nat) := map (fun a => (a, (n - a)%nat)) (seq 0 (n + 1)).

Definition tri_order_ok (n : nat) : bool :=
  match tri_rule (Z.of_nat n) with
  | Some r => tri_lookup_in_bounds (Z.of_nat n) && forallb (fun ab => tri_ok r (fst ab) (snd ab)) (monos n)
  | None => false end.
Definition gauss_order_ok (n : nat) : bool :=
  match gauss_rule (Z.of_nat n) with
  | Some r => gauss_lookup_in_bounds (Z.of_nat n) && Nat.eqb (length r) n && forallb (gauss_ok r) (seq 0 (2 * n))
  | None => false end.
(* the tolerance is not vacuous: one degree beyond the claim some monomial is NOT integrated to 1e-14 *)
Definition tri_order_not_overclaimed (n : nat) : bool :=
  match tri_rule (Z.of_nat n) with
  | Some r => existsb (fun ab => negb (tri_ok r (fst ab) (snd ab))) (monos_exact (n + 1))
  | None => false end.

(* ---- the same computations in BigZ -------------------------------------------------------------------- *)
Local Notation tz := BigZ.to_Z.
Definition inj := BigZ.of_Z.
Fixpoint bfact (n : nat) : bigZ := match n with O => BigZ.one | S k => BigZ.mul (inj (Z.of_nat n)) (bfact k) end.
Definition bsum (l : list bigZ) : bigZ := fold_right BigZ.add BigZ.zero l.
Definition bwithin (num den enum eden tolinv : bigZ) : bool :=
  BigZ.leb (BigZ.mul (BigZ.abs (BigZ.sub (BigZ.mul num eden) (BigZ.mul enum den))) tolinv) (BigZ.mul den eden).
Definition btri_term (a b : nat) (p : Z * Z * Z) : bigZ :=
  let '(x, y, w) := p in
  BigZ.mul (BigZ.mul (inj w) (BigZ.pow (inj x) (inj (Z.of_nat a)))) (BigZ.pow (inj y) (inj (Z.of_nat b))).
Definition btri_ok (r : list (Z * Z * Z)) (a b : nat) : bool :=
  bwithin (bsum (map (btri_term a b) r)) (inj (tri_den a b)) (BigZ.mul (bfact a) (bfact b)) (bfact (a + b + 2))
          (inj (10 ^ 14)).
Definition bgauss_term (k : nat) (p : Z * Z) : bigZ := BigZ.mul (inj (snd p)) (BigZ.pow (inj (fst p)) (inj (Z.of_nat k))).
Definition bgauss_ok (r : list (Z * Z)) (k : nat) : bool :=
  bwithin (bsum (map (bgauss_term k) r)) (inj (gauss_mden k)) BigZ.one (inj (Z.of_nat (k + 1))) (inj (10 ^ 14)).

Lemma inj_spec z : (tz (inj z)) = z.
Proof. apply BigZ.spec_of_Z. Qed.
Lemma bfact_spec n : (tz (bfact n)) = zfact n.
Proof.
  induction n as [|n IH]; [reflexivity|].
  change (bfact (S n)) with (BigZ.mul (inj (Z.of_nat (S n))) (bfact n)).
  change (zfact (S n)) with (Z.of_nat (S n) * zfact n).
  rewrite BigZ.spec_mul, inj_spec, IH. reflexivity.
Qed.
Lemma bsum_spec l : (tz (bsum l)) = zsum (map BigZ.to_Z l).
Proof. induction l as [|x l IH]; simpl; [reflexivity | rewrite BigZ.spec_add, IH; reflexivity]. Qed.
Lemma bwithin_spec a b c d e : bwithin a b c d e = within (tz (a)) (tz (b)) (tz (c)) (tz (d)) (tz (e)).
Proof.
  unfold bwithin, within. rewrite BigZ.spec_leb.
  rewrite !BigZ.spec_mul, BigZ.spec_abs, BigZ.spec_sub, !BigZ.spec_mul. reflexivity.
Qed.
Lemma btri_term_spec a b p : (tz (btri_term a b p)) = tri_term a b p.
Proof.
  destruct p as [[x y] w]. unfold btri_term, tri_term.
  rewrite !BigZ.spec_mul, !BigZ.spec_pow, !inj_spec. reflexivity.
Qed.
Lemma bgauss_term_spec k p : (tz (bgauss_term k p)) = gauss_term k p.
Proof. unfold bgauss_term, gauss_term. rewrite BigZ.spec_mul, BigZ.spec_pow, !inj_spec. reflexivity. Qed.

Lemma btri_ok_spec r a b : btri_ok r a b = tri_ok r a b.
Proof.
  unfold btri_ok, tri_ok. rewrite bwithin_spec, bsum_spec, map_map, BigZ.spec_mul, !bfact_spec, !inj_spec.
  unfold tri_moment. f_equal. f_equal. apply map_ext. intros p. apply btri_term_spec.
Qed.
Lemma bgauss_ok_spec r k : bgauss_ok r k = gauss_ok r k.
Proof.
  unfold bgauss_ok, gauss_ok. rewrite bwithin_spec, bsum_spec, map_map, !inj_spec.
  unfold gauss_moment. f_equal. f_equal. apply map_ext. intros p. apply bgauss_term_spec.
Qed.

Definition btri_order_ok (n : nat) : bool :=
  match tri_rule (Z.of_nat n) with
  | Some r => tri_lookup_in_bounds (Z.of_nat n) && forallb (fun ab => btri_ok r (fst ab) (snd ab)) (monos n)
  | None => false end.
Definition bgauss_order_ok (n : nat) : bool :=
  match gauss_rule (Z.of_nat n) with
  | Some r => gauss_lookup_in_bounds (Z.of_nat n) && Nat.eqb (length r) n && forallb (bgauss_ok r) (seq 0 (2 * n))
  | None => false end.
Definition btri_order_not_overclaimed (n : nat) : bool :=
  match tri_rule (Z.of_nat n) with
  | Some r => existsb (fun ab => negb (btri_ok r (fst ab) (snd ab))) (monos_exact (n + 1))
  | None => false end.

Lemma forallb_eq {A} (f g : A -> bool) l : (forall x, f x = g x) -> forallb f l = forallb g l.
Proof. intros H; induction l as [|x l IH]; simpl; [reflexivity | rewrite H, IH; reflexivity]. Qed.
Lemma existsb_eq {A} (f g : A -> bool) l : (forall x, f x = g x) -> existsb f l = existsb g l.
Proof. intros H; induction l as [|x l IH]; simpl; [reflexivity | rewrite H, IH; reflexivity]. Qed.

Lemma tri_order_ok_big n : tri_order_ok n = btri_order_ok n.
Proof.
  unfold tri_order_ok, btri_order_ok. destruct (tri_rule (Z.of_nat n)); [|reflexivity].
  f_equal. apply forallb_eq; intros ab. symmetry; apply btri_ok_spec.
Qed.
Lemma gauss_order_ok_big n : gauss_order_ok n = bgauss_order_ok n.
Proof.
  unfold gauss_order_ok, bgauss_order_ok. destruct (gauss_rule (Z.of_nat n)); [|reflexivity].
  f_equal. apply forallb_eq; intros k. symmetry; apply bgauss_ok_spec.
Qed.
Lemma tri_order_not_overclaimed_big n : tri_order_not_overclaimed n = btri_order_not_overclaimed n.
Proof.
  unfold tri_order_not_overclaimed, btri_order_not_overclaimed. destruct (tri_rule (Z.of_nat n)); [|reflexivity].
  apply existsb_eq; intros ab. rewrite btri_ok_spec. reflexivity.
Qed.

Lemma tri_sweep_true : forallb tri_order_ok (seq 1 20) = true.
Proof. rewrite (forallb_eq _ _ _ tri_order_ok_big). vm_compute. reflexivity. Qed.
Lemma gauss_sweep_true : forallb gauss_order_ok (seq 1 30) = true.
Proof. rewrite (forallb_eq _ _ _ gauss_order_ok_big). vm_compute. reflexivity. Qed.
Lemma tri_not_overclaimed_true : forallb tri_order_not_overclaimed (seq 1 19) = true.
Proof. rewrite (forallb_eq _ _ _ tri_order_not_overclaimed_big). vm_compute. reflexivity. Qed.

(* ---- unfolding the sweeps into quantified statements --------------------------------------------------- *)
Lemma within_spec num den enum eden tolinv :
  within num den enum eden tolinv = true <-> Z.abs (num * eden - enum * den) * tolinv <= den * eden.
Proof. unfold within. apply Z.leb_le. Qed.

Lemma in_monos n a b : (a + b <= n)%nat -> In (a, b) (monos n).
Proof.
  intros H. unfold monos. apply in_flat_map. exists a. split.
  - apply in_seq. lia.
  - apply in_map. apply in_seq. lia.
Qed.

Lemma Z_range_nat lo hi z : Z.of_nat lo <= z <= Z.of_nat hi -> In (Z.to_nat z) (seq lo (hi + 1 - lo)) /\ Z.of_nat (Z.to_nat z) = z.
Proof. intros H. split; [apply in_seq|]; lia. Qed.

Theorem tri_exact order a b :
  1 <= order <= 20 -> (a + b <= Z.to_nat order)%nat ->
  exists r, tri_rule order = Some r /\ tri_lookup_in_bounds order = true /\ tri_ok r a b = true.
Proof.
  intros Ho Hab. destruct (Z_range_nat 1 20 order Ho) as [Hin Hz].
  pose proof (proj1 (forallb_forall _ _) tri_sweep_true _ Hin) as S.
  unfold tri_order_ok in S. rewrite Hz in S. destruct (tri_rule order) as [r|]; [|discriminate].
  apply andb_prop in S as [S1 S2]. exists r. repeat split; [exact S1|].
  rewrite forallb_forall in S2. exact (S2 (a, b) (in_monos _ _ _ Hab)).
Qed.

Theorem gauss_exact order k :
  1 <= order <= 30 -> (k <= 2 * Z.to_nat order - 1)%nat ->
  exists r, gauss_rule order = Some r /\ gauss_lookup_in_bounds order = true /\
            length r = Z.to_nat order /\ gauss_ok r k = true.
Proof.
  intros Ho Hk. destruct (Z_range_nat 1 30 order Ho) as [Hin Hz].
  pose proof (proj1 (forallb_forall _ _) gauss_sweep_true _ Hin) as S.
  unfold gauss_order_ok in S. rewrite Hz in S. destruct (gauss_rule order) as [r|]; [|discriminate].
  apply andb_prop in S as [S1 S3]. apply andb_prop in S1 as [S1 S2]. exists r. repeat split; [exact S1| |].
  - apply Nat.eqb_eq. exact S2.
  - rewrite forallb_forall in S3. apply S3. apply in_seq. lia.
Qed.

Theorem tri_not_overclaimed order :
  1 <= order <= 19 ->
  exists r a b, tri_rule order = Some r /\ (a + b = Z.to_nat order + 1)%nat /\ tri_ok r a b = false.
Proof.
  intros Ho. destruct (Z_range_nat 1 19 order Ho) as [Hin Hz].
  pose proof (proj1 (forallb_forall _ _) tri_not_overclaimed_true _ Hin) as S.
  unfold tri_order_not_overclaimed in S. rewrite Hz in S. destruct (tri_rule order) as [r|]; [|discriminate].
  apply existsb_exists in S as [[a b] [Hin2 Hneg]]. exists r, a, b. repeat split.
  - unfold monos_exact in Hin2. apply in_map_iff in Hin2 as [a' [E Ha]]. inversion E; subst.
    apply in_seq in Ha. lia.
  - apply negb_true_iff in Hneg. exact Hneg.
Qed.

Theorem tri_rejects_outside order : order < 1 \/ order > 20 -> tri_rule order = None.
Proof.
  intros H. unfold tri_rule, tri_rejects.
  change tri_guard_lo with 1. change tri_guard_hi with 20.
  destruct (order <? 1) eqn:E1; [reflexivity|]. destruct (order >? 20) eqn:E2; [reflexivity|]. lia.
Qed.
Theorem gauss_rejects_outside order : order < 1 \/ order > 30 -> gauss_rule order = None.
Proof.
  intros H. unfold gauss_rule, gauss_rejects.
  change gauss_guard_lo with 1. change gauss_guard_hi with 30.
  destruct (order <? 1) eqn:E1; [reflexivity|]. destruct (order >? 30) eqn:E2; [reflexivity|]. lia.
Qed.
