(* Executable models of the rule lookups (triangle_gauss.rule, gauss.rule) and of the Duffy construction
   (duffy_galerkin.rule), over the tables and region formulas regenerated from /repo.  No proofs here. *)
From Coq Require Import QArith ZArith List Lia.
From BVgen Require Import TriTables GaussTables DuffyRegions.
From BV Require Import Quad.Poly.
Import ListNotations.

Fixpoint drop {A} (n : nat) (l : list A) : list A :=
  match n with O => l | S n' => match l with [] => [] | _ :: t => drop n' t end end.
Fixpoint take {A} (n : nat) (l : list A) : list A :=
  match n with O => [] | S n' => match l with [] => [] | h :: t => h :: take n' t end end.
Definition slice {A} (a n : nat) (l : list A) : list A := take n (drop a l).
Definition znth (l : list Z) (i : Z) : Z := nth (Z.to_nat i) l 0%Z.

Fixpoint triples (l : list Z) : list (Z * Z * Z) :=
  match l with a :: b :: c :: t => (a, b, c) :: triples t | _ => [] end.

(* ---- triangle_gauss.rule ----------------------------------------------------------------------------
   result: (x, y, w) numerators; the point is (x / 2^tri_scale, y / 2^tri_scale), the weight (the code's
   0.5 * weights[..]) is w / 2^(tri_scale+1).  [None] models the ValueError of the guard. *)
Definition tri_rejects (order : Z) : bool := ((order <? tri_guard_lo) || (order >? tri_guard_hi))%Z.

Definition tri_npoints (order : Z) : Z := znth tri_points_per_order (order - 1).
Definition tri_address (order : Z) : Z := znth tri_points_address (tri_npoints order - 1).

(* the indices the lookup performs stay inside the tables (Python would raise or wrap otherwise) *)
Definition tri_lookup_in_bounds (order : Z) : bool :=
  let np := tri_npoints order in let ad := tri_address order in
  ((0 <=? order - 1) && (order - 1 <? Z.of_nat (length tri_points_per_order)) &&
   (0 <=? np - 1) && (np - 1 <? Z.of_nat (length tri_points_address)) &&
   (0 <=? ad) && (3 * (ad + np) <=? Z.of_nat (length tri_coords)) &&
   (ad + np <=? Z.of_nat (length tri_weights)))%Z.

Definition tri_rule (order : Z) : option (list (Z * Z * Z)) :=
  if tri_rejects order then None else
  let np := Z.to_nat (tri_npoints order) in
  let ad := Z.to_nat (tri_address order) in
  (* reshape((3, npoints), order="F"): column c is (flat[3c], flat[3c+1], flat[3c+2]); rows 1 and 2 are kept *)
  let cs := triples (slice (3 * ad) (3 * np) tri_coords) in
  let ws := slice ad np tri_weights in
  Some (map (fun cw => let '((_, x, y), w) := cw in (x, y, w)) (combine cs ws)).

(* ---- gauss.rule ---------------------------------------------------------------------------------------
   result: (X, W) with point = X / 2^(gauss_scale+1) where X = 2^gauss_scale + c  (0.5*(1+c)),
   weight = W / 2^(gauss_scale+1). *)
Definition gauss_rejects (order : Z) : bool := ((order <? gauss_guard_lo) || (order >? gauss_guard_hi))%Z.
Definition gauss_address (order : Z) : Z := ((order * (order - 1)) / 2)%Z.
Definition gauss_lookup_in_bounds (order : Z) : bool :=
  ((0 <=? gauss_address order) && (gauss_address order + order <=? Z.of_nat (length gauss_coords)) &&
   (gauss_address order + order <=? Z.of_nat (length gauss_weights)))%Z.
Definition gauss_rule (order : Z) : option (list (Z * Z)) :=
  if gauss_rejects order then None else
  let np := Z.to_nat order in let ad := Z.to_nat (gauss_address order) in
  Some (combine (map (fun c => (2 ^ gauss_scale + c)%Z) (slice ad np gauss_coords)) (slice ad np gauss_weights)).

Definition gauss_den : Z := (2 ^ (gauss_scale + 1))%Z.
Definition gauss_ruleQ (order : Z) : option (list (Q * Q)) :=
  match gauss_rule order with
  | None => None
  | Some r => Some (map (fun xw => (fst xw # Z.to_pos gauss_den, snd xw # Z.to_pos gauss_den)) r)
  end.

(* ---- duffy_galerkin.rule ------------------------------------------------------------------------------
   for an arbitrary 1-D rule [xw] (points, weights) over Q.  Order of the result list = order of `index`. *)
Definition tensor (xw : list (Q * Q)) : list (Q * Q * Q) :=
  (* tensor_points[0, i*n+j] = x_j ; tensor_points[1, i*n+j] = x_i ; tensor_weights = w_i * w_j *)
  flat_map (fun i => map (fun j => (fst j, fst i, snd i * snd j)) xw) xw.

Definition env4 (xsi eta1 eta2 eta3 : Q) : nat -> Q :=
  fun k => match k with 0%nat => xsi | 1%nat => eta1 | 2%nat => eta2 | 3%nat => eta3 | _ => 0 end.

Record qpoint := mkQ { q_t0 : Q; q_t1 : Q; q_r0 : Q; q_r1 : Q; q_w : Q }.

Definition region_point (test trial : Q * Q * Q) (r : region) : qpoint :=
  let '(xsi, eta1, wt) := test in let '(eta2, eta3, wr) := trial in
  let v := env4 xsi eta1 eta2 eta3 in
  mkQ (pevalQ v (rt0 r)) (pevalQ v (rt1 r)) (pevalQ v (rr0 r)) (pevalQ v (rr1 r)) (wt * wr * pevalQ v (rw r)).

Definition duffy_rule (regs : list region) (xw : list (Q * Q)) : list qpoint :=
  flat_map (fun test => flat_map (fun trial => map (region_point test trial) regs) (tensor xw)) (tensor xw).

Definition regions_of (adjacency : nat) : list region :=
  match adjacency with 0%nat => duffy_coincident | 1%nat => duffy_edge | _ => duffy_vertex end.
Definition count_factor_of (adjacency : nat) : Z :=
  match adjacency with 0%nat => duffy_count_factor_coincident | 1%nat => duffy_count_factor_edge
  | _ => duffy_count_factor_vertex end.

Definition duffy (order : Z) (adjacency : nat) : option (list qpoint) :=
  match gauss_ruleQ order with None => None | Some xw => Some (duffy_rule (regions_of adjacency) xw) end.

Definition qsum (l : list Q) : Q := fold_right Qplus 0 l.
Definition monoQ (a b c d : nat) (p : qpoint) : Q :=
  qpow (q_t0 p) a * qpow (q_t1 p) b * qpow (q_r0 p) c * qpow (q_r1 p) d.
Definition rule_sum (pts : list qpoint) (f : qpoint -> Q) : Q := qsum (map (fun p => q_w p * f p) pts).

(* the integrand of region r for the monomial x1^a x2^b y1^c y2^d, as a polynomial in (xsi, eta1, eta2, eta3) *)
Definition integrand (r : region) (a b c d : nat) : pexpr :=
  PMul (rw r) (PMul (PMul (ppow (rt0 r) a) (ppow (rt1 r) b)) (PMul (ppow (rr0 r) c) (ppow (rr1 r) d))).

(* moment functional of a 1-D rule applied to a normal-form polynomial *)
Definition moment (xw : list (Q * Q)) (k : nat) : Q := qsum (map (fun p => snd p * qpow (fst p) k) xw).
Definition apply_moments (mu : nat -> Q) (p : poly) : Q :=
  qsum (map (fun t => let '(a, b, c, d) := fst t in inject_Z (snd t) * mu a * mu b * mu c * mu d) p).

Definition region_closed (r : region) : bool :=
  closed4 (rt0 r) && closed4 (rt1 r) && closed4 (rr0 r) && closed4 (rr1 r) && closed4 (rw r).

(* ---- remaps --------------------------------------------------------------------------------------------
   remap_points_shared_edge(points, v0, v1): affine map sending reference vertices (0,1,2) to (v0,v1,3-v0-v1). *)
Definition ref_vertex (k : nat) : Q * Q := match k with 0%nat => (0, 0) | 1%nat => (1, 0) | _ => (0, 1) end.
Definition remap_edge (v0 v1 : nat) (p : Q * Q) : Q * Q :=
  let a := ref_vertex v0 in let b := ref_vertex v1 in let c := ref_vertex (3 - v0 - v1) in
  (fst a + (fst b - fst a) * fst p + (fst c - fst a) * snd p,
   snd a + (snd b - snd a) * fst p + (snd c - snd a) * snd p).
Definition remap_vertex_expr (k : nat) : pexpr * pexpr :=
  match k with 0%nat => vertex_remap_0 | 1%nat => vertex_remap_1 | _ => vertex_remap_2 end.
Definition remap_vertex (k : nat) (p : Q * Q) : Q * Q :=
  let v := fun i => match i with 0%nat => fst p | _ => snd p end in
  (pevalQ v (fst (remap_vertex_expr k)), pevalQ v (snd (remap_vertex_expr k))).
(* reference-to-physical map of a triangle with vertices x0 x1 x2 (one coordinate at a time) *)
Definition local2global (x0 x1 x2 : Q) (p : Q * Q) : Q := x0 + (x1 - x0) * fst p + (x2 - x0) * snd p.
