(* Assembly of the C12 statements from the pieces in Exactness, DuffyMoments and DuffyExact. *)
From Coq Require Import QArith ZArith List Lia Bool.
From BVgen Require Import DuffyRegions.
From BV Require Import Quad.Poly Quad.Rules Quad.DuffyMoments Quad.Exactness Quad.DuffyExact.
Import ListNotations.

Lemma gauss_ruleQ_length order xw :
  (1 <= order <= 30)%Z -> gauss_ruleQ order = Some xw -> length xw = Z.to_nat order.
Proof.
  intros Ho H. destruct (gauss_exact order 0 Ho ltac:(lia)) as (r & Hr & _ & Hl & _).
  unfold gauss_ruleQ in H. rewrite Hr in H. inversion H; subst. rewrite map_length. exact Hl.
Qed.

(* advertised number of points: 6 n^4, 5 n^4, 2 n^4 *)
Theorem duffy_counts order adj pts :
  (1 <= order <= 30)%Z -> (adj < 3)%nat -> duffy order adj = Some pts ->
  Z.of_nat (length pts) = (count_factor_of adj * order ^ 4)%Z /\
  count_factor_of adj = match adj with 0%nat => 6%Z | 1%nat => 5%Z | _ => 2%Z end.
Proof.
  intros Ho Ha H. unfold duffy in H. destruct (gauss_ruleQ order) as [xw|] eqn:E; [|discriminate].
  inversion H; subst. rewrite duffy_rule_length, (gauss_ruleQ_length _ _ Ho E).
  destruct region_counts as (c6 & c5 & c2 & f6 & f5 & f2).
  assert (Hn : Z.of_nat (Z.to_nat order) = order) by lia.
  destruct adj as [|[|[|adj]]]; try lia; cbn [regions_of count_factor_of];
    rewrite ?c6, ?c5, ?c2, ?f6, ?f5, ?f2; (split; [|reflexivity]);
    rewrite !Nat2Z.inj_mul, Hn; ring.
Qed.

(* Exactness of the singular rules, as far as it is proved (see DESIGN.md, C12): for n = 2..30, every
   adjacency type and every monomial of total degree <= min(2n-4, 8):
   (i)   the rule applied to the monomial IS the product-moment functional of the n-point Gauss rule applied
         to the summed, normalised region integrands;
   (ii)  that functional evaluated at the exact moments 1/(k+1) gives the exact integral;
   (iii) the polynomial only involves exponents <= 2n-1, and
   (iv)  each Gauss moment of degree <= 2n-1 is within 1e-14 of 1/(k+1).
   Not proved: the elementary perturbation bound that turns (ii)+(iv) into one tolerance on (i). *)
Theorem duffy_exact_partial order adj a b c d xw :
  (2 <= order <= 30)%Z -> (adj < 3)%nat -> gauss_ruleQ order = Some xw ->
  (a + b + c + d <= 2 * Z.to_nat order - 4)%nat -> (a + b + c + d <= cap)%nat ->
  let p := total_poly (regions_of adj) a b c d in
  rule_sum (duffy_rule (regions_of adj) xw) (monoQ a b c d) == apply_moments (moment xw) p /\
  apply_moments exact_mu p == exactQ a b c d /\
  (max_exp p <= 2 * Z.to_nat order - 1)%nat /\
  (forall k, (k <= 2 * Z.to_nat order - 1)%nat ->
     exists r, gauss_rule order = Some r /\ gauss_ok r k = true).
Proof.
  intros Ho Ha Hxw Hdeg Hcap p. destruct (duffy_identity adj a b c d Hcap) as [I1 I2].
  split; [apply duffy_product_moment; apply regions_closed|].
  split; [exact I1|]. split; [fold p in I2; lia|].
  intros k Hk. destruct (gauss_exact order k ltac:(lia) Hk) as (r & Hr & _ & _ & Hok). exists r. split; assumption.
Qed.
