(* Perturbation step: Gauss moments within 1e-14 of 1/(k+1)  +  exact-moment identity  ==>  one numerical
   tolerance on the Duffy rules applied to monomials (C12). *)
From Coq Require Import QArith Qabs ZArith List Lia Lqa Bool Setoid.
From BVgen Require Import GaussTables DuffyRegions.
From BV Require Import Quad.Poly Quad.Rules Quad.DuffyMoments Quad.Exactness Quad.DuffyExact.
Import ListNotations.
Open Scope Q_scope.

Definition near (e x y : Q) : Prop := - e <= x - y /\ x - y <= e.

(* ---- Z-level Gauss moments are the Q-level moments of gauss_ruleQ ------------------------------------- *)
Fixpoint pospow (p : positive) (k : nat) : positive := match k with O => 1%positive | S k' => (p * pospow p k')%positive end.

Lemma pospow_Z p k : Zpos (pospow p k) = (Zpos p ^ Z.of_nat k)%Z.
Proof.
  induction k as [|k IH]; [reflexivity|].
  cbn [pospow]. rewrite Pos2Z.inj_mul, IH, Nat2Z.inj_succ, Z.pow_succ_r by lia. reflexivity.
Qed.

Lemma qpow_make x p k : qpow (x # p) k == (x ^ Z.of_nat k)%Z # pospow p k.
Proof.
  induction k as [|k IH]; [reflexivity|].
  cbn [qpow pospow]. rewrite IH. rewrite Nat2Z.inj_succ, Z.pow_succ_r by lia. reflexivity.
Qed.

Lemma qsum_make {A} (f : A -> Z) (c : positive) l : qsum (map (fun a => f a # c) l) == zsum (map f l) # c.
Proof.
  induction l as [|a l IH]; [reflexivity|].
  cbn [map qsum zsum fold_right]. fold (qsum (map (fun a => f a # c) l)). fold (zsum (map f l)).
  rewrite IH. unfold Qeq, Qplus; cbn [Qnum Qden]. rewrite Pos2Z.inj_mul. ring.
Qed.

Lemma moment_make (r : list (Z * Z)) (p : positive) k :
  moment (map (fun xw => (fst xw # p, snd xw # p)) r) k == gauss_moment r k # (p * pospow p k).
Proof.
  unfold moment, gauss_moment. rewrite map_map. cbn [fst snd].
  rewrite <- (qsum_make (gauss_term k) (p * pospow p k) r).
  apply qsum_map_ext. intros [x w]. cbn [fst snd]. rewrite qpow_make. reflexivity.
Qed.

Lemma frac_near (M : Z) (D K T : positive) :
  (Z.abs (M * Zpos K - 1 * Zpos D) * Zpos T <= Zpos D * Zpos K)%Z -> near (1 # T) (M # D) (1 # K).
Proof.
  intros H. unfold near, Qle, Qminus, Qplus, Qopp; cbn [Qnum Qden].
  rewrite !Pos2Z.inj_mul. pose proof (Pos2Z.is_pos D). pose proof (Pos2Z.is_pos K). pose proof (Pos2Z.is_pos T).
  destruct (Z.abs_spec (M * Zpos K - 1 * Zpos D)) as [[? E]|[? E]]; rewrite E in H; split; nia.
Qed.

Definition eps : Q := 1 # 100000000000000.

Lemma gauss_den_pos : (0 < gauss_den)%Z.
Proof. vm_compute. reflexivity. Qed.

Lemma gauss_moment_near order xw k :
  (1 <= order <= 30)%Z -> gauss_ruleQ order = Some xw -> (k <= 2 * Z.to_nat order - 1)%nat ->
  near eps (moment xw k) (exact_mu k).
Proof.
  intros Ho Hxw Hk. destruct (gauss_exact order k Ho Hk) as (r & Hr & _ & _ & Hok).
  unfold gauss_ruleQ in Hxw. rewrite Hr in Hxw. inversion Hxw; subst xw; clear Hxw.
  unfold near. rewrite moment_make.
  unfold gauss_ok in Hok. apply within_spec in Hok.
  set (P := Z.to_pos gauss_den) in *.
  assert (HP : Zpos P = gauss_den) by (apply Z2Pos.id, gauss_den_pos).
  assert (HD : Zpos (P * pospow P k) = gauss_mden k).
  { rewrite Pos2Z.inj_mul, pospow_Z, HP. unfold gauss_mden, gauss_den.
    rewrite <- Z.pow_succ_r by lia. rewrite <- Z.pow_mul_r.
    - f_equal. lia.
    - unfold gauss_scale. lia.
    - lia. }
  assert (HK : Zpos (Pos.of_nat (k + 1)) = Z.of_nat (k + 1)).
  { rewrite <- (Nat2Pos.id (k + 1)) at 2 by lia. rewrite positive_nat_Z. reflexivity. }
  apply (frac_near (gauss_moment r k) (P * pospow P k) (Pos.of_nat (k + 1)) 100000000000000).
  rewrite HD, HK. exact Hok.
Qed.

(* ---- perturbation of products -------------------------------------------------------------------------- *)
Lemma prod2_near e1 e2 a b c d :
  0 <= e1 -> 0 <= e2 -> near e1 a b -> near e2 c d -> 0 <= b <= 1 -> 0 <= d <= 1 ->
  near (e1 * (1 + e2) + e2) (a * c) (b * d).
Proof. unfold near. intros ? ? [? ?] [? ?] [? ?] [? ?]. split; nra. Qed.

Lemma prod4_near e a1 a2 a3 a4 b1 b2 b3 b4 :
  0 <= e <= 1 # 10 ->
  near e a1 b1 -> near e a2 b2 -> near e a3 b3 -> near e a4 b4 ->
  0 <= b1 <= 1 -> 0 <= b2 <= 1 -> 0 <= b3 <= 1 -> 0 <= b4 <= 1 ->
  near (5 * e) (a1 * a2 * a3 * a4) (b1 * b2 * b3 * b4).
Proof.
  intros [He0 He1] H1 H2 H3 H4 B1 B2 B3 B4.
  pose proof (prod2_near e e a1 b1 a2 b2 He0 He0 H1 H2 B1 B2) as H12.
  pose proof (prod2_near e e a3 b3 a4 b4 He0 He0 H3 H4 B3 B4) as H34.
  set (e2 := e * (1 + e) + e) in *.
  assert (He2 : 0 <= e2) by (unfold e2; nra).
  assert (B12 : 0 <= b1 * b2 <= 1) by (destruct B1, B2; split; nra).
  assert (B34 : 0 <= b3 * b4 <= 1) by (destruct B3, B4; split; nra).
  pose proof (prod2_near e2 e2 _ _ _ _ He2 He2 H12 H34 B12 B34) as H.
  unfold near in *. destruct H as [Ha Hb].
  assert (E : e2 * (1 + e2) + e2 <= 5 * e) by (unfold e2; nra).
  split.
  - setoid_replace (a1 * a2 * a3 * a4 - b1 * b2 * b3 * b4) with (a1 * a2 * (a3 * a4) - b1 * b2 * (b3 * b4)) by ring. lra.
  - setoid_replace (a1 * a2 * a3 * a4 - b1 * b2 * b3 * b4) with (a1 * a2 * (a3 * a4) - b1 * b2 * (b3 * b4)) by ring. lra.
Qed.

Lemma exact_mu_range k : 0 <= exact_mu k <= 1.
Proof.
  unfold exact_mu, Qle; cbn [Qnum Qden]. split; [lia|]. pose proof (Pos2Z.is_pos (Pos.of_nat (k + 1))). lia.
Qed.

(* ---- linearity: the moment functional moves by at most  l1(p) * 5 eps  ------------------------------------ *)
Definition l1 (p : poly) : Z := fold_right (fun t acc => (Z.abs (snd t) + acc)%Z) 0%Z p.
Definition exps_le (n : nat) (p : poly) : bool :=
  forallb (fun t => let '(a, b, c, d) := fst t in Nat.leb a n && Nat.leb b n && Nat.leb c n && Nat.leb d n) p.

Lemma max_exp_exps_le n p : (max_exp p <= n)%nat -> exps_le n p = true.
Proof.
  induction p as [|[[[[a b] c] d] k] p IH]; cbn [max_exp exps_le forallb fold_right fst]; intros H; [reflexivity|].
  fold (max_exp p) in H. fold (exps_le n p).
  rewrite IH by lia. repeat (apply andb_true_intro; split); try reflexivity; apply Nat.leb_le; lia.
Qed.

Lemma scaled_near (c : Z) d x y : 0 <= d -> near d x y -> near (inject_Z (Z.abs c) * d) (inject_Z c * x) (inject_Z c * y).
Proof.
  intros Hd [H1 H2]. unfold near.
  destruct (Z_le_gt_dec 0 c) as [Hc|Hc].
  - rewrite Z.abs_eq by lia. set (C := inject_Z c).
    assert (HC : 0 <= C) by (unfold C; change 0 with (inject_Z 0); rewrite <- Zle_Qle; lia).
    assert (P1 : 0 <= C * (d - (x - y))) by (apply Qmult_le_0_compat; lra).
    assert (P2 : 0 <= C * ((x - y) + d)) by (apply Qmult_le_0_compat; lra).
    split; nra.
  - rewrite Z.abs_neq by lia. rewrite inject_Z_opp. set (C := inject_Z c).
    assert (HC : 0 <= - C) by (unfold C; rewrite <- inject_Z_opp; change 0 with (inject_Z 0); rewrite <- Zle_Qle; lia).
    assert (P1 : 0 <= (- C) * (d - (x - y))) by (apply Qmult_le_0_compat; lra).
    assert (P2 : 0 <= (- C) * ((x - y) + d)) by (apply Qmult_le_0_compat; lra).
    split; nra.
Qed.

Lemma apply_moments_near (mu nu : nat -> Q) e n p :
  0 <= e <= 1 # 10 ->
  (forall k, (k <= n)%nat -> near e (mu k) (nu k)) -> (forall k, 0 <= nu k <= 1) ->
  exps_le n p = true ->
  near (inject_Z (l1 p) * (5 * e)) (apply_moments mu p) (apply_moments nu p).
Proof.
  intros He Hmu Hnu. induction p as [|[[[[a b] c] d] k] p IH]; intros Hp.
  - unfold near, apply_moments, l1; cbn [map qsum fold_right]. change (inject_Z 0) with 0. destruct He. split; nra.
  - cbn [exps_le forallb fst] in Hp. apply andb_prop in Hp as [Ht Hp]. fold (exps_le n p) in Hp.
    repeat (apply andb_prop in Ht; destruct Ht as [Ht ?]).
    repeat match goal with H : Nat.leb _ _ = true |- _ => apply Nat.leb_le in H end.
    specialize (IH Hp).
    assert (T : near (inject_Z (Z.abs k) * (5 * e))
                     (inject_Z k * (mu a * mu b * mu c * mu d)) (inject_Z k * (nu a * nu b * nu c * nu d))).
    { apply scaled_near; [lra|]. apply prod4_near; auto. }
    unfold apply_moments in *. cbn [map qsum fold_right fst snd l1].
    fold (qsum (map (fun t => let '(a, b, c, d) := fst t in inject_Z (snd t) * mu a * mu b * mu c * mu d) p)).
    fold (qsum (map (fun t => let '(a, b, c, d) := fst t in inject_Z (snd t) * nu a * nu b * nu c * nu d) p)).
    fold (l1 p). rewrite inject_Z_plus. unfold near in *. destruct IH as [I1 I2], T as [T1 T2]. split; nra.
Qed.

(* l1 of every total polynomial up to the degree cap is below 10^5  (finite sweep) *)
Definition l1_ok (regs : list region) (m : nat * nat * nat * nat) : bool :=
  let '(a, b, c, d) := m in (l1 (total_poly regs a b c d) <=? 100000)%Z.
Lemma l1_coincident : forallb (l1_ok duffy_coincident) (monos4 cap) = true.
Proof. vm_compute. reflexivity. Qed.
Lemma l1_edge : forallb (l1_ok duffy_edge) (monos4 cap) = true.
Proof. vm_compute. reflexivity. Qed.
Lemma l1_vertex : forallb (l1_ok duffy_vertex) (monos4 cap) = true.
Proof. vm_compute. reflexivity. Qed.

Lemma l1_bound adj a b c d : (a + b + c + d <= cap)%nat -> (l1 (total_poly (regions_of adj) a b c d) <= 100000)%Z.
Proof.
  intros H. pose proof (in_monos4 _ _ _ _ _ H) as Hin.
  assert (S : l1_ok (regions_of adj) (a, b, c, d) = true).
  { destruct adj as [|[|adj]]; cbn [regions_of].
    - exact (proj1 (forallb_forall _ _) l1_coincident _ Hin).
    - exact (proj1 (forallb_forall _ _) l1_edge _ Hin).
    - exact (proj1 (forallb_forall _ _) l1_vertex _ Hin). }
  unfold l1_ok in S. apply Z.leb_le. exact S.
Qed.

(* ---- the numerical statement ------------------------------------------------------------------------------ *)
Theorem duffy_exact order adj a b c d xw :
  (2 <= order <= 30)%Z -> (adj < 3)%nat -> gauss_ruleQ order = Some xw ->
  (a + b + c + d <= 2 * Z.to_nat order - 4)%nat -> (a + b + c + d <= cap)%nat ->
  near (1 # 100000000) (rule_sum (duffy_rule (regions_of adj) xw) (monoQ a b c d)) (exactQ a b c d).
Proof.
  intros Ho Ha Hxw Hdeg Hcap.
  destruct (duffy_identity adj a b c d Hcap) as [I1 I2].
  set (p := total_poly (regions_of adj) a b c d) in *.
  assert (Hn : near (inject_Z (l1 p) * (5 * eps)) (apply_moments (moment xw) p) (apply_moments exact_mu p)).
  { apply (apply_moments_near _ _ eps (2 * Z.to_nat order - 1)).
    - unfold eps, Qle; cbn; lia.
    - intros k Hk. apply (gauss_moment_near order); [lia|exact Hxw|exact Hk].
    - apply exact_mu_range.
    - apply max_exp_exps_le. lia. }
  pose proof (l1_bound adj a b c d Hcap) as Hl. fold p in Hl.
  assert (Hl' : inject_Z (l1 p) <= 100000) by (change 100000 with (inject_Z 100000); rewrite <- Zle_Qle; exact Hl).
  assert (Hl0 : 0 <= inject_Z (l1 p)).
  { change 0 with (inject_Z 0). rewrite <- Zle_Qle. unfold l1. clear. induction p as [|t p IH]; cbn; lia. }
  unfold near in *. rewrite (duffy_product_moment _ xw a b c d (regions_closed adj)). fold p.
  rewrite <- I1. destruct Hn as [N1 N2]. unfold eps in *. split; nra.
Qed.
