(* Thorough tier: the exact-moment Sauter-Schwab identity for all monomials of total degree <= 10. *)
From Coq Require Import QArith ZArith List Lia Bool.
From BVgen Require Import DuffyRegions.
From BV Require Import Quad.Poly Quad.Rules Quad.DuffyMoments Quad.Exactness Quad.DuffyExact.
Import ListNotations.

Definition deep_cap : nat := 10.
Lemma id10_coincident : forallb (id_ok duffy_coincident) (monos4 deep_cap) = true.
Proof. vm_compute. reflexivity. Qed.
Lemma id10_edge : forallb (id_ok duffy_edge) (monos4 deep_cap) = true.
Proof. vm_compute. reflexivity. Qed.
Lemma id10_vertex : forallb (id_ok duffy_vertex) (monos4 deep_cap) = true.
Proof. vm_compute. reflexivity. Qed.

Theorem duffy_identity_deep adj a b c d :
  (a + b + c + d <= deep_cap)%nat ->
  (apply_moments exact_mu (total_poly (regions_of adj) a b c d) == exactQ a b c d)%Q /\
  (max_exp (total_poly (regions_of adj) a b c d) <= a + b + c + d + 3)%nat.
Proof.
  intros H. pose proof (in_monos4 _ _ _ _ _ H) as Hin.
  assert (S : id_ok (regions_of adj) (a, b, c, d) = true).
  { destruct adj as [|[|adj]]; cbn [regions_of].
    - exact (proj1 (forallb_forall _ _) id10_coincident _ Hin).
    - exact (proj1 (forallb_forall _ _) id10_edge _ Hin).
    - exact (proj1 (forallb_forall _ _) id10_vertex _ Hin). }
  unfold id_ok in S. apply andb_prop in S as [S1 S2]. split.
  - apply Qeq_bool_iff. exact S1.
  - apply Nat.leb_le. exact S2.
Qed.
