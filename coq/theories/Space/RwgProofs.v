(* Proofs about the model of maxwell_spaces._compute_rwg0_space_data (RWG and SNC share it):
   invariant of the first loop (edge numbering, support mutation), then the +1/-1 pattern, alias closure,
   absence of the uint32 wrap, dof count. *)
From Coq Require Import ZArith List Bool Arith Lia.
From BV Require Import Space.DofMaps Space.SpaceBasics Space.DofMapsProofs.
Import ListNotations.

Section Rwg.
Variable g : grid.
Variable sup : nat -> bool.
Variables incl trunc : bool.

(* consistency of the tables (grid.py; C11): edge_neighbors lists exactly the elements that have the edge *)
Hypothesis H_en : forall edge x, In x (enbrs g edge) <-> x < nelem g /\ exists k, k < 3 /\ eedges g x k = edge.
Hypothesis H_nodup : forall edge, NoDup (enbrs g edge).
Hypothesis H_sup : forall e, sup e = true -> e < nelem g.

Definition safe (st : rwgstate) (todo : list nat) (x : nat) : Prop :=
  rS st x = true /\ (In x todo -> exists k, k < 3 /\ rE st (eedges g x k) <> (-1)%Z).

Record Inv (st : rwgstate) (todo : list nat) : Prop := {
  i_range : forall edge, rE st edge <> (-1)%Z -> (0 <= rE st edge < Z.of_nat (rC st))%Z;
  i_inj : forall e1 e2, rE st e1 <> (-1)%Z -> rE st e1 = rE st e2 -> e1 = e2;
  i_surj : forall d, d < rC st -> exists edge, rE st edge = Z.of_nat d;
  i_one : forall edge, rE st edge <> (-1)%Z -> exists a, In a (enbrs g edge) /\ safe st todo a;
  i_two : incl = false -> forall edge, rE st edge <> (-1)%Z ->
          exists a b, a <> b /\ In a (enbrs g edge) /\ In b (enbrs g edge) /\ safe st todo a /\ safe st todo b;
  i_has : forall x, rS st x = true ->
          In x todo \/ (x < nelem g /\ exists k, k < 3 /\ rE st (eedges g x k) <> (-1)%Z)
}.

(* a later state: dofs are kept, support only grows *)
Definition grows (st st' : rwgstate) : Prop :=
  (forall edge, rE st edge <> (-1)%Z -> rE st' edge = rE st edge) /\ (forall x, rS st x = true -> rS st' x = true).
Lemma safe_grows st st' todo x : grows st st' -> safe st todo x -> safe st' todo x.
Proof.
  intros [GE GS] [Sx Hx]. split; [now apply GS|]. intros Hin. destruct (Hx Hin) as (k & Hk & N).
  exists k. split; [assumption|]. now rewrite GE.
Qed.

(* ---------- assignment of a fresh dof to an edge without dof ---------- *)
Definition assigned (st : rwgstate) (edge : nat) : rwgstate :=
  {| rS := rS st; rE := upd1 (rE st) edge (Z.of_nat (rC st)); rC := 1 + rC st |}.
Lemma rwg_assign_fresh st edge : rE st edge = (-1)%Z -> rwg_assign st edge = assigned st edge.
Proof. intros E. unfold rwg_assign. rewrite E. reflexivity. Qed.

Lemma assigned_E st edge e' : rE (assigned st edge) e' = if Nat.eqb e' edge then Z.of_nat (rC st) else rE st e'.
Proof. reflexivity. Qed.

(* the invariant after assigning a dof to [edge] and (optionally) adding the neighbours of the edge to the support,
   given witnesses among the neighbours that are supported *)
Lemma inv_assign st todo edge (addall : bool) :
  Inv st todo -> rE st edge = (-1)%Z ->
  (exists a, In a (enbrs g edge) /\ rS st a = true) ->
  (incl = false -> exists a b, a <> b /\ In a (enbrs g edge) /\ In b (enbrs g edge) /\ rS st a = true /\ rS st b = true) ->
  let st1 := assigned st edge in
  let st2 := if addall then {| rS := fun x => memb x (enbrs g edge) || rS st1 x; rE := rE st1; rC := rC st1 |} else st1 in
  Inv st2 todo /\ grows st st2 /\ rE st2 edge <> (-1)%Z.
Proof.
  intros I E W1 W2 st1 st2.
  assert (E2 : rE st2 = rE st1) by (unfold st2; destruct addall; reflexivity).
  assert (C2 : rC st2 = 1 + rC st) by (unfold st2; destruct addall; reflexivity).
  assert (S2 : forall x, rS st2 x = (addall && memb x (enbrs g edge)) || rS st x).
  { intros x. unfold st2. destruct addall; reflexivity. }
  assert (G : grows st st2).
  { split.
    - intros e' N. rewrite E2. unfold st1. rewrite assigned_E. destruct (Nat.eqb_spec e' edge); [subst; contradiction|reflexivity].
    - intros x Hx. rewrite S2, Hx. apply orb_true_r. }
  assert (Nedge : rE st2 edge <> (-1)%Z).
  { rewrite E2. unfold st1. rewrite assigned_E, Nat.eqb_refl. lia. }
  (* every neighbour of the edge that is supported afterwards is safe *)
  assert (SafeNbr : forall a, In a (enbrs g edge) -> rS st2 a = true -> safe st2 todo a).
  { intros a Ha Sa. split; [assumption|]. intros _. apply H_en in Ha. destruct Ha as [_ (k & Hk & Ek)].
    exists k. split; [assumption|]. now rewrite Ek. }
  split; [|split; assumption]. constructor.
  - intros e' N. rewrite E2, C2 in *. unfold st1 in *. rewrite assigned_E in *.
    destruct (Nat.eqb e' edge); [lia|]. pose proof (i_range _ _ I e' N). lia.
  - intros e1 e2 N Eq. rewrite E2 in *. unfold st1 in *. rewrite !assigned_E in *.
    destruct (Nat.eqb_spec e1 edge), (Nat.eqb_spec e2 edge); subst; try reflexivity.
    + assert (N2 : rE st e2 <> (-1)%Z) by lia. pose proof (i_range _ _ I e2 N2). lia.
    + pose proof (i_range _ _ I e1 N). lia.
    + now apply (i_inj _ _ I).
  - intros d Hd. rewrite C2 in Hd. rewrite E2. unfold st1.
    destruct (Nat.eq_dec d (rC st)) as [->|Hne].
    + exists edge. now rewrite assigned_E, Nat.eqb_refl.
    + destruct (i_surj _ _ I d) as (e' & Ee); [lia|]. exists e'. rewrite assigned_E.
      destruct (Nat.eqb_spec e' edge); [subst; rewrite E in Ee; lia | assumption].
  - intros e' N. destruct (Nat.eq_dec e' edge) as [->|Hne].
    + destruct W1 as (a & Ha & Sa). exists a. split; [assumption|]. apply SafeNbr; [assumption|]. now apply (proj2 G).
    + assert (N0 : rE st e' <> (-1)%Z).
      { rewrite E2 in N. unfold st1 in N. rewrite assigned_E in N. destruct (Nat.eqb_spec e' edge); congruence. }
      destruct (i_one _ _ I e' N0) as (a & Ha & Sa). exists a. split; [assumption|]. now apply (safe_grows st).
  - intros Hincl e' N. destruct (Nat.eq_dec e' edge) as [->|Hne].
    + destruct (W2 Hincl) as (a & b & Hab & Ha & Hb & Sa & Sb).
      refine (ex_intro _ a (ex_intro _ b (conj Hab (conj Ha (conj Hb (conj _ _)))))); apply SafeNbr; try assumption;
        now apply (proj2 G).
    + assert (N0 : rE st e' <> (-1)%Z).
      { rewrite E2 in N. unfold st1 in N. rewrite assigned_E in N. destruct (Nat.eqb_spec e' edge); congruence. }
      destruct (i_two _ _ I Hincl e' N0) as (a & b & Hab & Ha & Hb & Sa & Sb).
      refine (ex_intro _ a (ex_intro _ b (conj Hab (conj Ha (conj Hb (conj _ _)))))); now apply (safe_grows st).
  - intros x Sx. rewrite S2 in Sx. apply orb_true_iff in Sx. destruct Sx as [Sx|Sx].
    + apply andb_true_iff in Sx. destruct Sx as [_ Sx]. apply memb_In in Sx. apply H_en in Sx.
      destruct Sx as [Hx (k & Hk & Ek)]. right. split; [assumption|]. exists k. split; [assumption|]. now rewrite Ek.
    + destruct (i_has _ _ I x Sx) as [Hin|(Hx & k & Hk & N)]; [now left|]. right. split; [assumption|].
      exists k. split; [assumption|]. now rewrite (proj1 G).
Qed.

Lemma filter_length_2 (f : nat -> bool) l : NoDup l -> length (filter f l) = 2 ->
  exists a b, a <> b /\ In a l /\ In b l /\ f a = true /\ f b = true.
Proof.
  intros Hnd Hl. pose proof (NoDup_filter f Hnd) as Hnf.
  destruct (filter f l) as [|a [|b [|c r]]] eqn:Ef; try discriminate.
  assert (Ia : In a (filter f l)) by (rewrite Ef; now left).
  assert (Ib : In b (filter f l)) by (rewrite Ef; right; now left).
  apply filter_In in Ia, Ib. exists a, b. inversion Hnf; subst. repeat split; try tauto.
  intros ->. apply H1. now left.
Qed.
Lemma filter_length_1 (f : nat -> bool) l : length (filter f l) = 1 -> exists a, In a l /\ f a = true.
Proof.
  intros Hl. destruct (filter f l) as [|a [|b r]] eqn:Ef; try discriminate.
  assert (Ia : In a (filter f l)) by (rewrite Ef; now left). apply filter_In in Ia. exists a. tauto.
Qed.

(* ---------- one edge of one element ---------- *)
Lemma edge_step_inv st todo e has i : Inv st todo -> i < 3 ->
  let r := rwg_edge_step g incl trunc e (st, has) i in
  Inv (fst r) todo /\ grows st (fst r) /\
  (has = true -> snd r = true) /\
  (snd r = true -> has = true \/ rE (fst r) (eedges g e i) <> (-1)%Z) /\
  (snd r = false -> fst r = st /\ rE st (eedges g e i) = (-1)%Z).
Proof.
  intros I Hi. unfold rwg_edge_step. cbn [fst snd]. set (edge := eedges g e i).
  assert (Grefl : grows st st) by (split; auto).
  destruct (Z.eqb_spec (rE st edge) (-1)) as [E|N]; cbn [negb].
  2: { cbn [fst snd]. split; [exact I|]. split; [exact Grefl|]. split; [auto|].
       split; [intros _; right; exact N | discriminate]. }
  set (sn := filter (rS st) (enbrs g edge)).
  (* the unchanged outcome *)
  assert (Same : Inv st todo /\ grows st st /\ (has = true -> has = true) /\
                 (has = true -> has = true \/ rE st edge <> (-1)%Z) /\ (has = false -> st = st /\ rE st edge = (-1)%Z)).
  { split; [exact I|]. split; [exact Grefl|]. split; [auto|]. split; [intros H; now left | auto]. }
  destruct (Nat.eqb_spec (length sn) 2) as [L2|L2].
  - (* interior edge of the current support *)
    replace (Nat.eqb (length sn) 1) with false by (symmetry; apply Nat.eqb_neq; lia). cbn [andb fst snd].
    rewrite rwg_assign_fresh by assumption.
    destruct (filter_length_2 (rS st) (enbrs g edge) (H_nodup edge) L2) as (a & b & Hab & Ha & Hb & Sa & Sb).
    destruct (inv_assign st todo edge false I E) as (I' & G' & N'); [eauto | intros _; exists a, b; auto |].
    cbn in I', G', N'. split; [exact I'|]. split; [exact G'|]. split; [auto|].
    split; [intros _; right; exact N' | intros H; discriminate H].
  - cbn [fst snd]. destruct (Nat.eqb_spec (length sn) 1) as [L1|L1]; cbn [andb].
    + destruct incl eqn:Hincl; cbn [andb fst snd]; [|exact Same].
      rewrite rwg_assign_fresh by assumption.
      destruct (filter_length_1 (rS st) (enbrs g edge) L1) as (a & Ha & Sa).
      destruct (inv_assign st todo edge (negb trunc) I E) as (I' & G' & N'); [eauto | intros Hf; congruence |].
      destruct trunc; cbn [negb] in *; (split; [exact I'|]; split; [exact G'|]; split; [auto|];
        split; [intros _; right; exact N' | intros H; discriminate H]).
    + exact Same.
Qed.

Lemma grows_trans a b c : grows a b -> grows b c -> grows a c.
Proof.
  intros [E1 S1] [E2 S2]. split; [|auto]. intros edge N. rewrite E2; [now apply E1|]. now rewrite E1.
Qed.

(* ---------- the three edges of one element, then the removal of a dof-less element ---------- *)
Lemma safe_weaken st e rest a : safe st (e :: rest) a -> safe st rest a.
Proof. intros [Sa Ka]. split; [assumption|]. intros Hin. apply Ka. now right. Qed.

Lemma elem_step_inv st e rest : Inv st (e :: rest) -> e < nelem g ->
  Inv (rwg_elem_step g incl trunc st e) rest.
Proof.
  intros I Hen. unfold rwg_elem_step. cbn [fold_left].
  set (r0 := rwg_edge_step g incl trunc e (st, false) 0).
  destruct (edge_step_inv st (e :: rest) e false 0 I ltac:(lia)) as (I0 & G0 & M0 & T0 & F0).
  fold r0 in I0, G0, M0, T0, F0.
  set (r1 := rwg_edge_step g incl trunc e r0 1).
  assert (R0 : r0 = (fst r0, snd r0)) by now destruct r0.
  destruct (edge_step_inv (fst r0) (e :: rest) e (snd r0) 1 I0 ltac:(lia)) as (I1 & G1 & M1 & T1 & F1).
  rewrite <- R0 in I1, G1, M1, T1, F1. fold r1 in I1, G1, M1, T1, F1.
  set (r2 := rwg_edge_step g incl trunc e r1 2).
  assert (R1 : r1 = (fst r1, snd r1)) by now destruct r1.
  destruct (edge_step_inv (fst r1) (e :: rest) e (snd r1) 2 I1 ltac:(lia)) as (I2 & G2 & M2 & T2 & F2).
  rewrite <- R1 in I2, G2, M2, T2, F2. fold r2 in I2, G2, M2, T2, F2.
  destruct (snd r2) eqn:Has.
  - (* the element keeps its place: it has an edge with a dof *)
    assert (Hk : exists k, k < 3 /\ rE (fst r2) (eedges g e k) <> (-1)%Z).
    { destruct (T2 eq_refl) as [H1|N2]; [|exists 2; split; [lia|assumption]].
      destruct (T1 H1) as [H0|N1]; [|exists 1; split; [lia|]; now rewrite (proj1 G2)].
      destruct (T0 H0) as [H|N0]; [discriminate|]. exists 0. split; [lia|].
      rewrite (proj1 G2); rewrite (proj1 G1); assumption. }
    constructor; try apply I2.
    + intros edge N. destruct (i_one _ _ I2 edge N) as (a & Ha & Sa). exists a. split; [assumption|].
      now apply safe_weaken with e.
    + intros Hincl edge N. destruct (i_two _ _ I2 Hincl edge N) as (a & b & Hab & Ha & Hb & Sa & Sb).
      refine (ex_intro _ a (ex_intro _ b (conj Hab (conj Ha (conj Hb (conj _ _)))))); now apply safe_weaken with e.
    + intros x Sx. destruct (i_has _ _ I2 x Sx) as [[<-|Hin]|R]; [|now left|now right]. right. auto.
  - (* no dof on any of its edges: nothing changed, the element leaves the support *)
    destruct (F2 eq_refl) as [E21 N2].
    assert (H1 : snd r1 = false) by (destruct (snd r1); [specialize (M2 eq_refl); congruence | reflexivity]).
    destruct (F1 H1) as [E10 N1].
    assert (H0 : snd r0 = false) by (destruct (snd r0); [specialize (M1 eq_refl); congruence | reflexivity]).
    destruct (F0 H0) as [E0 N0].
    assert (Est : fst r2 = st) by congruence. rewrite Est.
    rewrite E10, E0 in N2. rewrite E0 in N1.
    assert (Nodof : forall edge, rE st edge <> (-1)%Z -> ~ In e (enbrs g edge)).
    { intros edge N Hin. apply H_en in Hin. destruct Hin as [_ (k & Hk & Ek)].
      assert (k = 0 \/ k = 1 \/ k = 2) as [-> | [-> | ->]] by lia; congruence. }
    assert (Keep : forall edge a, rE st edge <> (-1)%Z -> In a (enbrs g edge) -> safe st (e :: rest) a ->
                   safe {| rS := upd1 (rS st) e false; rE := rE st; rC := rC st |} rest a).
    { intros edge a N Ha [Sa Ka]. assert (a <> e) by (intros ->; now apply (Nodof edge)).
      split; [cbn; now rewrite upd1_neq|]. intros Hin. cbn. apply Ka. now right. }
    constructor; cbn [rE rC rS].
    + apply I. + apply I. + apply I.
    + intros edge N. destruct (i_one _ _ I edge N) as (a & Ha & Sa). exists a. split; [assumption|]. now apply (Keep edge).
    + intros Hincl edge N. destruct (i_two _ _ I Hincl edge N) as (a & b & Hab & Ha & Hb & Sa & Sb).
      refine (ex_intro _ a (ex_intro _ b (conj Hab (conj Ha (conj Hb (conj _ _)))))); now apply (Keep edge).
    + intros x Sx. destruct (Nat.eq_dec x e) as [->|Hne]; [rewrite upd1_eq in Sx; discriminate|].
      rewrite upd1_neq in Sx by assumption. destruct (i_has _ _ I x Sx) as [[Hx|Hin]|R]; [congruence|now left|now right].
Qed.

Lemma loop_inv todo : forall st, (forall x, In x todo -> x < nelem g) -> Inv st todo ->
  Inv (fold_left (rwg_elem_step g incl trunc) todo st) [].
Proof.
  induction todo as [|e rest IH]; intros st Hlt I; cbn [fold_left]; [assumption|].
  apply IH; [intros x Hx; apply Hlt; now right|]. apply elem_step_inv; [assumption | apply Hlt; now left].
Qed.

Let stF := rwg_loop1 g sup incl trunc.

Lemma final_inv : Inv stF [].
Proof.
  unfold stF, rwg_loop1. apply loop_inv.
  - intros x Hx. apply filter_In in Hx. destruct Hx as [Hx _]. apply in_seq in Hx. lia.
  - constructor; cbn; try (intros; congruence); try (intros; lia).
    + intros x Sx. left. apply filter_In. split; [apply in_seq; pose proof (H_sup x Sx); lia | assumption].
Qed.

Lemma safe_final a : safe stF [] a <-> rS stF a = true.
Proof. unfold safe. split; [tauto|]. intros H. split; [assumption | intros []]. Qed.

(* ---------- consequences for the space ---------- *)
Let s := rwg_space g sup incl trunc.
Definition F (edge : nat) : list nat := filter (rS stF) (enbrs g edge).

Lemma supp_in x : supp s x = true <-> x < nelem g /\ rS stF x = true.
Proof. unfold s, rwg_space, rwg_space_of. fold stF. cbn [supp]. unfold rwg_in. now rewrite andb_true_iff, Nat.ltb_lt. Qed.

(* elements without dofs have left the support *)
Theorem rwg_support_has_dof x : supp s x = true -> exists k, k < 3 /\ rE stF (eedges g x k) <> (-1)%Z.
Proof.
  intros H. apply supp_in in H. destruct H as [_ Sx].
  destruct (i_has _ _ final_inv x Sx) as [[]|(_ & R)]. exact R.
Qed.

Lemma mult_values x k : rwg_mult g stF x k = 0%Z \/ rwg_mult g stF x k = 1%Z \/ rwg_mult g stF x k = (-1)%Z.
Proof.
  unfold rwg_mult. destruct (rwg_has_dof g stF x k); [|now left]. right.
  destruct (Nat.eqb _ 1); [now left|]. destruct (Nat.eqb x _); auto.
Qed.
Lemma mult_nonzero_iff x k : rwg_mult g stF x k <> 0%Z <-> rE stF (eedges g x k) <> (-1)%Z.
Proof.
  unfold rwg_mult, rwg_has_dof. destruct (Z.eqb_spec (rE stF (eedges g x k)) (-1)) as [E|N]; cbn [negb].
  - split; intros H; [now elim H | contradiction].
  - split; [intros _; assumption|]. intros _. destruct (Nat.eqb _ 1); [discriminate|]. destruct (Nat.eqb x _); discriminate.
Qed.

Lemma first_nonzero_spec x : (exists k, k < 3 /\ rwg_mult g stF x k <> 0%Z) ->
  rwg_first_nonzero g stF x < 3 /\ rwg_mult g stF x (rwg_first_nonzero g stF x) <> 0%Z.
Proof.
  intros (k & Hk & N). unfold rwg_first_nonzero.
  destruct (Z.eqb_spec (rwg_mult g stF x 0) 0) as [E0|N0]; cbn [negb]; [|split; [lia|assumption]].
  destruct (Z.eqb_spec (rwg_mult g stF x 1) 0) as [E1|N1]; cbn [negb]; [|split; [lia|assumption]].
  destruct (Z.eqb_spec (rwg_mult g stF x 2) 0) as [E2|N2]; cbn [negb]; [|split; [lia|assumption]].
  exfalso. assert (k = 0 \/ k = 1 \/ k = 2) as [-> | [-> | ->]] by lia; contradiction.
Qed.

Lemma mult_s x k : supp s x = true -> mult s x k = rwg_mult g stF x k.
Proof.
  intros H. apply supp_in in H. unfold s, rwg_space, rwg_space_of. fold stF. cbn [mult]. unfold rwg_in.
  destruct H as [Hn Sx]. apply Nat.ltb_lt in Hn. now rewrite Hn, Sx.
Qed.
Lemma l2g_s x k : supp s x = true -> l2g s x k = Z.to_nat (rwg_dofmap g stF x k).
Proof.
  intros H. apply supp_in in H. unfold s, rwg_space, rwg_space_of. fold stF. cbn [l2g]. unfold rwg_in.
  destruct H as [Hn Sx]. apply Nat.ltb_lt in Hn. now rewrite Hn, Sx.
Qed.

(* the dof stored for a local edge with non-zero multiplier is the number of that edge *)
Theorem rwg_dof_is_edge_number x k : supp s x = true -> mult s x k <> 0%Z ->
  Z.of_nat (l2g s x k) = rE stF (eedges g x k) /\ (0 <= rE stF (eedges g x k) < Z.of_nat (rC stF))%Z.
Proof.
  intros H N. rewrite mult_s in N by assumption. rewrite l2g_s by assumption.
  pose proof (proj1 (mult_nonzero_iff x k) N) as ND. pose proof (i_range _ _ final_inv _ ND) as R.
  unfold rwg_dofmap. destruct (Z.eqb_spec (rwg_mult g stF x k) 0) as [E|_]; [contradiction|].
  unfold rwg_dofmap0, rwg_has_dof. destruct (Z.eqb_spec (rE stF (eedges g x k)) (-1)); [contradiction|]. cbn [negb].
  split; [lia | assumption].
Qed.

(* no local2global entry of a support row is the wrapped -1; every entry is below the dof count *)
Theorem rwg_no_wrap x k : supp s x = true -> k < 3 -> (0 <= rwg_dofmap g stF x k < Z.of_nat (rC stF))%Z.
Proof.
  intros H Hk. destruct (rwg_support_has_dof x H) as (k0 & Hk0 & N0).
  destruct (first_nonzero_spec x) as [Hf Nf]; [exists k0; split; [assumption | now apply mult_nonzero_iff]|].
  unfold rwg_dofmap. destruct (Z.eqb_spec (rwg_mult g stF x k) 0) as [E|N].
  - apply mult_nonzero_iff in Nf. unfold rwg_dofmap0, rwg_has_dof.
    destruct (Z.eqb_spec (rE stF (eedges g x (rwg_first_nonzero g stF x))) (-1)); [contradiction|]. cbn [negb].
    now apply (i_range _ _ final_inv).
  - apply mult_nonzero_iff in N. unfold rwg_dofmap0, rwg_has_dof.
    destruct (Z.eqb_spec (rE stF (eedges g x k)) (-1)); [contradiction|]. cbn [negb]. now apply (i_range _ _ final_inv).
Qed.

(* zero-multiplier entries repeat a non-zero entry of the same row *)
Theorem rwg_alias_closed : alias_closed s.
Proof.
  intros x k Hx Hk. apply in_support_elements' in Hx. destruct Hx as [_ Hx]. change (sp_k s) with 3 in *.
  destruct (Z.eq_dec (mult s x k) 0) as [E|N]; [|exists k; auto].
  destruct (rwg_support_has_dof x Hx) as (k0 & Hk0 & N0).
  destruct (first_nonzero_spec x) as [Hf Nf]; [exists k0; split; [assumption | now apply mult_nonzero_iff]|].
  exists (rwg_first_nonzero g stF x). split; [assumption|]. split; [|now rewrite mult_s].
  rewrite !l2g_s by assumption. rewrite mult_s in E by assumption. unfold rwg_dofmap.
  rewrite E. cbn. destruct (Z.eqb_spec (rwg_mult g stF x (rwg_first_nonzero g stF x)) 0); [contradiction|reflexivity].
Qed.

(* two non-zero entries carry the same dof only on the same grid edge *)
Theorem rwg_dof_injective x y k j : supp s x = true -> supp s y = true ->
  mult s x k <> 0%Z -> mult s y j <> 0%Z -> l2g s x k = l2g s y j -> eedges g x k = eedges g y j.
Proof.
  intros Hx Hy Nx Ny E.
  destruct (rwg_dof_is_edge_number x k Hx Nx) as [Ex Rx]. destruct (rwg_dof_is_edge_number y j Hy Ny) as [Ey Ry].
  apply (i_inj _ _ final_inv); [lia | congruence].
Qed.

(* the +1/-1 pattern.  For a local edge with non-zero multiplier let F be the elements of the final support on that
   grid edge: the element itself is one of them; if it is alone the multiplier is +1 (and boundary dofs were
   requested), otherwise the multiplier is +1 on the smallest element index and -1 on the others. *)
Theorem rwg_sign_pattern x k : supp s x = true -> k < 3 -> mult s x k <> 0%Z ->
  let fe := F (eedges g x k) in
  In x fe /\
  mult s x k = (if Nat.eqb (length fe) 1 then 1 else if Nat.eqb x (list_min fe) then 1 else -1)%Z /\
  (incl = false -> 2 <= length fe).
Proof.
  intros Hx Hk N fe. pose proof Hx as Hx'. apply supp_in in Hx'. destruct Hx' as [Hn Sx].
  rewrite mult_s in N |- * by assumption. pose proof (proj1 (mult_nonzero_iff x k) N) as ND.
  split; [|split].
  - unfold fe, F. apply filter_In. split; [|assumption]. apply H_en. split; [assumption|]. exists k. auto.
  - unfold rwg_mult, rwg_has_dof. destruct (Z.eqb_spec (rE stF (eedges g x k)) (-1)); [contradiction|]. reflexivity.
  - intros Hincl. destruct (i_two _ _ final_inv Hincl _ ND) as (a & b & Hab & Ha & Hb & Sa & Sb).
    apply safe_final in Sa, Sb.
    assert (Hincl2 : List.incl [a; b] fe).
    { intros z [<-|[<-|[]]]; unfold fe, F; apply filter_In; auto. }
    assert (Hnd : NoDup [a; b]) by (constructor; [intros [H|[]]; congruence | constructor; [intros [] | constructor]]).
    pose proof (NoDup_incl_length Hnd Hincl2). simpl in H. lia.
Qed.

(* ---------- dof count ---------- *)
Theorem rwg_ndofs_is_count : 1 <= rC stF -> ndofs s = rC stF.
Proof.
  intros Hc. unfold ndofs.
  assert (Hle : forall d, In d (all_dofs s) -> d <= rC stF - 1).
  { intros d Hd. apply in_all_dofs in Hd. destruct Hd as (x & k & Hx & Hk & E). change (sp_k s) with 3 in Hk.
    destruct (supp s x) eqn:Sx.
    - rewrite l2g_s in E by assumption. pose proof (rwg_no_wrap x k Sx Hk). lia.
    - unfold s, rwg_space, rwg_space_of in E, Sx. fold stF in E, Sx. cbn [l2g supp] in E, Sx. rewrite Sx in E. lia. }
  assert (Hge : In (rC stF - 1) (all_dofs s)).
  { destruct (i_surj _ _ final_inv (rC stF - 1)) as (edge & Ee); [lia|].
    assert (ND : rE stF edge <> (-1)%Z) by lia.
    destruct (i_one _ _ final_inv edge ND) as (a & Ha & Sa). apply safe_final in Sa.
    apply H_en in Ha. destruct Ha as [Hn (k & Hk & Ek)].
    assert (Hs : supp s a = true) by (apply supp_in; auto).
    apply in_all_dofs. exists a, k. split; [exact Hn|]. split; [exact Hk|].
    assert (Nm : mult s a k <> 0%Z) by (rewrite mult_s by assumption; apply mult_nonzero_iff; now rewrite Ek).
    destruct (rwg_dof_is_edge_number a k Hs Nm) as [E _]. rewrite Ek in E. lia. }
  assert (max_list (all_dofs s) = rC stF - 1); [|lia].
  apply Nat.le_antisymm.
  - destruct (max_list_attained (all_dofs s)) as [E|Hin]; [intros E; rewrite E in Hge; contradiction | lia | now apply Hle].
  - now apply max_list_In.
Qed.

(* the count returned by the builder is the number of grid edges that carry a dof *)
Hypothesis H_edge : forall x k, x < nelem g -> k < 3 -> eedges g x k < nedge g.
Definition dof_edges : list nat := filter (fun edge => negb (Z.eqb (rE stF edge) (-1))) (seq 0 (nedge g)).
Theorem rwg_count_is_number_of_dof_edges : rC stF = length dof_edges.
Proof.
  assert (Hin : forall edge, In edge dof_edges <-> edge < nedge g /\ rE stF edge <> (-1)%Z).
  { intros edge. unfold dof_edges. rewrite filter_In, in_seq, negb_true_iff, Z.eqb_neq. split; intros [? ?]; split; (lia || assumption). }
  apply Nat.le_antisymm.
  - (* every number below the count is the dof of an edge below nedge *)
    assert (Hi : List.incl (seq 0 (rC stF)) (map (fun edge => Z.to_nat (rE stF edge)) dof_edges)).
    { intros d Hd. apply in_seq in Hd. destruct (i_surj _ _ final_inv d) as (edge & Ee); [lia|].
      assert (ND : rE stF edge <> (-1)%Z) by lia.
      destruct (i_one _ _ final_inv edge ND) as (a & Ha & _). apply H_en in Ha. destruct Ha as [Hn (k & Hk & Ek)].
      apply in_map_iff. exists edge. split; [rewrite Ee; apply Nat2Z.id|]. apply Hin. split; [|assumption].
      rewrite <- Ek. now apply H_edge. }
    pose proof (NoDup_incl_length (seq_NoDup (rC stF) 0) Hi) as H. now rewrite seq_length, map_length in H.
  - assert (Hnd : NoDup (map (fun edge => Z.to_nat (rE stF edge)) dof_edges)).
    { apply NoDup_map_inj_in.
      - intros e1 e2 H1 H2 E. apply Hin in H1, H2. destruct H1 as [_ N1], H2 as [_ N2].
        pose proof (i_range _ _ final_inv _ N1). pose proof (i_range _ _ final_inv _ N2).
        apply (i_inj _ _ final_inv); [assumption | lia].
      - unfold dof_edges. apply NoDup_filter, seq_NoDup. }
    assert (Hi : List.incl (map (fun edge => Z.to_nat (rE stF edge)) dof_edges) (seq 0 (rC stF))).
    { intros d Hd. apply in_map_iff in Hd. destruct Hd as (edge & <- & He). apply Hin in He. destruct He as [_ N].
      pose proof (i_range _ _ final_inv _ N). apply in_seq. lia. }
    pose proof (NoDup_incl_length Hnd Hi) as H. now rewrite seq_length, map_length in H.
Qed.

(* on a manifold grid (at most two elements per edge): a dof edge has exactly one or two supported elements *)
Hypothesis H_manifold : forall edge, length (enbrs g edge) <= 2.
Theorem rwg_two_or_one x k : supp s x = true -> k < 3 -> mult s x k <> 0%Z ->
  let fe := F (eedges g x k) in
  (fe = [x] /\ mult s x k = 1%Z /\ incl = true) \/
  (exists y, y <> x /\ (fe = [x; y] \/ fe = [y; x]) /\ supp s y = true /\
             mult s x k = (if Nat.ltb x y then 1 else -1)%Z /\
             exists j, j < 3 /\ eedges g y j = eedges g x k /\ mult s y j = (if Nat.ltb y x then 1 else -1)%Z /\
                       l2g s y j = l2g s x k).
Proof.
  intros Hx Hk N. cbv zeta. destruct (rwg_sign_pattern x k Hx Hk N) as (Hin & Em & H2). cbv zeta in Hin, Em, H2.
  assert (Hlen : length (F (eedges g x k)) <= 2).
  { unfold F. etransitivity; [apply filter_length_le | apply H_manifold]. }
  assert (Hnd : NoDup (F (eedges g x k))) by (unfold F; apply NoDup_filter, H_nodup).
  remember (F (eedges g x k)) as fe eqn:Efe.
  destruct fe as [|a [|b [|c r]]]; [contradiction| | |simpl in Hlen; lia].
  - left. destruct Hin as [->|[]]. split; [reflexivity|]. split; [exact Em|].
    destruct (Bool.bool_dec incl true) as [Hi|Hi]; [assumption|]. apply Bool.not_true_is_false in Hi.
    specialize (H2 Hi). simpl in H2. lia.
  - right. inversion Hnd as [|? ? Hna _]; subst.
    assert (Hab : a <> b) by (intros ->; apply Hna; now left).
    assert (Other : forall y, In y [a; b] -> y <> x -> supp s y = true /\
              exists j, j < 3 /\ eedges g y j = eedges g x k).
    { intros y Hy _. assert (Hy' : In y (F (eedges g x k))) by (rewrite <- Efe; exact Hy).
      unfold F in Hy'. apply filter_In in Hy'. destruct Hy' as [Hyn Sy]. apply H_en in Hyn.
      destruct Hyn as [Hn (j & Hj & Ej)]. split; [apply supp_in; auto | eauto]. }
    assert (Min : list_min [a; b] = Nat.min a b) by (cbn; lia).
    cbn [length] in Em. rewrite Min in Em. change (Nat.eqb 2 1) with false in Em. cbv iota in Em.
    assert (Finish : forall y, In y [a; b] -> y <> x -> Nat.min a b = Nat.min x y ->
              exists y0, y0 <> x /\ ([a; b] = [x; y0] \/ [a; b] = [y0; x]) /\ supp s y0 = true /\
                mult s x k = (if Nat.ltb x y0 then 1 else -1)%Z /\
                exists j, j < 3 /\ eedges g y0 j = eedges g x k /\ mult s y0 j = (if Nat.ltb y0 x then 1 else -1)%Z /\
                          l2g s y0 j = l2g s x k).
    { intros y Hy Hyx Hmin. destruct (Other y Hy Hyx) as (Sy & j & Hj & Ej). exists y. split; [assumption|].
      split; [destruct Hin as [<-|[<-|[]]], Hy as [<-|[<-|[]]]; try congruence; auto|]. split; [assumption|].
      split.
      { rewrite Em, Hmin. destruct (Nat.ltb_spec x y), (Nat.eqb_spec x (Nat.min x y)); try reflexivity; lia. }
      exists j. split; [assumption|]. split; [assumption|].
      assert (Ny : mult s y j <> 0%Z).
      { rewrite mult_s by assumption. apply mult_nonzero_iff. rewrite Ej.
        rewrite mult_s in N by assumption. now apply mult_nonzero_iff. }
      destruct (rwg_sign_pattern y j Sy Hj Ny) as (_ & Emy & _). rewrite Ej in Emy. cbv zeta in Emy. rewrite <- Efe in Emy.
      cbn [length] in Emy. rewrite Min in Emy. change (Nat.eqb 2 1) with false in Emy. cbv iota in Emy.
      split.
      { rewrite Emy, Hmin. destruct (Nat.ltb_spec y x), (Nat.eqb_spec y (Nat.min x y)); try reflexivity; lia. }
      destruct (rwg_dof_is_edge_number y j Sy Ny) as [E1 _]. destruct (rwg_dof_is_edge_number x k Hx N) as [E2 _].
      rewrite Ej in E1. lia. }
    destruct Hin as [<-|[<-|[]]].
    + apply (Finish b); [right; now left | congruence | reflexivity].
    + apply (Finish a); [now left | assumption | apply Nat.min_comm].
Qed.
End Rwg.

(* the phantom dof of an empty RWG selection: two triangles that share only a vertex *)
Definition two_far_triangles : grid :=
  {| nelem := 2; nvert := 5; nedge := 6;
     elems := fun e i => match e, i with 0, _ => i | _, 0 => 2 | _, _ => 2 + i end;
     eedges := fun e i => 3 * e + i;
     enbrs := fun edge => [edge / 3]; vnbrs := fun v => if Nat.eqb v 2 then [0; 1] else [v / 3];
     vob := fun _ => true; dom := fun _ => 0 |}.
Theorem rwg_dof_count_empty_refuted :
  exists g sup incl trunc,
    rwg_dof_count g sup incl trunc = 0 /\ ndofs (rwg_space g sup incl trunc) = 1 /\
    support_elements (rwg_space g sup incl trunc) = [].
Proof. exists two_far_triangles, (fun e => Nat.ltb e 2), false, true. vm_compute. auto. Qed.
