(* Proofs about the model of scalar_spaces._compute_p1_dof_map (the C09_p1 theorems): invariant of the first loop, then
   selected vertices, dof = rank, continuity at shared vertices, alias closure, dof count. *)
From Coq Require Import ZArith List Bool Arith Lia.
From BV Require Import Space.DofMaps Space.SpaceBasics Space.DofMapsProofs.
Import ListNotations.

Section P1.
Variable g : grid.
Variable sup : nat -> bool.
Variables incl trunc : bool.

(* consistency of the tables the builder reads (what grid.py guarantees; C11 proves it for the topology model) *)
Hypothesis H_vn : forall v x, In x (vnbrs g v) <-> x < nelem g /\ exists k, k < 3 /\ elems g x k = v.
Hypothesis H_sup : forall e, sup e = true -> e < nelem g.

Definition all_in_support (v : nat) : bool := forallb sup (vnbrs g v).
(* the rule of the option flags: a vertex of a support element carries a dof iff boundary dofs are included or the
   vertex is interior to the support (all its elements selected) and not on the grid boundary *)
Definition sel (v : nat) : bool := incl || (all_in_support v && negb (vob g v)).
Definition ext : bool := incl && negb trunc.
Definition touched (v : nat) : Prop := exists e i, sup e = true /\ i < 3 /\ elems g e i = v.

Let ns (v : nat) := filter (fun n => negb (sup n)) (vnbrs g v).

Lemma nonempty_ns v : nonempty (ns v) = negb (all_in_support v).
Proof.
  unfold ns, all_in_support. induction (vnbrs g v) as [|a l IH]; simpl; [reflexivity|].
  destruct (sup a); simpl; [exact IH | reflexivity].
Qed.
Lemma in_ns v x : In x (ns v) <-> In x (vnbrs g v) /\ sup x = false.
Proof. unfold ns. rewrite filter_In, negb_true_iff. tauto. Qed.

Lemma step_sel e i : (incl || (negb (nonempty (ns (elems g e i))) && negb (vob g (elems g e i)))) = sel (elems g e i).
Proof. unfold sel. now rewrite nonempty_ns, negb_involutive. Qed.

Lemma find_index_spec x v : (exists k, k < 3 /\ elems g x k = v) ->
  find_index g x v < 3 /\ elems g x (find_index g x v) = v.
Proof.
  intros (k & Hk & E). unfold find_index.
  destruct (Nat.eqb_spec (elems g x 0) v); [split; [lia|assumption]|].
  destruct (Nat.eqb_spec (elems g x 1) v); [split; [lia|assumption]|].
  destruct (Nat.eqb_spec (elems g x 2) v); [split; [lia|assumption]|].
  exfalso. assert (k = 0 \/ k = 1 \/ k = 2) as [-> | [-> | ->]] by lia; contradiction.
Qed.
Lemma find_index_lt x v : find_index g x v < 3.
Proof. unfold find_index. repeat match goal with |- context [if ?b then _ else _] => destruct b end; lia. Qed.

(* the cells written by the iteration (e, i) of the first loop *)
Definition wrote (e i x k : nat) : Prop :=
  (x = e /\ k = i /\ sel (elems g e i) = true) \/
  (ext = true /\ sup x = false /\ In x (vnbrs g (elems g e i)) /\ k = find_index g x (elems g e i)).

Lemma wrote_vertex e i x k : wrote e i x k -> elems g x k = elems g e i /\ (i < 3 -> k < 3).
Proof.
  intros [(-> & -> & _)|(_ & _ & Hin & ->)]; [auto|].
  apply H_vn in Hin. destruct Hin as [_ Hex]. destruct (find_index_spec x _ Hex). auto.
Qed.

Definition inv (done : list (nat * nat)) (st : p1state) : Prop :=
  (forall x k, pL st x k <> (-1)%Z -> exists e i, In (e, i) done /\ wrote e i x k) /\
  (forall e i x k, In (e, i) done -> wrote e i x k -> pL st x k = Z.of_nat (elems g x k)) /\
  (forall v, pD st v = true <-> exists e i, In (e, i) done /\ elems g e i = v /\ sel v = true) /\
  (forall x, In x (pX st) <-> exists e i, In (e, i) done /\ ext = true /\ sup x = false /\ In x (vnbrs g (elems g e i))).

(* effect of the inner loop over the non-support neighbours *)
Lemma ext_fold v l : forall st,
  let st' := fold_left (p1_ext_step g v) l st in
  (forall x k, pL st' x k = if existsb (fun en => Nat.eqb x en && Nat.eqb k (find_index g en v)) l
                             then Z.of_nat v else pL st x k) /\
  pD st' = pD st /\ (forall x, In x (pX st') <-> In x l \/ In x (pX st)).
Proof.
  induction l as [|a l IH]; intros st; cbn [fold_left].
  - cbn. repeat split; auto; tauto.
  - destruct (IH (p1_ext_step g v st a)) as (A & B & C). split; [|split].
    + intros x k. rewrite A. cbn [existsb p1_ext_step pL].
      destruct (existsb _ l); [now rewrite orb_true_r|]. rewrite orb_false_r.
      unfold upd2. destruct (Nat.eqb x a && Nat.eqb k (find_index g a v)); reflexivity.
    + rewrite B. reflexivity.
    + intros x. rewrite C. cbn [p1_ext_step pX In]. intuition.
Qed.

Lemma step_inv done st e i : sup e = true -> inv done st ->
  inv (done ++ [(e, i)]) (p1_step g sup incl trunc st (e, i)).
Proof.
  intros He (I1 & I2 & I3 & I4).
  unfold p1_step. cbn [fst snd]. fold (ns (elems g e i)). rewrite step_sel.
  set (v := elems g e i).
  set (st1 := if sel v then {| pL := upd2 (pL st) e i (Z.of_nat v); pD := upd1 (pD st) v true; pX := pX st |} else st).
  assert (Hcond : (nonempty (ns v) && negb trunc && incl) = (nonempty (ns v) && ext)).
  { unfold ext. destruct (nonempty (ns v)), trunc, incl; reflexivity. }
  rewrite Hcond.
  (* characterise st1 *)
  assert (L1 : forall x k, pL st1 x k = if Nat.eqb x e && Nat.eqb k i && sel v then Z.of_nat v else pL st x k).
  { intros x k. unfold st1. destruct (sel v); cbn; [unfold upd2|]; destruct (Nat.eqb x e && Nat.eqb k i); reflexivity. }
  assert (D1 : forall w, pD st1 w = (Nat.eqb w v && sel v) || pD st w).
  { intros w. unfold st1. destruct (sel v); cbn; [unfold upd1; destruct (Nat.eqb w v); reflexivity|].
    now rewrite andb_false_r. }
  assert (X1 : pX st1 = pX st) by (unfold st1; destruct (sel v); reflexivity).
  (* the final state of this iteration *)
  set (st2 := if nonempty (ns v) && ext then fold_left (p1_ext_step g v) (ns v) st1 else st1).
  assert (L2 : forall x k, pL st2 x k =
                 if ext && existsb (fun en => Nat.eqb x en && Nat.eqb k (find_index g en v)) (ns v)
                 then Z.of_nat v else pL st1 x k).
  { intros x k. unfold st2. destruct (nonempty (ns v)) eqn:Hn; cbn [andb].
    - destruct ext; cbn [andb]; [|reflexivity]. apply (ext_fold v (ns v) st1).
    - destruct (ns v); [|discriminate]. cbn. now rewrite andb_false_r. }
  assert (D2 : pD st2 = pD st1).
  { unfold st2. destruct (nonempty (ns v) && ext); [apply (ext_fold v (ns v) st1) | reflexivity]. }
  assert (X2 : forall x, In x (pX st2) <-> (ext = true /\ In x (ns v)) \/ In x (pX st)).
  { intros x. unfold st2. destruct (nonempty (ns v)) eqn:Hn; cbn [andb].
    - destruct ext; [|rewrite X1; intuition discriminate].
      rewrite (proj2 (proj2 (ext_fold v (ns v) st1))), X1. intuition.
    - destruct (ns v); [|discriminate]. rewrite X1. cbn. intuition. }
  (* which cells does the iteration write, in terms of [wrote] *)
  assert (W : forall x k, wrote e i x k <->
             (Nat.eqb x e && Nat.eqb k i && sel v = true) \/
             (ext && existsb (fun en => Nat.eqb x en && Nat.eqb k (find_index g en v)) (ns v) = true)).
  { intros x k. unfold wrote. fold v. rewrite !andb_true_iff, !Nat.eqb_eq, existsb_exists. split.
    - intros [(-> & -> & S)|(E & Sx & Hin & ->)]; [left; auto|]. right. split; [assumption|].
      exists x. split; [apply in_ns; auto|]. now rewrite !Nat.eqb_refl.
    - intros [((-> & ->) & S)|(E & en & Hin & Heq)]; [left; auto|].
      apply andb_true_iff in Heq. destruct Heq as [E1 E2]. apply Nat.eqb_eq in E1, E2. subst en.
      apply in_ns in Hin. right. tauto. }
  fold st2. split; [|split; [|split]].
  - (* every written cell has a writer *)
    intros x k Hne. rewrite L2 in Hne.
    destruct (ext && existsb _ (ns v)) eqn:C2.
    + exists e, i. split; [apply in_or_app; right; now left|]. apply W. now right.
    + rewrite L1 in Hne. destruct (Nat.eqb x e && Nat.eqb k i && sel v) eqn:C1.
      * exists e, i. split; [apply in_or_app; right; now left|]. apply W. now left.
      * destruct (I1 x k Hne) as (e' & i' & Hin & Hw). exists e', i'. split; [apply in_or_app; now left|assumption].
  - (* every writer's cell holds the vertex of that cell *)
    intros e' i' x k Hin Hw. rewrite L2, L1.
    destruct (ext && existsb _ (ns v)) eqn:C2.
    + assert (Hw' : wrote e i x k) by (apply W; now right).
      destruct (wrote_vertex _ _ _ _ Hw') as [-> _]. reflexivity.
    + destruct (Nat.eqb x e && Nat.eqb k i && sel v) eqn:C1.
      * assert (Hw' : wrote e i x k) by (apply W; now left).
        destruct (wrote_vertex _ _ _ _ Hw') as [-> _]. reflexivity.
      * apply in_app_or in Hin. destruct Hin as [Hin|[Heq|[]]]; [now apply (I2 e' i')|].
        inversion Heq; subst e' i'. apply W in Hw. rewrite C1, C2 in Hw. destruct Hw; discriminate.
  - intros w. rewrite D2, D1, orb_true_iff, andb_true_iff, Nat.eqb_eq, I3. split.
    + intros [[-> S]|(e' & i' & Hin & E & S)].
      * exists e, i. split; [apply in_or_app; right; now left | auto].
      * exists e', i'. split; [apply in_or_app; now left | auto].
    + intros (e' & i' & Hin & E & S). apply in_app_or in Hin. destruct Hin as [Hin|[Heq|[]]].
      * right. eauto.
      * inversion Heq; subst e' i'. left. subst w. auto.
  - intros x. rewrite X2, I4. split.
    + intros [[E Hin]|(e' & i' & Hin & R)].
      * apply in_ns in Hin. exists e, i. split; [apply in_or_app; right; now left | tauto].
      * exists e', i'. split; [apply in_or_app; now left | assumption].
    + intros (e' & i' & Hin & E & Sx & Hv). apply in_app_or in Hin. destruct Hin as [Hin|[Heq|[]]].
      * right. eauto 8.
      * inversion Heq; subst e' i'. left. split; [assumption|]. apply in_ns. auto.
Qed.

Lemma fold_inv ops : forall done st, (forall e i, In (e, i) ops -> sup e = true) -> inv done st ->
  inv (done ++ ops) (fold_left (p1_step g sup incl trunc) ops st).
Proof.
  induction ops as [|[e i] ops IH]; intros done st Hs Hi; cbn [fold_left].
  - now rewrite app_nil_r.
  - replace (done ++ (e, i) :: ops) with ((done ++ [(e, i)]) ++ ops) by (rewrite <- app_assoc; reflexivity).
    apply IH; [intros e' i' H; apply (Hs e' i'); now right|].
    apply step_inv; [apply (Hs e i); now left | assumption].
Qed.

Let ops := elem_local_pairs (filter sup (seq 0 (nelem g))).
Let st := p1_loop1 g sup incl trunc.

Lemma in_ops e i : In (e, i) ops <-> sup e = true /\ i < 3.
Proof.
  unfold ops, elem_local_pairs. rewrite in_flat_map. split.
  - intros (e' & He & Hin). apply filter_In in He. destruct He as [_ He].
    apply in_map_iff in Hin. destruct Hin as (i' & E & Hi). inversion E; subst. split; [assumption|].
    simpl in Hi. lia.
  - intros [He Hi]. exists e. split; [apply filter_In; split; [apply in_seq; pose proof (H_sup e He); lia | assumption]|].
    apply in_map_iff. exists i. split; [reflexivity|]. simpl. lia.
Qed.

Lemma final_inv : inv ops st.
Proof.
  unfold st, p1_loop1. fold ops. apply (fold_inv ops [] p1_init).
  - intros e i H. now apply in_ops in H.
  - unfold inv, p1_init. cbn. repeat split; try (intros; congruence); try (intros (e & i & [] & _)); try contradiction.
    all: try (intros H; now elim H).
Qed.

(* ---------- consequences ---------- *)
(* selected vertices are exactly those the flags specify *)
Theorem p1_selected_iff v : pD st v = true <-> touched v /\ sel v = true.
Proof.
  destruct final_inv as (_ & _ & I3 & _). rewrite I3. unfold touched. split.
  - intros (e & i & Hin & E & S). apply in_ops in Hin. split; [exists e, i; tauto | assumption].
  - intros [(e & i & He & Hi & E) S]. exists e, i. split; [apply in_ops; auto | auto].
Qed.

Lemma pL_values x k : pL st x k = (-1)%Z \/ pL st x k = Z.of_nat (elems g x k).
Proof.
  destruct final_inv as (I1 & I2 & _). destruct (Z.eq_dec (pL st x k) (-1)) as [E|N]; [now left|right].
  destruct (I1 x k N) as (e & i & Hin & Hw). now apply (I2 e i).
Qed.

Lemma real_support e i : sup e = true -> i < 3 -> p1_real st e i = sel (elems g e i).
Proof.
  intros He Hi. destruct final_inv as (I1 & I2 & _). unfold p1_real.
  destruct (sel (elems g e i)) eqn:S.
  - rewrite (I2 e i e i); [|apply in_ops; auto | left; auto]. apply negb_true_iff, Z.eqb_neq. lia.
  - apply negb_false_iff, Z.eqb_eq. destruct (Z.eq_dec (pL st e i) (-1)) as [E|N]; [assumption|exfalso].
    destruct (I1 e i N) as (e' & i' & Hin & [(-> & -> & S')|(_ & Sx & _)]); congruence.
Qed.

Hypothesis H_distinct : forall x k j, x < nelem g -> k < 3 -> j < 3 -> elems g x k = elems g x j -> k = j.

Lemma real_nonsupport x k : sup x = false -> x < nelem g -> k < 3 ->
  (p1_real st x k = true <-> ext = true /\ touched (elems g x k)).
Proof.
  intros Sx Hx Hk. destruct final_inv as (I1 & I2 & _). unfold p1_real. rewrite negb_true_iff, Z.eqb_neq. split.
  - intros N. destruct (I1 x k N) as (e & i & Hin & Hw). apply in_ops in Hin.
    destruct (wrote_vertex _ _ _ _ Hw) as [E _].
    destruct Hw as [(-> & _ & _)|(Hext & _ & _ & _)]; [destruct Hin; congruence|].
    split; [assumption|]. exists e, i. rewrite E. tauto.
  - intros [Hext (e & i & He & Hi & E)].
    assert (Hin : In x (vnbrs g (elems g e i))) by (apply H_vn; split; [assumption | exists k; auto]).
    assert (Hf : find_index g x (elems g e i) = k).
    { destruct (find_index_spec x (elems g e i)) as [F1 F2]; [exists k; auto|].
      apply (H_distinct x); try assumption. congruence. }
    rewrite (I2 e i x k); [lia | apply in_ops; auto | right; rewrite Hf; auto].
Qed.

Lemma visited_nonsupport x : sup x = false -> x < nelem g ->
  (p1_visited g sup st x = true <-> ext = true /\ exists k, k < 3 /\ touched (elems g x k)).
Proof.
  intros Sx Hx. destruct final_inv as (_ & _ & _ & I4). unfold p1_visited.
  rewrite andb_true_iff, Nat.ltb_lt, Sx, orb_false_l, memb_In, I4. split.
  - intros [_ (e & i & Hin & Hext & _ & Hv)]. apply in_ops in Hin. split; [assumption|].
    apply H_vn in Hv. destruct Hv as [_ (k & Hk & E)]. exists k. split; [assumption|]. exists e, i. rewrite E. tauto.
  - intros [Hext (k & Hk & e & i & He & Hi & E)]. split; [assumption|]. exists e, i.
    split; [apply in_ops; auto|]. repeat split; try assumption. apply H_vn. split; [assumption|]. exists k. auto.
Qed.

Let s := p1_space g sup incl trunc.

Lemma final_support x : supp s x = true -> x < nelem g /\ p1_visited g sup st x = true /\ p1_has st x = true.
Proof.
  unfold s, p1_space. fold st. cbn. intros H. apply andb_true_iff in H. destruct H as [Hv Hh].
  repeat split; try assumption. unfold p1_visited in Hv. apply andb_true_iff in Hv. destruct Hv as [Hv _].
  now apply Nat.ltb_lt.
Qed.

(* the multiplier of local vertex k of a final support element is 1 exactly when the vertex is "real" *)
Lemma mult_real x k : supp s x = true -> mult s x k = if p1_real st x k then 1%Z else 0%Z.
Proof.
  intros H. destruct (final_support x H) as (_ & Hv & _). unfold s, p1_space. fold st. cbn. now rewrite Hv.
Qed.
Lemma l2g_real x k : supp s x = true -> p1_real st x k = true ->
  l2g s x k = rank (pD st) (elems g x k) /\ pD st (elems g x k) = true.
Proof.
  intros H R. destruct (final_support x H) as (_ & Hv & _). unfold s, p1_space. fold st. cbn. rewrite Hv, R.
  unfold p1_dof. rewrite R. unfold p1_real in R. apply negb_true_iff, Z.eqb_neq in R.
  destruct (pL_values x k) as [E|E]; [contradiction|]. rewrite E, Nat2Z.id. split; [reflexivity|].
  destruct final_inv as (I1 & _ & I3 & _). destruct (I1 x k R) as (e & i & Hin & Hw).
  apply I3. destruct (wrote_vertex _ _ _ _ Hw) as [Ev _]. exists e, i. split; [assumption|]. split; [now symmetry|].
  destruct Hw as [(_ & _ & S)|(Hext & _ & _ & _)]; [now rewrite Ev|].
  unfold sel. unfold ext in Hext. apply andb_true_iff in Hext. destruct Hext as [-> _]. reflexivity.
Qed.

(* whether local vertex k of final-support element x is real depends only on the vertex *)
Lemma real_depends_on_vertex x k : supp s x = true -> k < 3 ->
  p1_real st x k = true <-> (if sup x then sel (elems g x k) = true else touched (elems g x k)).
Proof.
  intros H Hk. destruct (final_support x H) as (Hx & Hv & _). destruct (sup x) eqn:Sx.
  - now rewrite real_support.
  - rewrite (real_nonsupport x k Sx Hx Hk). apply (visited_nonsupport x Sx Hx) in Hv. tauto.
Qed.

(* C09_p1_continuous: two final-support elements that share a vertex agree there: same multiplier, and the same
   global dof whenever the multiplier is non-zero *)
Theorem p1_continuous x y k j : supp s x = true -> supp s y = true -> k < 3 -> j < 3 ->
  elems g x k = elems g y j ->
  mult s x k = mult s y j /\ (mult s x k <> 0%Z -> l2g s x k = l2g s y j).
Proof.
  intros Hx Hy Hk Hj E.
  assert (R : p1_real st x k = p1_real st y j).
  { apply eq_true_iff_eq. rewrite (real_depends_on_vertex x k Hx Hk), (real_depends_on_vertex y j Hy Hj), <- E.
    destruct (final_support x Hx) as (Hxn & Hvx & _). destruct (final_support y Hy) as (Hyn & Hvy & _).
    destruct (sup x) eqn:Sx, (sup y) eqn:Sy; try tauto.
    - (* x selected, y reached by the extension: boundary dofs are included, so the vertex is selected *)
      apply (visited_nonsupport y Sy Hyn) in Hvy. destruct Hvy as [Hext _].
      unfold ext in Hext. apply andb_true_iff in Hext. destruct Hext as [Hincl _].
      unfold sel. rewrite Hincl. cbn. split; [intros _|reflexivity]. exists x, k. auto.
    - apply (visited_nonsupport x Sx Hxn) in Hvx. destruct Hvx as [Hext _].
      unfold ext in Hext. apply andb_true_iff in Hext. destruct Hext as [Hincl _].
      unfold sel. rewrite Hincl. cbn. split; [reflexivity|intros _]. exists y, j. auto. }
  rewrite !mult_real by assumption. rewrite R. split; [reflexivity|].
  destruct (p1_real st y j) eqn:Ry; [|intros N; now elim N]. intros _.
  destruct (l2g_real x k Hx R) as [-> _]. destruct (l2g_real y j Hy Ry) as [-> _]. now rewrite E.
Qed.

(* dof of a vertex = its rank among the selected vertices; distinct selected vertices get distinct dofs *)
Theorem p1_dof_is_rank x k : supp s x = true -> mult s x k <> 0%Z ->
  mult s x k = 1%Z /\ l2g s x k = rank (pD st) (elems g x k) /\ pD st (elems g x k) = true.
Proof.
  intros H N. rewrite mult_real in N |- * by assumption. destruct (p1_real st x k) eqn:R; [|now elim N].
  split; [reflexivity|]. now apply l2g_real.
Qed.
Theorem p1_dofs_injective x y k j : supp s x = true -> supp s y = true ->
  mult s x k <> 0%Z -> mult s y j <> 0%Z -> l2g s x k = l2g s y j -> elems g x k = elems g y j.
Proof.
  intros Hx Hy Nx Ny E. destruct (p1_dof_is_rank x k Hx Nx) as (_ & Ex & Dx).
  destruct (p1_dof_is_rank y j Hy Ny) as (_ & Ey & Dy). rewrite Ex, Ey in E. now apply (rank_inj (pD st)).
Qed.

(* partition of unity: an element all of whose vertices are selected (always the case with include_boundary_dofs,
   and on a closed grid with the whole grid as support) carries multiplier 1 on its three local functions, so by
   Reference.p1_partition_of_unity the basis sums to one there *)
Theorem p1_full_multipliers x : sup x = true -> (forall k, k < 3 -> sel (elems g x k) = true) ->
  supp s x = true /\ forall k, k < 3 -> mult s x k = 1%Z.
Proof.
  intros Sx Hall. pose proof (H_sup x Sx) as Hx.
  assert (Hvis : p1_visited g sup st x = true).
  { unfold p1_visited. rewrite Sx. apply Nat.ltb_lt in Hx. now rewrite Hx. }
  assert (R : forall k, k < 3 -> p1_real st x k = true) by (intros k Hk; rewrite real_support by assumption; now apply Hall).
  assert (Hs : supp s x = true).
  { unfold s, p1_space. fold st. cbn. rewrite Hvis. unfold p1_has. rewrite (R 0) by lia. reflexivity. }
  split; [exact Hs|]. intros k Hk. rewrite mult_real by assumption. now rewrite R.
Qed.

(* ---------- dof count ---------- *)
Hypothesis H_vert : forall x k, x < nelem g -> k < 3 -> elems g x k < nvert g.
Let count := p1_selected_count g sup incl trunc.

Lemma real_selected x k : p1_real st x k = true -> pL st x k = Z.of_nat (elems g x k) /\ pD st (elems g x k) = true.
Proof.
  intros R. unfold p1_real in R. apply negb_true_iff, Z.eqb_neq in R.
  destruct (pL_values x k) as [E|E]; [contradiction|]. split; [assumption|].
  destruct final_inv as (I1 & _ & I3 & _). destruct (I1 x k R) as (e & i & Hin & Hw).
  apply I3. destruct (wrote_vertex _ _ _ _ Hw) as [Ev _]. exists e, i. split; [assumption|]. split; [now symmetry|].
  destruct Hw as [(_ & _ & S)|(Hext & _ & _ & _)]; [now rewrite Ev|].
  unfold sel. unfold ext in Hext. apply andb_true_iff in Hext. destruct Hext as [-> _]. reflexivity.
Qed.

Lemma dof_bound x k : x < nelem g -> k < 3 -> p1_dof st x k = 0 \/ p1_dof st x k < count.
Proof.
  intros Hx Hk. unfold p1_dof. destruct (p1_real st x k) eqn:R; [right|now left].
  destruct (real_selected x k R) as [E D]. rewrite E, Nat2Z.id. unfold count, p1_selected_count. fold st.
  apply rank_lt; [now apply H_vert | assumption].
Qed.

Theorem p1_dof_count : 1 <= count -> ndofs s = count.
Proof.
  intros Hc. unfold ndofs.
  assert (Hle : forall d, In d (all_dofs s) -> d <= count - 1).
  { intros d Hd. apply in_all_dofs in Hd. destruct Hd as (x & k & Hx & Hk & E).
    unfold s, p1_space in Hx, Hk, E. fold st in E. cbn in Hx, Hk, E.
    pose proof (dof_bound x 0 Hx ltac:(lia)). pose proof (dof_bound x 1 Hx ltac:(lia)).
    pose proof (dof_bound x 2 Hx ltac:(lia)). pose proof (dof_bound x k Hx Hk).
    destruct (p1_visited g sup st x); [|lia]. destruct (p1_real st x k); [lia|].
    destruct (p1_has st x); lia. }
  assert (Hge : In (count - 1) (all_dofs s)).
  { destruct (rank_surj (pD st) (nvert g) (count - 1)) as (v & Hv & Dv & Rv).
    { unfold count, p1_selected_count in *. fold st in Hc |- *. lia. }
    apply p1_selected_iff in Dv. destruct Dv as [(e & i & He & Hi & E) S].
    apply in_all_dofs. exists e, i. pose proof (H_sup e He) as Hen. split; [exact Hen|]. split; [exact Hi|].
    unfold s, p1_space. fold st. cbn.
    assert (Hvis : p1_visited g sup st e = true).
    { unfold p1_visited. rewrite He. apply Nat.ltb_lt in Hen. now rewrite Hen. }
    assert (R : p1_real st e i = true) by (rewrite real_support by assumption; now rewrite E).
    rewrite Hvis, R. unfold p1_dof. rewrite R. destruct (real_selected e i R) as [EL _].
    now rewrite EL, Nat2Z.id, E. }
  assert (max_list (all_dofs s) = count - 1); [|lia].
  apply Nat.le_antisymm.
  - destruct (max_list_attained (all_dofs s)) as [E|Hin]; [intros E; rewrite E in Hge; contradiction | lia | now apply Hle].
  - now apply max_list_In.
Qed.
End P1.

(* zero-multiplier entries of a P1 row repeat a real dof of the same row (whatever the tables are) *)
Theorem p1_alias_closed g sup incl trunc : alias_closed (p1_space g sup incl trunc).
Proof.
  intros e i He Hi. apply in_support_elements' in He. destruct He as [_ He].
  unfold p1_space in *. set (st := p1_loop1 g sup incl trunc) in *. cbn in He, Hi |- *.
  apply andb_true_iff in He. destruct He as [Hv Hh]. rewrite Hv, Hh. cbn [andb].
  destruct (p1_real st e i) eqn:Ri.
  - exists i. rewrite Ri. repeat split; [assumption | discriminate].
  - unfold p1_has in Hh.
    assert (Hd : forall k, p1_real st e k = false -> p1_dof st e k = 0) by (intros k Hk; unfold p1_dof; now rewrite Hk).
    set (d0 := p1_dof st e 0) in *. set (d1 := p1_dof st e 1) in *. set (d2 := p1_dof st e 2) in *.
    assert (Hcases : exists j, j < 3 /\ p1_real st e j = true /\ p1_dof st e j = Nat.max d0 (Nat.max d1 d2)).
    { destruct (p1_real st e 0) eqn:R0, (p1_real st e 1) eqn:R1, (p1_real st e 2) eqn:R2; try discriminate;
        try (pose proof (Hd 0 R0) as Z0; fold d0 in Z0); try (pose proof (Hd 1 R1) as Z1; fold d1 in Z1);
        try (pose proof (Hd 2 R2) as Z2; fold d2 in Z2).
      all: destruct (Nat.max_spec d0 (Nat.max d1 d2)) as [[? Em]|[? Em]];
        destruct (Nat.max_spec d1 d2) as [[? En]|[? En]].
      all: first [ exists 0; split; [lia|]; split; [assumption|]; fold d0; lia
                 | exists 1; split; [lia|]; split; [assumption|]; fold d1; lia
                 | exists 2; split; [lia|]; split; [assumption|]; fold d2; lia ]. }
    destruct Hcases as (j & Hj & Rj & Ej). exists j. rewrite Rj. repeat split; [assumption | assumption | discriminate].
Qed.

(* the phantom dof: a selection without any dof still reports one global dof *)
Definition one_triangle : grid :=
  {| nelem := 1; nvert := 3; nedge := 3; elems := fun _ i => i; eedges := fun _ i => i;
     enbrs := fun _ => [0]; vnbrs := fun _ => [0]; vob := fun _ => true; dom := fun _ => 0 |}.
Theorem p1_dof_count_empty_refuted :
  exists g sup incl trunc,
    p1_selected_count g sup incl trunc = 0 /\ ndofs (p1_space g sup incl trunc) = 1 /\
    support_elements (p1_space g sup incl trunc) = [].
Proof. exists one_triangle, (fun e => Nat.ltb e 1), false, true. vm_compute. auto. Qed.
