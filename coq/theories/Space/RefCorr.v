(* Correspondence of the reference-element models (Space.Reference, instantiated with Q) with the implementation:
   shapesets at dyadic points (exact), mapped RWG / SNC functions on triangles with rational edge lengths (1e-13). *)
From Coq Require Import QArith Qabs List Bool.
From BV Require Import Space.Reference.
Import ListNotations.
Open Scope Q_scope.

Definition qvec := (Q * Q * Q)%type.
Definition Qp1 := p1_ref Q 1 Qminus.
Definition Qrwg_ref := rwg_ref Q 1 Qminus.
Definition Qrwg_eval := rwg_eval Q 1 Qplus Qmult Qminus Qdiv.
Definition Qsnc_eval := snc_eval Q 1 Qplus Qmult Qminus Qdiv.
Definition Qdot := dot Q Qplus Qmult.
Definition Qnrm := nrm Q Qmult Qminus.
Definition Qtangent := tangent Q Qminus.

Definition qclose (tol a b : Q) : bool := Qle_bool (Qabs (a - b)) tol.
Definition vclose (tol : Q) (u v : qvec) : bool :=
  qclose tol (fst (fst u)) (fst (fst v)) && qclose tol (snd (fst u)) (snd (fst v)) && qclose tol (snd u) (snd v).

(* shapeset values at the points: p1 (3 per point), rwg (3 pairs per point), p0 (1 per point) *)
Definition shapeset_point_ok (c : (Q * Q) * list Q * list (Q * Q) * Q) : bool :=
  let '(pt, p1v, rwv, p0v) := c in
  let '(x, y) := pt in
  forallb (fun iv => Qeq_bool (Qp1 (fst iv) x y) (snd iv)) (combine [0%nat; 1%nat; 2%nat] p1v) &&
  forallb (fun iv => Qeq_bool (fst (Qrwg_ref (fst iv) x y)) (fst (snd iv)) &&
                     Qeq_bool (snd (Qrwg_ref (fst iv) x y)) (snd (snd iv))) (combine [0%nat; 1%nat; 2%nat] rwv) &&
  Qeq_bool p0v 1 && Nat.eqb (length p1v) 3 && Nat.eqb (length rwv) 3.

(* one element: vertices, edge lengths l0 l1 l2, integration element A, multipliers m0 m1 m2, normal multiplier,
   and the values (per point: 3 basis functions, 3 components) of space.evaluate *)
Record elem_case := mkelem {
  ec_p0 : qvec; ec_p1 : qvec; ec_p2 : qvec; ec_l : list Q; ec_A : Q; ec_m : list Q; ec_nm : Q;
  ec_pts : list (Q * Q); ec_rwg : list (list qvec); ec_snc : list (list qvec) }.

Definition hyps_ok (c : elem_case) : bool :=
  let l := fun i => nth i (ec_l c) 0 in
  Qeq_bool (ec_A c * ec_A c) (Qdot (Qnrm (ec_p0 c) (ec_p1 c) (ec_p2 c)) (Qnrm (ec_p0 c) (ec_p1 c) (ec_p2 c))) &&
  forallb (fun i => let t := Qtangent (ec_p0 c) (ec_p1 c) (ec_p2 c) i in Qeq_bool (l i * l i) (Qdot t t) &&
                    negb (Qeq_bool (l i) 0)) [0%nat; 1%nat; 2%nat] &&
  negb (Qeq_bool (ec_A c) 0).

Definition elem_ok (c : elem_case) : bool :=
  let l := fun i => nth i (ec_l c) 0 in
  let m := fun i => nth i (ec_m c) 0 in
  let tol := 1 # 10000000000000 in
  hyps_ok c &&
  forallb (fun pv => let '(pt, (rv, sv)) := pv in
    forallb (fun iv => vclose tol (Qrwg_eval (ec_p0 c) (ec_p1 c) (ec_p2 c) l (ec_A c) (m (fst iv)) (fst iv) (fst pt) (snd pt)) (snd iv))
            (combine [0%nat; 1%nat; 2%nat] rv) &&
    forallb (fun iv => vclose tol (Qsnc_eval (ec_p0 c) (ec_p1 c) (ec_p2 c) l (ec_A c) (ec_nm c) (m (fst iv)) (fst iv) (fst pt) (snd pt)) (snd iv))
            (combine [0%nat; 1%nat; 2%nat] sv) && Nat.eqb (length rv) 3 && Nat.eqb (length sv) 3)
    (combine (ec_pts c) (combine (ec_rwg c) (ec_snc c))) &&
  Nat.eqb (length (ec_rwg c)) (length (ec_pts c)) && Nat.eqb (length (ec_snc c)) (length (ec_pts c)).

Definition failing {A} (ok : A -> bool) (l : list A) : list nat :=
  map fst (filter (fun ic => negb (ok (snd ic))) (combine (seq 0 (length l)) l)).
