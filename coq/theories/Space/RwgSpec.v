(* RWG/SNC on manifold grids: an edge carries a dof exactly when the rule of the option flags, applied to the INITIAL
   selection, says so:  two selected elements on the edge, or one and include_boundary_dofs.
   (RwgProofs states everything relative to the final support; this file adds the second loop invariant that links
   the mutated support back to the selection the user asked for.) *)
From Coq Require Import ZArith List Bool Arith Lia.
From BV Require Import Space.DofMaps Space.SpaceBasics Space.DofMapsProofs Space.RwgProofs.
Import ListNotations.

Section Spec.
Variable g : grid.
Variable sup : nat -> bool.
Variables incl trunc : bool.
Hypothesis H_en : forall edge x, In x (enbrs g edge) <-> x < nelem g /\ exists k, k < 3 /\ eedges g x k = edge.
Hypothesis H_nodup : forall edge, NoDup (enbrs g edge).
Hypothesis H_sup : forall e, sup e = true -> e < nelem g.
Hypothesis H_manifold : forall edge, length (enbrs g edge) <= 2.

Definition n0 (edge : nat) : list nat := filter sup (enbrs g edge).
(* the documented rule on the selection the user asked for *)
Definition rule (edge : nat) : Prop := length (n0 edge) = 2 \/ (length (n0 edge) = 1 /\ incl = true).

Record Inv2 (st : rwgstate) (todo : list nat) : Prop := {
  j_sub : incl = false -> forall x, rS st x = true -> sup x = true;
  j_init : forall edge, rE st edge <> (-1)%Z -> exists a, In a (enbrs g edge) /\ sup a = true;
  j_todo : forall x, In x todo -> rS st x = true /\ sup x = true;
  j_done : forall x k, sup x = true -> ~ In x todo -> k < 3 -> rule (eedges g x k) -> rE st (eedges g x k) <> (-1)%Z
}.

Definition addall (st : rwgstate) (edge : nat) : rwgstate :=
  {| rS := fun x => memb x (enbrs g edge) || rS st x; rE := rE st; rC := rC st |}.

(* the four outcomes of one edge step *)
Lemma edge_step_cases st e has i :
  let edge := eedges g e i in
  let sn := filter (rS st) (enbrs g edge) in
  let r := rwg_edge_step g incl trunc e (st, has) i in
  (rE st edge <> (-1)%Z /\ r = (st, true)) \/
  (rE st edge = (-1)%Z /\ length sn = 2 /\ r = (assigned st edge, true)) \/
  (rE st edge = (-1)%Z /\ length sn = 1 /\ incl = true /\
   r = ((if negb trunc then addall (assigned st edge) edge else assigned st edge), true)) \/
  (rE st edge = (-1)%Z /\ length sn <> 2 /\ (length sn <> 1 \/ incl = false) /\ r = (st, has)).
Proof.
  intros edge sn r. unfold r, rwg_edge_step. cbn [fst snd]. fold edge. fold sn.
  destruct (Z.eqb_spec (rE st edge) (-1)) as [E|N]; cbn [negb]; [|left; auto].
  right. destruct (Nat.eqb_spec (length sn) 2) as [L2|L2].
  - left. replace (Nat.eqb (length sn) 1) with false by (symmetry; apply Nat.eqb_neq; lia). cbn [andb fst snd].
    rewrite rwg_assign_fresh by assumption. auto.
  - right. cbn [fst snd]. destruct (Nat.eqb_spec (length sn) 1) as [L1|L1]; cbn [andb].
    + destruct (Bool.bool_dec incl true) as [Hi|Hi].
      * left. rewrite Hi. cbn [andb fst snd]. rewrite rwg_assign_fresh by assumption.
        repeat split; try assumption; try reflexivity; try (destruct trunc; reflexivity).
      * right. apply Bool.not_true_is_false in Hi. rewrite Hi. cbn [andb]. auto.
    + right. auto.
Qed.

Lemma length_filter_le2 (f : nat -> bool) edge : length (filter f (enbrs g edge)) <= 2.
Proof. etransitivity; [apply filter_length_le | apply H_manifold]. Qed.

(* on an edge with at most two elements: if the supported ones number one although two are selected, the other
   selected element is unsupported *)
Lemma other_selected st edge e : rS st e = true -> In e (enbrs g edge) ->
  length (filter (rS st) (enbrs g edge)) = 1 -> length (n0 edge) = 2 ->
  exists b, b <> e /\ In b (enbrs g edge) /\ sup b = true /\ rS st b = false.
Proof.
  intros Se He L1 L2. unfold n0 in L2.
  destruct (filter_length_2 sup (enbrs g edge) (H_nodup edge) L2) as (a & b & Hab & Ha & Hb & Sa & Sb).
  assert (Hcase : a <> e \/ b <> e) by (destruct (Nat.eq_dec a e); [right; congruence | now left]).
  assert (Key : forall c, c <> e -> In c (enbrs g edge) -> sup c = true -> rS st c = false).
  { intros c Hce Hc Sc. destruct (rS st c) eqn:Rc; [exfalso | reflexivity].
    assert (Hi : List.incl [e; c] (filter (rS st) (enbrs g edge))).
    { intros z [<-|[<-|[]]]; apply filter_In; auto. }
    assert (Hnd : NoDup [e; c]) by (constructor; [intros [H|[]]; congruence | constructor; [intros [] | constructor]]).
    pose proof (NoDup_incl_length Hnd Hi) as Hl. simpl in Hl. lia. }
  destruct Hcase as [H|H]; [exists a | exists b]; repeat split; auto.
Qed.

Lemma edge_step_inv2 st e rest has i : Inv2 st (e :: rest) -> i < 3 ->
  let r := rwg_edge_step g incl trunc e (st, has) i in
  Inv2 (fst r) (e :: rest) /\ grows st (fst r) /\
  (rule (eedges g e i) -> rE (fst r) (eedges g e i) <> (-1)%Z).
Proof.
  intros J Hi. cbv zeta. set (edge := eedges g e i).
  destruct (j_todo _ _ J e (or_introl eq_refl)) as [Se Supe]. pose proof (H_sup e Supe) as Hen.
  assert (Hein : In e (enbrs g edge)) by (apply H_en; split; [assumption | exists i; auto]).
  assert (Grefl : grows st st) by (split; auto).
  (* invariant after an assignment (with or without adding the neighbours to the support) *)
  assert (Assign : forall (add : bool), rE st edge = (-1)%Z -> (add = true -> incl = true) ->
            let st' := if add then addall (assigned st edge) edge else assigned st edge in
            Inv2 st' (e :: rest) /\ grows st st' /\ rE st' edge <> (-1)%Z).
  { intros add E Hadd st'.
    assert (E' : forall e', rE st' e' = if Nat.eqb e' edge then Z.of_nat (rC st) else rE st e').
    { intros e'. unfold st'. destruct add; reflexivity. }
    assert (S' : forall x, rS st' x = (add && memb x (enbrs g edge)) || rS st x).
    { intros x. unfold st'. destruct add; reflexivity. }
    assert (G : grows st st').
    { split.
      - intros e' N. rewrite E'. destruct (Nat.eqb_spec e' edge); [subst; contradiction | reflexivity].
      - intros x Hx. rewrite S', Hx. apply orb_true_r. }
    split; [|split; [exact G|]].
    - constructor.
      + intros Hincl x Sx. rewrite S' in Sx. apply orb_true_iff in Sx. destruct Sx as [Sx|Sx]; [|now apply (j_sub _ _ J)].
        apply andb_true_iff in Sx. destruct Sx as [Ha _]. specialize (Hadd Ha). congruence.
      + intros e' N. destruct (Nat.eq_dec e' edge) as [->|Hne]; [exists e; auto|].
        apply (j_init _ _ J). rewrite E' in N. destruct (Nat.eqb_spec e' edge); congruence.
      + intros x Hx. destruct (j_todo _ _ J x Hx) as [Sx Sux]. split; [now apply (proj2 G) | assumption].
      + intros x k Sx Hx Hk Hr. rewrite (proj1 G); now apply (j_done _ _ J).
    - rewrite E', Nat.eqb_refl. lia. }
  pose proof (edge_step_cases st e has i) as C. cbv zeta in C. fold edge in C.
  destruct C as [[N ->]|[(E & L2 & ->)|[(E & L1 & Hincl & ->)|(E & NL2 & NL1 & ->)]]]; cbn [fst snd].
  - split; [exact J|]. split; [exact Grefl|]. auto.
  - destruct (Assign false E) as (A1 & A2 & A3); [discriminate|]. cbn in A1, A2, A3. auto.
  - destruct (Assign (negb trunc) E) as (A1 & A2 & A3); [auto|]. cbv zeta in A1, A2, A3. auto.
  - split; [exact J|]. split; [exact Grefl|]. intros Hr. exfalso.
    set (sn := filter (rS st) (enbrs g edge)) in *.
    assert (Hsn1 : 1 <= length sn).
    { assert (Hin : In e sn) by (apply filter_In; auto). destruct sn; [contradiction | simpl; lia]. }
    pose proof (length_filter_le2 (rS st) edge) as Hsn2. fold sn in Hsn2.
    assert (L1 : length sn = 1) by lia. destruct NL1 as [?|Hincl]; [lia|].
    destruct Hr as [R2|[_ Ri]]; [|congruence].
    destruct (other_selected st edge e Se Hein L1 R2) as (b & Hbe & Hb & Sb & Rb).
    (* b is selected but unsupported: it was processed before, so this edge (ruled in) already has a dof *)
    assert (Hnotin : ~ In b (e :: rest)).
    { intros Hin. destruct (j_todo _ _ J b Hin) as [Sb' _]. congruence. }
    apply H_en in Hb. destruct Hb as [_ (k & Hk & Ek)].
    apply (j_done _ _ J b k Sb Hnotin Hk); rewrite Ek; [left; exact R2 | exact E].
Qed.

Lemma elem_step_inv2 st e rest : Inv2 st (e :: rest) -> ~ In e rest ->
  Inv2 (rwg_elem_step g incl trunc st e) rest.
Proof.
  intros J Hnotin. destruct (j_todo _ _ J e (or_introl eq_refl)) as [Se Supe].
  unfold rwg_elem_step. cbn [fold_left].
  set (r0 := rwg_edge_step g incl trunc e (st, false) 0).
  destruct (edge_step_inv2 st e rest false 0 J ltac:(lia)) as (J0 & G0 & R0). fold r0 in J0, G0, R0.
  set (r1 := rwg_edge_step g incl trunc e r0 1).
  assert (P0 : r0 = (fst r0, snd r0)) by now destruct r0.
  destruct (edge_step_inv2 (fst r0) e rest (snd r0) 1 J0 ltac:(lia)) as (J1 & G1 & R1).
  rewrite <- P0 in J1, G1, R1. fold r1 in J1, G1, R1.
  set (r2 := rwg_edge_step g incl trunc e r1 2).
  assert (P1 : r1 = (fst r1, snd r1)) by now destruct r1.
  destruct (edge_step_inv2 (fst r1) e rest (snd r1) 2 J1 ltac:(lia)) as (J2 & G2 & R2).
  rewrite <- P1 in J2, G2, R2. fold r2 in J2, G2, R2.
  (* every ruled-in edge of e has a dof in the state after the three steps *)
  assert (Done : forall k, k < 3 -> rule (eedges g e k) -> rE (fst r2) (eedges g e k) <> (-1)%Z).
  { intros k Hk Hr. assert (k = 0 \/ k = 1 \/ k = 2) as [-> | [-> | ->]] by lia.
    - rewrite (proj1 G2); rewrite (proj1 G1); auto.
    - rewrite (proj1 G2); auto.
    - auto. }
  assert (Common : forall stx, rE stx = rE (fst r2) ->
            (forall x, x <> e -> rS stx x = rS (fst r2) x) -> (rS stx e = true -> rS (fst r2) e = true) ->
            Inv2 stx rest).
  { intros stx EE SS Se'. constructor.
    - intros Hincl x Sx. destruct (Nat.eq_dec x e) as [->|Hne]; [assumption|]. rewrite SS in Sx by assumption.
      now apply (j_sub _ _ J2).
    - intros edge N. rewrite EE in N. now apply (j_init _ _ J2).
    - intros x Hx. assert (x <> e) by (intros ->; contradiction).
      destruct (j_todo _ _ J2 x (or_intror Hx)) as [Sx Sux]. split; [rewrite SS by assumption; exact Sx | exact Sux].
    - intros x k Sx Hx Hk Hr. rewrite EE. destruct (Nat.eq_dec x e) as [->|Hne]; [now apply Done|].
      apply (j_done _ _ J2); try assumption. intros [Heq|Hin]; [congruence | contradiction]. }
  destruct (snd r2).
  - apply Common; auto.
  - apply Common; cbn [rE rS]; auto.
    + intros x Hne. now rewrite upd1_neq.
    + rewrite upd1_eq. discriminate.
Qed.

Lemma loop_inv2 todo : forall st, NoDup todo -> Inv2 st todo ->
  Inv2 (fold_left (rwg_elem_step g incl trunc) todo st) [].
Proof.
  induction todo as [|e rest IH]; intros st Hnd J; cbn [fold_left]; [assumption|].
  inversion Hnd; subst. apply IH; [assumption|]. now apply elem_step_inv2.
Qed.

Let stF := rwg_loop1 g sup incl trunc.

Lemma final_inv2 : Inv2 stF [].
Proof.
  unfold stF, rwg_loop1. apply loop_inv2; [apply NoDup_filter, seq_NoDup|].
  constructor; cbn.
  - auto.
  - intros edge N. now elim N.
  - intros x Hx. apply filter_In in Hx. destruct Hx as [_ Hx]. auto.
  - intros x k Sx Hx. exfalso. apply Hx. apply filter_In. split; [apply in_seq; pose proof (H_sup x Sx); lia | assumption].
Qed.

(* the selected edges are exactly those the flags specify *)
Theorem rwg_dof_iff_rule edge : rE stF edge <> (-1)%Z <-> rule edge.
Proof.
  split.
  - intros N. destruct (j_init _ _ final_inv2 edge N) as (a & Ha & Sa).
    assert (H1 : 1 <= length (n0 edge)).
    { assert (Hin : In a (n0 edge)) by (apply filter_In; auto). destruct (n0 edge); [contradiction | simpl; lia]. }
    pose proof (length_filter_le2 sup edge) as H2. fold (n0 edge) in H2.
    destruct (Bool.bool_dec incl true) as [Hi|Hi].
    { unfold rule. assert (length (n0 edge) = 1 \/ length (n0 edge) = 2) as [L|L] by lia; [right; auto | left; auto]. } apply Bool.not_true_is_false in Hi.
    left. destruct (i_two _ _ _ _ (final_inv g sup incl trunc H_en H_nodup H_sup) Hi edge N)
      as (x & y & Hxy & Hx & Hy & [Sx _] & [Sy _]).
    pose proof (j_sub _ _ final_inv2 Hi x Sx) as Ux. pose proof (j_sub _ _ final_inv2 Hi y Sy) as Uy.
    assert (Hincl2 : List.incl [x; y] (n0 edge)) by (intros z [<-|[<-|[]]]; apply filter_In; auto).
    assert (Hnd : NoDup [x; y]) by (constructor; [intros [H|[]]; congruence | constructor; [intros [] | constructor]]).
    pose proof (NoDup_incl_length Hnd Hincl2) as Hl. simpl in Hl. lia.
  - intros Hr.
    assert (Hne : exists a, In a (n0 edge)).
    { destruct Hr as [H|[H _]]; destruct (n0 edge) as [|a l]; try discriminate; exists a; now left. }
    destruct Hne as (a & Ha). apply filter_In in Ha. destruct Ha as [Ha Sa]. apply H_en in Ha.
    destruct Ha as [_ (k & Hk & Ek)]. rewrite <- Ek. apply (j_done _ _ final_inv2 a k Sa); auto. now rewrite Ek.
Qed.
End Spec.
