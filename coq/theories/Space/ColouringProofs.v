(* Proofs about the greedy element colouring (C16_colouring_proper, C16_colour_classes_partition_support). *)
From Coq Require Import ZArith List Bool Arith Lia.
From BV Require Import Space.DofMaps Space.Colouring Space.SpaceBasics.
Import ListNotations.

Lemma memZ_In c l : memZ c l = true <-> In c l.
Proof.
  unfold memZ. rewrite existsb_exists. split.
  - intros (y & Hy & E). apply Z.eqb_eq in E. now subst.
  - intros H. exists c. split; [assumption | apply Z.eqb_refl].
Qed.

Lemma NoDup_support_elements s : NoDup (support_elements s).
Proof. unfold support_elements. apply NoDup_filter, seq_NoDup. Qed.
Lemma in_support_elements s e : In e (support_elements s) <-> e < sp_n s /\ supp s e = true.
Proof. unfold support_elements. rewrite filter_In, in_seq. split; intros [? ?]; split; (lia || assumption). Qed.

Definition rows_disjoint (s : space) (e f : nat) : Prop :=
  forall d, In d (l2g_row s e) -> In d (l2g_row s f) -> False.

Section Greedy.
Variable s : space.
Let g2l := global2local s.
Let nsupp := length (support_elements s).

Definition inv_ab (done : list nat) (cm : nat -> Z) : Prop :=
  (forall e, ~ In e done -> cm e = (-1)%Z) /\
  (forall e, In e done -> (0 <= cm e < Z.of_nat nsupp)%Z).
Definition inv_c (done : list nat) (cm : nat -> Z) : Prop :=
  forall e f, In e done -> In f done -> e <> f -> cm e = cm f -> rows_disjoint s e f.

Lemma first_free_some n used c : first_free n used = Some c -> c < n /\ ~ In (Z.of_nat c) used.
Proof.
  unfold first_free. intros H. apply find_some in H. destruct H as [H1 H2].
  apply in_seq in H1. split; [lia|]. intros Hin. apply memZ_In in Hin. rewrite Hin in H2. discriminate.
Qed.
Lemma first_free_none n used : first_free n used = None -> forall c, c < n -> In (Z.of_nat c) used.
Proof.
  unfold first_free. intros H c Hc.
  pose proof (find_none _ _ H c) as H1. apply memZ_In.
  assert (Hin : In c (seq 0 n)) by (apply in_seq; lia).
  specialize (H1 Hin). now apply negb_false_iff in H1.
Qed.

Lemma in_neighbours e x :
  In x (colour_neighbours s g2l e) <->
  x <> e /\ exists d j, In d (l2g_row s e) /\ In (x, j) (nth d g2l []).
Proof.
  unfold colour_neighbours. rewrite filter_In, negb_true_iff, Nat.eqb_neq, in_flat_map. split.
  - intros [(d & Hd & Hx) Hne]. split; [assumption|]. apply in_map_iff in Hx. destruct Hx as ([x' j] & E & Hin).
    simpl in E. subst. eauto.
  - intros [Hne (d & j & Hd & Hin)]. split; [|assumption]. exists d. split; [assumption|].
    apply in_map_iff. exists (x, j). auto.
Qed.

(* one greedy step is defined (pigeonhole) and keeps the invariants *)
Lemma colour_step_ok done e rest cm :
  support_elements s = done ++ e :: rest -> inv_ab done cm ->
  exists cm', colour_step s g2l (Some cm) e = Some cm' /\ inv_ab (done ++ [e]) cm' /\
              (alias_closed s -> inv_c done cm -> inv_c (done ++ [e]) cm').
Proof.
  intros Hsplit [Ha Hb].
  pose proof (NoDup_support_elements s) as Hnd. rewrite Hsplit in Hnd.
  assert (Hnotin : ~ In e done).
  { apply NoDup_remove_2 in Hnd. intros H. apply Hnd. apply in_or_app. now left. }
  assert (Hnd_done : NoDup done).
  { clear - Hnd. induction done as [|a d IH]; [constructor|]. simpl in Hnd. inversion Hnd; subst.
    constructor; [intros H; apply H1; apply in_or_app; now left | now apply IH]. }
  assert (Hlen : length done < nsupp).
  { unfold nsupp. rewrite Hsplit, app_length. simpl. lia. }
  unfold colour_step. fold nsupp.
  destruct (first_free nsupp (map cm (colour_neighbours s g2l e))) as [c|] eqn:Hff.
  - apply first_free_some in Hff. destruct Hff as [Hc Hfree].
    exists (upd1 cm e (Z.of_nat c)). split; [reflexivity|]. split; [split|].
    + intros x Hx. rewrite upd1_neq; [apply Ha|]; intros H; apply Hx; apply in_or_app; [|subst]; simpl; auto.
    + intros x Hx. apply in_app_or in Hx. destruct Hx as [Hx|[<-|[]]].
      * rewrite upd1_neq by (intros ->; contradiction). now apply Hb.
      * rewrite upd1_eq. lia.
    + intros Halias Hc0 x y Hx Hy Hxy Hcol.
      apply in_app_or in Hx. apply in_app_or in Hy.
      (* the case "old vs old" is the induction hypothesis; "new vs old" uses alias_closed on the OLD element *)
      assert (Key : forall f, In f done -> cm f = Z.of_nat c -> rows_disjoint s e f).
      { intros f Hf Hcf d Hde Hdf.
        assert (Hfs : In f (support_elements s)) by (rewrite Hsplit; apply in_or_app; now left).
        apply in_l2g_row in Hdf. destruct Hdf as (i & Hi & Ei).
        destruct (Halias f i Hfs Hi) as (j & Hj & Ej & Mj).
        apply in_support_elements in Hfs. destruct Hfs as [Hfn _].
        assert (Hin : In (f, j) (nth d g2l [])).
        { apply g2l_inverse. repeat split; try assumption; try lia.
          - rewrite <- Ei, <- Ej. now apply l2g_lt_ndofs. }
        apply Hfree. rewrite <- Hcf. apply in_map. apply in_neighbours. split; [intros ->; contradiction|].
        exists d, j. split; assumption. }
      destruct Hx as [Hx|[<-|[]]], Hy as [Hy|[<-|[]]].
      * rewrite !upd1_neq in Hcol by (intros ->; contradiction). now apply Hc0.
      * rewrite upd1_eq, upd1_neq in Hcol by (intros ->; contradiction).
        intros d H1 H2. apply (Key x Hx Hcol d H2 H1).
      * rewrite upd1_eq, upd1_neq in Hcol by (intros ->; contradiction).
        apply (Key y Hy). now symmetry.
      * congruence.
  - (* no free colour: every colour 0..nsupp-1 is the colour of a done element; impossible since |done| < nsupp *)
    exfalso. pose proof (first_free_none _ _ Hff) as Hall.
    assert (Hincl : incl (seq 0 nsupp) (map (fun x => Z.to_nat (cm x)) done)).
    { intros c Hcin. apply in_seq in Hcin. assert (H : In (Z.of_nat c) (map cm (colour_neighbours s g2l e))) by (apply Hall; lia).
      apply in_map_iff in H. destruct H as (x & Ex & Hx).
      apply in_map_iff. exists x. split; [rewrite Ex; apply Nat2Z.id|].
      destruct (in_dec Nat.eq_dec x done) as [Hd|Hd]; [assumption|]. specialize (Ha x Hd). lia. }
    pose proof (NoDup_incl_length (seq_NoDup nsupp 0) Hincl) as Hle.
    rewrite seq_length, map_length in Hle. lia.
Qed.

Lemma colour_fold_ok todo : forall done cm,
  support_elements s = done ++ todo -> inv_ab done cm ->
  exists cm', fold_left (colour_step s g2l) todo (Some cm) = Some cm' /\ inv_ab (done ++ todo) cm' /\
              (alias_closed s -> inv_c done cm -> inv_c (done ++ todo) cm').
Proof.
  induction todo as [|e rest IH]; intros done cm Hsplit Hab.
  - exists cm. rewrite app_nil_r. simpl. auto.
  - destruct (colour_step_ok done e rest cm Hsplit Hab) as (cm1 & E1 & Hab1 & Hc1).
    assert (Hsplit' : support_elements s = (done ++ [e]) ++ rest) by (rewrite <- app_assoc; exact Hsplit).
    destruct (IH (done ++ [e]) cm1 Hsplit' Hab1) as (cm2 & E2 & Hab2 & Hc2).
    exists cm2. cbn [fold_left]. rewrite E1. rewrite <- app_assoc in Hab2, Hc2. cbn [app] in Hab2, Hc2.
    split; [exact E2|]. split; [exact Hab2|]. intros Hal Hc0. apply Hc2; [assumption|]. now apply Hc1.
Qed.

(* the greedy step is always defined: a free colour below the number of support elements exists *)
Theorem colouring_defined : exists cm, colour_map s = Some cm.
Proof.
  destruct (colour_fold_ok (support_elements s) [] (fun _ => (-1)%Z) eq_refl) as (cm & E & _).
  - split; [reflexivity | intros e []].
  - exists cm. exact E.
Qed.

Theorem colouring_range cm : colour_map s = Some cm ->
  (forall e, In e (support_elements s) -> (0 <= cm e < Z.of_nat nsupp)%Z) /\
  (forall e, ~ In e (support_elements s) -> cm e = (-1)%Z).
Proof.
  intros H.
  destruct (colour_fold_ok (support_elements s) [] (fun _ => (-1)%Z) eq_refl) as (cm' & E & [Ha Hb] & _).
  - split; [reflexivity | intros e []].
  - unfold colour_map in H. fold g2l in H. rewrite E in H. inversion H; subst. simpl in Ha, Hb. split; assumption.
Qed.

(* C16_colouring_proper *)
Theorem colouring_proper cm : alias_closed s -> colour_map s = Some cm ->
  forall e f, In e (support_elements s) -> In f (support_elements s) -> e <> f -> cm e = cm f ->
  rows_disjoint s e f.
Proof.
  intros Hal H.
  destruct (colour_fold_ok (support_elements s) [] (fun _ => (-1)%Z) eq_refl) as (cm' & E & _ & Hc).
  - split; [reflexivity | intros e []].
  - unfold colour_map in H. fold g2l in H. rewrite E in H. inversion H; subst. simpl in Hc.
    apply Hc; [assumption|]. intros e f [].
Qed.
End Greedy.

(* without alias closure the neighbour relation seen by the greedy loop is not symmetric and the colouring can
   be improper: element 0 carries dof 1 only with a zero multiplier, element 1 is coloured later and does not
   see it *)
Definition asym_space : space :=
  {| sp_n := 2; sp_k := 2;
     l2g := fun e i => match e, i with 0, 0 => 0 | _, _ => 1 end;
     mult := fun e i => match e, i with 0, 1 => 0%Z | _, _ => 1%Z end;
     supp := fun _ => true |}.
Theorem colouring_asymmetric_refuted :
  exists s cm, colour_map s = Some cm /\ In 0 (support_elements s) /\ In 1 (support_elements s) /\
               cm 0 = cm 1 /\ In 1 (l2g_row s 0) /\ In 1 (l2g_row s 1) /\ alias_closedb s = false.
Proof.
  exists asym_space. eexists. split; [vm_compute; reflexivity|]. vm_compute. intuition.
Qed.

(* ---------- colour classes partition the support ---------- *)
Lemma fold_maxZ_ge l : forall a, (a <= fold_left Z.max l a)%Z.
Proof. induction l as [|x l IH]; simpl; intros a; [lia|]. specialize (IH (Z.max a x)). lia. Qed.
Lemma fold_maxZ_In l : forall a x, In x l -> (x <= fold_left Z.max l a)%Z.
Proof.
  induction l as [|y l IH]; simpl; intros a x H; [contradiction|].
  destruct H as [->|H]; [|now apply IH]. pose proof (fold_maxZ_ge l (Z.max a x)). lia.
Qed.

Lemma in_colour_class n cm c e : In e (colour_class n cm c) <-> e < n /\ cm e = Z.of_nat c.
Proof. unfold colour_class. rewrite filter_In, in_seq, Z.eqb_eq. split; intros [? ?]; split; (lia || assumption). Qed.

Lemma in_sorted_indices n cm e :
  In e (sorted_indices n cm) <-> e < n /\ exists c, c < ncolours n cm /\ cm e = Z.of_nat c.
Proof.
  unfold sorted_indices, colour_classes. rewrite in_concat. split.
  - intros (l & Hl & He). apply in_map_iff in Hl. destruct Hl as (c & <- & Hc). apply in_seq in Hc.
    apply in_colour_class in He. destruct He. split; [assumption|]. exists c. split; [lia | assumption].
  - intros (Hn & c & Hc & E). exists (colour_class n cm c). split.
    + apply in_map, in_seq. lia.
    + apply in_colour_class. auto.
Qed.

Lemma NoDup_concat_classes n cm : forall m a, NoDup (concat (map (colour_class n cm) (seq a m))).
Proof.
  induction m as [|m IH]; intros a; simpl; [constructor|].
  apply NoDup_app_intro.
  - unfold colour_class. apply NoDup_filter, seq_NoDup.
  - apply IH.
  - intros e H1 H2. apply in_colour_class in H1. destruct H1 as [_ E1].
    apply in_concat in H2. destruct H2 as (l & Hl & He). apply in_map_iff in Hl. destruct Hl as (c & <- & Hc).
    apply in_seq in Hc. apply in_colour_class in He. destruct He as [_ E2]. lia.
Qed.

(* C16_colour_classes_partition_support *)
Theorem colour_classes_partition s cm : colour_map s = Some cm ->
  NoDup (sorted_indices (sp_n s) cm) /\
  (forall e, In e (sorted_indices (sp_n s) cm) <-> In e (support_elements s)) /\
  length (sorted_indices (sp_n s) cm) = length (support_elements s).
Proof.
  intros H. destruct (colouring_range s cm H) as [Hin Hout].
  assert (Hnd : NoDup (sorted_indices (sp_n s) cm)) by apply NoDup_concat_classes.
  assert (Hiff : forall e, In e (sorted_indices (sp_n s) cm) <-> In e (support_elements s)).
  { intros e. rewrite in_sorted_indices. split.
    - intros (Hn & c & Hc & E). destruct (in_dec Nat.eq_dec e (support_elements s)) as [Hs|Hs]; [assumption|].
      specialize (Hout e Hs). lia.
    - intros Hs. pose proof (Hin e Hs) as Hr. apply in_support_elements in Hs. destruct Hs as [Hn _].
      split; [assumption|]. exists (Z.to_nat (cm e)). split; [|lia].
      unfold ncolours, max_listZ.
      assert ((cm e <= fold_left Z.max (tab1 (sp_n s) cm) (-1))%Z).
      { apply fold_maxZ_In. apply In_tab1. eauto. }
      lia. }
  split; [assumption|]. split; [assumption|].
  apply Nat.le_antisymm; apply NoDup_incl_length; try assumption; try apply NoDup_support_elements;
    intros e He; now apply Hiff.
Qed.

(* indexptr slices give back the colour classes: launch number c of dense_assembler receives class c *)
Lemma prefix_from_unfold a l :
  prefix_from a l = a :: match l with [] => [] | x :: r => prefix_from (a + x) r end.
Proof. destruct l; reflexivity. Qed.

Lemma slices_concat (ls : list (list nat)) : forall pre : list nat,
  slices (pre ++ concat ls) (prefix_from (length pre) (map (@length nat) ls)) = ls.
Proof.
  induction ls as [|l ls IH]; intros pre; [reflexivity|].
  cbn [map]. rewrite prefix_from_unfold.
  specialize (IH (pre ++ l)). rewrite app_length in IH.
  pose proof (prefix_from_unfold (length pre + length l) (map (@length nat) ls)) as E.
  destruct (prefix_from (length pre + length l) (map (@length nat) ls)) as [|b t] eqn:ET; [discriminate|].
  injection E as Eb Et. cbn [slices]. f_equal.
  - subst b. replace (length pre + length l - length pre) with (length l) by lia.
    cbn [concat]. rewrite skipn_app, skipn_all, Nat.sub_diag. cbn [skipn app].
    rewrite firstn_app, firstn_all, Nat.sub_diag. cbn [firstn]. now rewrite app_nil_r.
  - cbn [concat]. rewrite app_assoc. exact IH.
Qed.

Theorem launches_are_colour_classes n cm :
  slices (sorted_indices n cm) (indexptr n cm) = colour_classes n cm.
Proof. unfold sorted_indices, indexptr, prefix_sums. apply (slices_concat (colour_classes n cm) []). Qed.
