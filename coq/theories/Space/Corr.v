(* Comparison functions of the C09/C16 correspondence: the harness writes the implementation's grid tables and
   the arrays of the space it built into a cases file; these functions rebuild the space with the model and diff
   every array inside Coq.  Only the indices of disagreeing cases (and the disagreeing fields) are printed. *)
From Coq Require Import Uint63.
From Coq Require Import ZArith List Bool Arith.
From BV Require Import Space.DofMaps Space.Colouring.
Import ListNotations.

Record gridtab := mkgrid {
  t_nvert : nat; t_nedge : nat;
  t_elems : list (list nat); t_eedges : list (list nat); t_enbrs : list (list nat);
  t_vnbrs : list (list nat); t_vob : list bool; t_dom : list nat }.

Definition grid_of (t : gridtab) : grid :=
  {| nelem := length (t_elems t); nvert := t_nvert t; nedge := t_nedge t;
     elems := of_list2 0 (t_elems t); eedges := of_list2 0 (t_eedges t);
     enbrs := fun e => nth e (t_enbrs t) []; vnbrs := fun v => nth v (t_vnbrs t) [];
     vob := of_list1 false (t_vob t); dom := of_list1 0 (t_dom t) |}.

Inductive kind := DP0 | DP1 | P1 | RWG | SNC.

Record case := mkcase {
  c_kind : kind; c_se : option (list nat); c_segs : option (list nat); c_swapped : list nat;
  c_incl : bool; c_trunc : bool;
  o_l2g : list (list nat); o_mult : list (list Z); o_supp : list bool; o_nm : list Z;
  o_ndofs : nat; o_count : option nat;   (* dof count reported by the builder itself, when it has one *)
  o_g2l : list (list (nat * nat)); o_colour : list Z; o_sorted : list nat; o_indexptr : list nat }.

Fixpoint list_eqb {A} (eqb : A -> A -> bool) (a b : list A) : bool :=
  match a, b with
  | [], [] => true
  | x :: a', y :: b' => eqb x y && list_eqb eqb a' b'
  | _, _ => false
  end.
Definition pair_eqb (a b : nat * nat) : bool := Nat.eqb (fst a) (fst b) && Nat.eqb (snd a) (snd b).
Definition opt_eqb (a b : option nat) : bool :=
  match a, b with None, None => true | Some x, Some y => Nat.eqb x y | _, _ => false end.

Definition model_space (g : grid) (c : case) : option (space * (nat -> Z) * option nat) :=
  match process_segments g (c_se c) (c_segs c) (c_swapped c) with
  | None => None
  | Some (sup, nm) =>
    Some (match c_kind c with
          | DP0 => (dp0_space g sup, nm, None)
          | DP1 => (dp1_space g sup, nm, None)
          | P1 => (p1_space g sup (c_incl c) (c_trunc c), nm, None)
          | RWG | SNC => (rwg_space g sup (c_incl c) (c_trunc c), nm, Some (rwg_dof_count g sup (c_incl c) (c_trunc c)))
          end)
  end.

(* list of the fields on which model and implementation differ:
   1 local2global 2 multipliers 3 support 4 normal multipliers 5 global_dof_count 6 builder's own dof count
   7 global2local 8 colour map 9 sorted indices 10 indexptr 11 model undefined *)
Definition case_diff (t : gridtab) (c : case) : list nat :=
  let g := grid_of t in
  match model_space g c with
  | None => [11]
  | Some (s0, nm, cnt) =>
    let s := freeze s0 in
    (if list_eqb (list_eqb Nat.eqb) (l2g_tab s) (o_l2g c) then [] else [1]) ++
    (if list_eqb (list_eqb Z.eqb) (mult_tab s) (o_mult c) then [] else [2]) ++
    (if list_eqb Bool.eqb (supp_tab s) (o_supp c) then [] else [3]) ++
    (if list_eqb Z.eqb (tab1 (nelem g) nm) (o_nm c) then [] else [4]) ++
    (if Nat.eqb (ndofs s) (o_ndofs c) then [] else [5]) ++
    (if opt_eqb cnt (o_count c) then [] else [6]) ++
    (if list_eqb (list_eqb pair_eqb) (global2local s) (o_g2l c) then [] else [7]) ++
    match colour_map s with
    | None => [8]
    | Some cm =>
      (if list_eqb Z.eqb (tab1 (sp_n s) cm) (o_colour c) then [] else [8]) ++
      (if list_eqb Nat.eqb (sorted_indices (sp_n s) cm) (o_sorted c) then [] else [9]) ++
      (if list_eqb Nat.eqb (indexptr (sp_n s) cm) (o_indexptr c) then [] else [10])
    end
  end.

Definition failing_cases (t : gridtab) (l : list case) : list (nat * list nat) :=
  filter (fun p => nonempty (snd p)) (combine (seq 0 (length l)) (map (case_diff t) l)).

(* launch structure of dense_assembler: the harness records the test-element slice and the trial-element
   array of every kernel launch *)
Definition launches_eqb (a b : list (list nat * list nat)) : bool :=
  list_eqb (fun x y => list_eqb Nat.eqb (fst x) (fst y) && list_eqb Nat.eqb (snd x) (snd y)) a b.

(* ---------- packed cases ----------
   Parsing ~200 numeral tokens per case dominated the run time of the correspondence (18 s of 23 s per 400 cases),
   (big hexadecimal or string literals are even slower: they are interned by Gallina conversion functions), so the
   driver packs five 12-bit fields into each primitive-integer literal (interned natively) and the structure is
   recovered here.  Layout (props/_spacecorr.py pack_case):
   kind, se?, segs?, swapped, incl, trunc, l2g (rows, cols, entries), mult (+1), supp, nm (+1), ndofs, count?,
   g2l (rows; each: len, pairs), colour (+1), sorted, indexptr;  lists are length-prefixed. *)
Definition field (x : int) (k : int) : nat := Z.to_nat (Uint63.to_Z (Uint63.land (Uint63.lsr x k) 4095%uint63)).
Definition unpack (l : list int) : list nat :=
  flat_map (fun x => [field x 0%uint63; field x 12%uint63; field x 24%uint63; field x 36%uint63; field x 48%uint63]) l.

Definition P (A : Type) := list nat -> option (A * list nat).
Definition p_nat : P nat := fun l => match l with x :: r => Some (x, r) | [] => None end.
Definition p_bind {A B} (p : P A) (f : A -> P B) : P B :=
  fun l => match p l with Some (a, r) => f a r | None => None end.
Definition p_ret {A} (a : A) : P A := fun l => Some (a, l).
Fixpoint p_rep {A} (n : nat) (p : P A) : P (list A) :=
  match n with
  | 0 => p_ret []
  | S k => p_bind p (fun a => p_bind (p_rep k p) (fun r => p_ret (a :: r)))
  end.
Definition p_list {A} (p : P A) : P (list A) := p_bind p_nat (fun n => p_rep n p).
Definition p_map {A B} (f : A -> B) (p : P A) : P B := p_bind p (fun a => p_ret (f a)).
Definition p_z : P Z := p_map (fun x => (Z.of_nat x - 1)%Z) p_nat.
Definition p_bool : P bool := p_map (fun x => negb (Nat.eqb x 0)) p_nat.
Definition p_opt {A} (p : P A) : P (option A) :=
  p_bind p_nat (fun f => if Nat.eqb f 0 then p_ret None else p_map Some p).
Definition p_tab {A} (p : P A) : P (list (list A)) :=
  p_bind p_nat (fun r => p_bind p_nat (fun c => p_rep r (p_rep c p))).
Definition p_kind : P kind :=
  p_map (fun k => match k with 0 => DP0 | 1 => DP1 | 2 => P1 | 3 => RWG | _ => SNC end) p_nat.
Definition p_pair : P (nat * nat) := p_bind p_nat (fun a => p_bind p_nat (fun b => p_ret (a, b))).

Definition p_case : P case :=
  p_bind p_kind (fun k => p_bind (p_opt (p_list p_nat)) (fun se => p_bind (p_opt (p_list p_nat)) (fun segs =>
  p_bind (p_list p_nat) (fun sw => p_bind p_bool (fun incl => p_bind p_bool (fun trunc =>
  p_bind (p_tab p_nat) (fun l2g => p_bind (p_tab p_z) (fun mult => p_bind (p_list p_bool) (fun supp =>
  p_bind (p_list p_z) (fun nm => p_bind p_nat (fun nd => p_bind (p_opt p_nat) (fun cnt =>
  p_bind (p_list (p_list p_pair)) (fun g2l => p_bind (p_list p_z) (fun col => p_bind (p_list p_nat) (fun srt =>
  p_bind (p_list p_nat) (fun ip =>
  p_ret (mkcase k se segs sw incl trunc l2g mult supp nm nd cnt g2l col srt ip))))))))))))))))).

Definition decode_case (n : list int) : option case :=
  match p_case (unpack n) with Some (c, r) => if forallb (Nat.eqb 0) r then Some c else None | _ => None end.

(* field 12 = the packed case could not be decoded *)
Definition failing_packed (t : gridtab) (l : list (list int)) : list (nat * list nat) :=
  filter (fun p => nonempty (snd p))
         (combine (seq 0 (length l))
                  (map (fun n => match decode_case n with Some c => case_diff t c | None => [12] end) l)).

(* ---------- C16: colouring of ANY space given by its arrays (localised, barycentric, dual, BC ... spaces) ---------- *)
Definition space_of_arrays (n k : nat) (l2 : list (list nat)) (mu : list (list Z)) (su : list bool) : space :=
  {| sp_n := n; sp_k := k; l2g := of_list2 0 l2; mult := of_list2 0%Z mu; supp := of_list1 false su |}.

Definition p_space : P space :=
  p_bind p_nat (fun n => p_bind p_nat (fun k => p_bind (p_tab p_nat) (fun l2 => p_bind (p_tab p_z) (fun mu =>
  p_bind (p_list p_bool) (fun su => p_ret (space_of_arrays n k l2 mu su)))))).

Record ccase := mkccase { cc_space : space; cc_colour : list Z; cc_sorted : list nat; cc_indexptr : list nat;
                          cc_arange : bool (* the space claims the arange layout (barycentric, dual, BC, localised, DP) *) }.
Definition p_ccase : P ccase :=
  p_bind p_space (fun s => p_bind (p_list p_z) (fun col => p_bind (p_list p_nat) (fun srt =>
  p_bind (p_list p_nat) (fun ip => p_bind p_bool (fun ar => p_ret (mkccase s col srt ip ar)))))).

(* boolean version of "equal colour => disjoint rows" evaluated on the model's own colour map *)
Definition properb (s : space) (cm : nat -> Z) : bool :=
  forallb (fun e => forallb (fun f => Nat.eqb e f || negb (Z.eqb (cm e) (cm f)) ||
                                      negb (existsb (fun d => memb d (l2g_row s f)) (l2g_row s e)))
                            (support_elements s)) (support_elements s).

(* 8 colour map 9 sorted indices 10 indexptr 13 alias closure fails 14 model colouring improper 12 undecodable
   16 arrays are not arange_space (sp_n) (sp_k) support, although the space is of a kind built that way *)
Definition ccase_diff (c : ccase) : list nat :=
  let s := cc_space c in
  (if alias_closedb s then [] else [13]) ++
  (if cc_arange c
   then let a := arange_space (sp_n s) (sp_k s) (fun e => Nat.ltb e (sp_n s) && supp s e) in
        if list_eqb (list_eqb Nat.eqb) (l2g_tab s) (l2g_tab a) && list_eqb (list_eqb Z.eqb) (mult_tab s) (mult_tab a)
        then [] else [16]
   else []) ++
  match colour_map s with
  | None => [8]
  | Some cm =>
    (if list_eqb Z.eqb (tab1 (sp_n s) cm) (cc_colour c) then [] else [8]) ++
    (if list_eqb Nat.eqb (sorted_indices (sp_n s) cm) (cc_sorted c) then [] else [9]) ++
    (if list_eqb Nat.eqb (indexptr (sp_n s) cm) (cc_indexptr c) then [] else [10]) ++
    (if properb s cm then [] else [14])
  end.
Definition failing_ccases (l : list (list int)) : list (nat * list nat) :=
  filter (fun p => nonempty (snd p))
         (combine (seq 0 (length l))
                  (map (fun n => match p_ccase (unpack n) with
                                 | Some (c, r) => if forallb (Nat.eqb 0) r then ccase_diff c else [12]
                                 | None => [12] end) l)).

(* launch structure of dense_assembler(domain, dual_to_range): 15 = launches differ from the model *)
Record lcase := mklcase { lc_dual : space; lc_domain : space; lc_launches : list (list nat * list nat) }.
Definition p_lcase : P lcase :=
  p_bind p_space (fun du => p_bind p_space (fun dom =>
  p_bind (p_list (p_bind (p_list p_nat) (fun a => p_bind (p_list p_nat) (fun b => p_ret (a, b))))) (fun la =>
  p_ret (mklcase du dom la)))).
Definition lcase_diff (c : lcase) : list nat :=
  match dense_launches (lc_dual c) (lc_domain c) with
  | None => [15]
  | Some la => if launches_eqb la (lc_launches c) then [] else [15]
  end.
Definition failing_lcases (l : list (list int)) : list (nat * list nat) :=
  filter (fun p => nonempty (snd p))
         (combine (seq 0 (length l))
                  (map (fun n => match p_lcase (unpack n) with
                                 | Some (c, r) => if forallb (Nat.eqb 0) r then lcase_diff c else [12]
                                 | None => [12] end) l)).
