(* Reference-element facts behind conformity (C09_reference_traces), over an arbitrary field, without square
   roots: the edge lengths l_i and the integration element A of the source enter only through l_i <> 0, A <> 0 and
   A * A = |a x b|^2.

   Models (tie H: harness/c09_impl.py reference_dump compares them with the implementation at dyadic points and on
   3-4-5 triangles, inside Coq):
     p1_ref     shapesets._p1_disc_shapeset_evaluate      (1 - x - y, x, y)
     rwg_ref    shapesets._rwg0_shapeset_evaluate         ((x, y-1), (x-1, y), (x, y))
     rwg_eval   maxwell_spaces._numba_rwg0_evaluate       m_i * l_i / A * J phi_i
     snc_eval   maxwell_spaces._numba_snc0_evaluate       (nm * n) x rwg_eval     with n = (a x b) / A             *)
From Coq Require Import Ring Field List Lia PeanoNat.
Import ListNotations.

Section Ref.
Variable K : Type.
Variables (k0 k1 : K) (kadd kmul ksub : K -> K -> K) (kopp : K -> K) (kdiv : K -> K -> K) (kinv : K -> K).
Hypothesis Kf : field_theory k0 k1 kadd kmul ksub kopp kdiv kinv (@eq K).
Add Field Kfield : Kf.
Notation "0" := k0. Notation "1" := k1.
Infix "+" := kadd. Infix "*" := kmul. Infix "-" := ksub. Infix "/" := kdiv.
Notation "- x" := (kopp x).

Definition vec := (K * K * K)%type.
Definition vx (v : vec) := fst (fst v). Definition vy (v : vec) := snd (fst v). Definition vz (v : vec) := snd v.
Definition vadd (u v : vec) : vec := (vx u + vx v, vy u + vy v, vz u + vz v).
Definition vsub (u v : vec) : vec := (vx u - vx v, vy u - vy v, vz u - vz v).
Definition vscale (c : K) (v : vec) : vec := (c * vx v, c * vy v, c * vz v).
Definition dot (u v : vec) : K := vx u * vx v + vy u * vy v + vz u * vz v.
Definition cross (u v : vec) : vec :=
  (vy u * vz v - vz u * vy v, vz u * vx v - vx u * vz v, vx u * vy v - vy u * vx v).

(* ---------- P1 ---------- *)
Definition p1_ref (i : nat) (x y : K) : K :=
  match i with O => 1 - x - y | S O => x | _ => y end.
(* reference vertices (0,0), (1,0), (0,1) *)
Definition ref_vertex (j : nat) : K * K := match j with O => (0, 0) | S O => (1, 0) | _ => (0, 1) end.

Theorem p1_nodal : forall i j, (i < 3)%nat -> (j < 3)%nat ->
  p1_ref i (fst (ref_vertex j)) (snd (ref_vertex j)) = if Nat.eqb i j then 1 else 0.
Proof.
  intros i j Hi Hj. destruct i as [|[|[|i]]], j as [|[|[|j]]]; try (exfalso; lia); cbn; ring.
Qed.
Theorem p1_partition_of_unity : forall x y, p1_ref 0 x y + p1_ref 1 x y + p1_ref 2 x y = 1.
Proof. intros. cbn. ring. Qed.
(* on the segment from reference vertex a to reference vertex b (a <> b) a function with vertex values c_0, c_1, c_2
   takes the value (1 - t) c_a + t c_b: it depends on the two end values only, hence is continuous across an edge
   whose end vertices carry the same (dof, multiplier) on both sides (C09_p1_continuous) *)
Theorem p1_edge_trace : forall (c : nat -> K) a b t, (a < 3)%nat -> (b < 3)%nat -> a <> b ->
  let x := (1 - t) * fst (ref_vertex a) + t * fst (ref_vertex b) in
  let y := (1 - t) * snd (ref_vertex a) + t * snd (ref_vertex b) in
  c 0%nat * p1_ref 0 x y + c 1%nat * p1_ref 1 x y + c 2%nat * p1_ref 2 x y = (1 - t) * c a + t * c b.
Proof.
  intros c a b t Ha Hb Hab.
  destruct a as [|[|[|a]]], b as [|[|[|b]]]; try (exfalso; lia); try congruence; cbn; ring.
Qed.
Theorem dp0_constant : forall x y : K, (fun _ _ : K => 1) x y = 1.
Proof. reflexivity. Qed.

(* ---------- RWG ---------- *)
Definition rwg_ref (i : nat) (x y : K) : K * K :=
  match i with O => (x, y - 1) | S O => (x - 1, y) | _ => (x, y) end.

Section Triangle.
Variables p0 p1 p2 : vec.                   (* vertices of the element *)
Let a := vsub p1 p0.                        (* Jacobian columns *)
Let b := vsub p2 p0.
Definition jac (u : K * K) : vec := vadd (vscale (fst u) a) (vscale (snd u) b).
Definition point (x y : K) : vec := vadd p0 (jac (x, y)).      (* grid_data.local2global *)
Definition nrm : vec := cross a b.                              (* un-normalised normal, |nrm| = A *)
(* local edge i of the source: 0 = (v0,v1), 1 = (v2,v0), 2 = (v1,v2); counter-clockwise tangent and opposite vertex *)
Definition tangent (i : nat) : vec := match i with O => vsub p1 p0 | S O => vsub p0 p2 | _ => vsub p2 p1 end.
Definition opposite (i : nat) : vec := match i with O => p2 | S O => p1 | _ => p0 end.
Definition edge_start (i : nat) : vec := match i with O => p0 | S O => p2 | _ => p1 end.
(* outward in-plane normal of edge i scaled by l_i * A *)
Definition conormal (i : nat) : vec := cross (tangent i) nrm.
(* local coordinates of the point  start + t * tangent  of local edge i *)
Definition edge_local (i : nat) (t : K) : K * K :=
  match i with O => (t, 0) | S O => (0, 1 - t) | _ => (1 - t, t) end.

Lemma veq (u v : vec) : vx u = vx v -> vy u = vy v -> vz u = vz v -> u = v.
Proof. destruct u as [[? ?] ?], v as [[? ?] ?]; cbn; intros; subst; reflexivity. Qed.

Theorem edge_local_point : forall i t, (i < 3)%nat ->
  point (fst (edge_local i t)) (snd (edge_local i t)) = vadd (edge_start i) (vscale t (tangent i)).
Proof.
  intros i t Hi.
  destruct i as [|[|[|i]]]; try (exfalso; lia); apply veq; unfold point, jac, a, b; cbn; ring.
Qed.

(* Piola push-forward of the reference function: J phi_i(x,y) = X - (vertex opposite to edge i) *)
Theorem rwg_push_forward : forall i x y, (i < 3)%nat ->
  jac (rwg_ref i x y) = vsub (point x y) (opposite i).
Proof.
  intros i x y Hi.
  destruct i as [|[|[|i]]]; try (exfalso; lia); apply veq; unfold point, jac, a, b; cbn; ring.
Qed.

(* on its own edge the scaled normal component is |nrm|^2, on the two other edges it vanishes *)
Theorem rwg_normal_trace_scaled : forall i j t, (i < 3)%nat -> (j < 3)%nat ->
  let u := edge_local j t in
  dot (jac (rwg_ref i (fst u) (snd u))) (conormal j) = if Nat.eqb i j then dot nrm nrm else 0.
Proof.
  intros i j t Hi Hj.
  destruct i as [|[|[|i]]], j as [|[|[|j]]]; try (exfalso; lia); cbv zeta; unfold conormal, nrm, jac, a, b; cbn;
    unfold dot, cross, vadd, vsub, vscale, vx, vy, vz; cbn [fst snd]; ring.
Qed.

(* the evaluators of the source: l i = edge_lengths[i], A = integration_elements[element] *)
Variable l : nat -> K.
Variable A : K.
Definition rwg_eval (m : K) (i : nat) (x y : K) : vec := vscale (m * l i / A) (jac (rwg_ref i x y)).
Definition snc_eval (nm m : K) (i : nat) (x y : K) : vec :=
  cross (vscale (nm / A) nrm) (rwg_eval m i x y).
Definition unit_conormal (j : nat) : vec := vscale (1 / (l j * A)) (conormal j).
Definition unit_tangent (j : nat) : vec := vscale (1 / l j) (tangent j).

Hypothesis HA : A * A = dot nrm nrm.
Hypothesis HA0 : A <> 0.
Hypothesis Hl0 : forall i, (i < 3)%nat -> l i <> 0.

(* normal component (w.r.t. the outward unit co-normal of edge j) of basis function i on edge j: the local
   multiplier on its own edge, zero on the others *)
Theorem rwg_normal_trace : forall m i j t, (i < 3)%nat -> (j < 3)%nat ->
  let u := edge_local j t in
  dot (rwg_eval m i (fst u) (snd u)) (unit_conormal j) = if Nat.eqb i j then m else 0.
Proof.
  intros m i j t Hi Hj u.
  assert (E : dot (rwg_eval m i (fst u) (snd u)) (unit_conormal j) =
              (m * l i / A) * (1 / (l j * A)) * dot (jac (rwg_ref i (fst u) (snd u))) (conormal j)).
  { unfold rwg_eval, unit_conormal, dot, vscale, vx, vy, vz. cbn [fst snd]. field.
    split; [exact HA0 | now apply Hl0]. }
  rewrite E. unfold u. rewrite rwg_normal_trace_scaled by assumption.
  destruct (PeanoNat.Nat.eqb_spec i j) as [->|_].
  - rewrite <- HA. field. split; [exact HA0 | now apply Hl0].
  - field. split; [exact HA0 | now apply Hl0].
Qed.

(* tangential component of the SNC function = normal multiplier * normal component of the RWG function *)
Theorem snc_tangential_trace : forall nm m i j t, (i < 3)%nat -> (j < 3)%nat ->
  let u := edge_local j t in
  dot (snc_eval nm m i (fst u) (snd u)) (unit_tangent j) = if Nat.eqb i j then nm * m else 0.
Proof.
  intros nm m i j t Hi Hj u.
  assert (E : dot (snc_eval nm m i (fst u) (snd u)) (unit_tangent j) =
              nm * dot (rwg_eval m i (fst u) (snd u)) (unit_conormal j)).
  { unfold snc_eval, unit_tangent, unit_conormal, conormal.
    generalize (rwg_eval m i (fst u) (snd u)) as f. intros [[f1 f2] f3].
    generalize (tangent j) as tj. intros [[t1 t2] t3]. generalize nrm as n. intros [[n1 n2] n3].
    unfold dot, cross, vscale, vx, vy, vz. cbn [fst snd]. field. split; [exact HA0 | now apply Hl0]. }
  rewrite E. unfold u. rewrite rwg_normal_trace by assumption. destruct (Nat.eqb i j); ring.
Qed.
End Triangle.

(* ---------- across a shared edge ----------
   Each side measures the trace with its own outward co-normal / its own counter-clockwise tangent; on a
   consistently oriented grid these are opposite, so the one-sided components must add up to zero. *)
Theorem rwg_normal_jump_cancels : forall m : K, m + (- m) = 0.
Proof. intros. ring. Qed.
(* RWG pattern (+m on the smaller element index, -m on the other) gives a continuous normal component; the SNC
   tangential components nm1 * m and nm2 * (-m) cancel iff the two elements have the same normal multiplier *)
Theorem snc_tangential_jump : forall nm1 nm2 m : K, nm1 * m + nm2 * (- m) = (nm1 - nm2) * m.
Proof. intros. ring. Qed.
Theorem snc_tangential_continuous_same_orientation : forall nm m : K, nm * m + nm * (- m) = 0.
Proof. intros. ring. Qed.
End Ref.

(* with normals swapped on one side only the SNC tangential component jumps (witness over Q) *)
From Coq Require Import QArith.
Theorem snc_swapped_interface_refuted :
  exists nm1 nm2 m : Q, ~ (nm1 * m + nm2 * (- m) == 0)%Q /\ (m + - m == 0)%Q.
Proof. exists 1%Q, (-1)%Q, 1%Q. split; [intros H; discriminate H | reflexivity]. Qed.
