(* Executable models (tie H) of the DOF-map builders of bempp_cl/api/space:
     space.py            _process_segments, invert_local2global, FunctionSpace.__init__ (grid_dof_count)
     scalar_spaces.py    p0_discontinuous / p1_discontinuous maps, _compute_p1_dof_map
     maxwell_spaces.py   _compute_rwg0_space_data (RWG; SNC calls the same function)
   Arrays of the implementation are total maps (nat -> ...) updated functionally; the loops of the source are
   fold_left over the same index sequences, in the same order, with the same mutable state.
   This file contains no proofs (it must still evaluate when a proof breaks). *)
From Coq Require Import ZArith List Bool Arith.
Import ListNotations.

(* ---------- arrays as total maps ---------- *)
Definition upd1 {A} (f : nat -> A) (i : nat) (v : A) : nat -> A :=
  fun j => if Nat.eqb j i then v else f j.
Definition upd2 {A} (f : nat -> nat -> A) (e i : nat) (v : A) : nat -> nat -> A :=
  fun e' i' => if Nat.eqb e' e && Nat.eqb i' i then v else f e' i'.
Definition tab1 {A} (n : nat) (f : nat -> A) : list A := map f (seq 0 n).
Definition tab2 {A} (n m : nat) (f : nat -> nat -> A) : list (list A) :=
  map (fun e => map (f e) (seq 0 m)) (seq 0 n).
Definition of_list1 {A} (d : A) (l : list A) : nat -> A := fun i => nth i l d.
Definition of_list2 {A} (d : A) (l : list (list A)) : nat -> nat -> A := fun e i => nth i (nth e l []) d.
Definition memb (x : nat) (l : list nat) : bool := existsb (Nat.eqb x) l.

(* ---------- the grid tables the builders read ---------- *)
Record grid := {
  nelem : nat; nvert : nat; nedge : nat;
  elems : nat -> nat -> nat;      (* grid.elements[i, e]        element e, local vertex i  *)
  eedges : nat -> nat -> nat;     (* grid.element_edges[i, e]   element e, local edge i    *)
  enbrs : nat -> list nat;        (* grid.edge_neighbors[edge]                              *)
  vnbrs : nat -> list nat;        (* grid.vertex_neighbors (csr) as a list per vertex       *)
  vob : nat -> bool;              (* grid.vertex_on_boundary                                *)
  dom : nat -> nat                (* grid.domain_indices                                    *)
}.

(* ---------- the data that defines a discrete space ---------- *)
Record space := {
  sp_n : nat;                     (* number of grid elements  *)
  sp_k : nat;                     (* number of shape functions *)
  l2g : nat -> nat -> nat;        (* local2global[e, i]        *)
  mult : nat -> nat -> Z;         (* local_multipliers[e, i]  (values -1, 0, 1) *)
  supp : nat -> bool              (* support[e]                *)
}.

Definition support_elements (s : space) : list nat := filter (supp s) (seq 0 (sp_n s)).
Definition l2g_row (s : space) (e : nat) : list nat := map (l2g s e) (seq 0 (sp_k s)).
Definition l2g_tab (s : space) := tab2 (sp_n s) (sp_k s) (l2g s).
Definition mult_tab (s : space) := tab2 (sp_n s) (sp_k s) (mult s).
Definition supp_tab (s : space) := tab1 (sp_n s) (supp s).

(* the same space with its arrays stored as lists (what the implementation holds); used by the correspondence
   so that a lookup does not re-run the builder loops *)
Definition freeze (s : space) : space :=
  {| sp_n := sp_n s; sp_k := sp_k s; l2g := of_list2 0 (l2g_tab s); mult := of_list2 0%Z (mult_tab s);
     supp := of_list1 false (supp_tab s) |}.

(* FunctionSpace.__init__: number_of_grid_dofs = 1 + max(local2global) (over ALL rows of the array);
   SpaceBuilder.build: dof_transformation = identity(1 + max(local2global)), global_dof_count = its column count *)
Definition max_list (l : list nat) : nat := fold_left Nat.max l 0.
Definition all_dofs (s : space) : list nat := flat_map (l2g_row s) (seq 0 (sp_n s)).
Definition ndofs (s : space) : nat := 1 + max_list (all_dofs s).

(* space.py:897 invert_local2global.  Entries in element-major, local-minor order (the order of the two loops). *)
Definition entries (s : space) : list (nat * nat) :=
  flat_map (fun e => map (pair e) (seq 0 (sp_k s))) (seq 0 (sp_n s)).
Definition g2l_of (s : space) (d : nat) : list (nat * nat) :=
  filter (fun ei => Nat.eqb (l2g s (fst ei) (snd ei)) d && negb (Z.eqb (mult s (fst ei) (snd ei)) 0)) (entries s).
Definition global2local (s : space) : list (list (nat * nat)) := map (g2l_of s) (seq 0 (ndofs s)).

(* ---------- space.py:866 _process_segments ---------- *)
Definition process_segments (g : grid) (support_elements segments : option (list nat)) (swapped : list nat)
  : option ((nat -> bool) * (nat -> Z)) :=
  let nm := fun e => if memb (dom g e) swapped then (-1)%Z else 1%Z in
  match support_elements, segments with
  | Some _, Some _ => None                                   (* ValueError *)
  | Some l, None => Some (fun e => Nat.ltb e (nelem g) && memb e l, nm)
  | None, Some l => Some (fun e => Nat.ltb e (nelem g) && memb (dom g e) l, nm)
  | None, None => Some (fun e => Nat.ltb e (nelem g), nm)
  end.

(* rank of index v among the indices < v that satisfy D: position in numpy.flatnonzero(D) *)
Definition rank (D : nat -> bool) (v : nat) : nat := length (filter D (seq 0 v)).

(* ---------- scalar_spaces.py: DP0 / DP1 ---------- *)
Definition dp0_space (g : grid) (sup : nat -> bool) : space :=
  {| sp_n := nelem g; sp_k := 1;
     l2g := fun e _ => if sup e then rank sup e else 0;
     mult := fun e _ => if sup e then 1%Z else 0%Z;
     supp := sup |}.
Definition dp1_space (g : grid) (sup : nat -> bool) : space :=
  {| sp_n := nelem g; sp_k := 3;
     l2g := fun e i => if sup e then 3 * rank sup e + i else 0;
     mult := fun e _ => if sup e then 1%Z else 0%Z;
     supp := sup |}.

(* ---------- scalar_spaces.py:337 _compute_p1_dof_map ---------- *)
(* find_index(grid_data.elements[:, en], vertex): first position, -1 if absent; the -1 is then used as a
   (wrapping) column index, i.e. the last column *)
Definition find_index (g : grid) (x v : nat) : nat :=
  if Nat.eqb (elems g x 0) v then 0 else if Nat.eqb (elems g x 1) v then 1
  else if Nat.eqb (elems g x 2) v then 2 else 2.

Record p1state := { pL : nat -> nat -> Z;    (* local2global (vertex index or -1) *)
                    pD : nat -> bool;        (* vertex_is_dof *)
                    pX : list nat }.         (* extended_support *)
Definition p1_init : p1state := {| pL := fun _ _ => (-1)%Z; pD := fun _ => false; pX := [] |}.

Definition p1_ext_step (g : grid) (v : nat) (st : p1state) (en : nat) : p1state :=
  {| pL := upd2 (pL st) en (find_index g en v) (Z.of_nat v); pD := pD st; pX := en :: pX st |}.

Definition nonempty {A} (l : list A) : bool := match l with [] => false | _ => true end.

Definition p1_step (g : grid) (sup : nat -> bool) (incl trunc : bool) (st : p1state) (ei : nat * nat) : p1state :=
  let e := fst ei in let i := snd ei in
  let v := elems g e i in
  let ns := filter (fun n => negb (sup n)) (vnbrs g v) in
  let interior := negb (nonempty ns) && negb (vob g v) in
  let st1 := if incl || interior
             then {| pL := upd2 (pL st) e i (Z.of_nat v); pD := upd1 (pD st) v true; pX := pX st |}
             else st in
  if nonempty ns && negb trunc && incl then fold_left (p1_ext_step g v) ns st1 else st1.

Definition elem_local_pairs (es : list nat) : list (nat * nat) :=
  flat_map (fun e => map (pair e) [0; 1; 2]) es.

Definition p1_loop1 (g : grid) (sup : nat -> bool) (incl trunc : bool) : p1state :=
  fold_left (p1_step g sup incl trunc) (elem_local_pairs (filter sup (seq 0 (nelem g)))) p1_init.

Definition p1_real (st : p1state) (x k : nat) : bool := negb (Z.eqb (pL st x k) (-1)).
Definition p1_dof (st : p1state) (x k : nat) : nat :=
  if p1_real st x k then rank (pD st) (Z.to_nat (pL st x k)) else 0.
Definition p1_has (st : p1state) (x : nat) : bool := p1_real st x 0 || p1_real st x 1 || p1_real st x 2.
(* the second loop runs over elements_in_support followed by set(extended_support) *)
Definition p1_visited (g : grid) (sup : nat -> bool) (st : p1state) (x : nat) : bool :=
  Nat.ltb x (nelem g) && (sup x || memb x (pX st)).

Definition p1_space_of (g : grid) (sup : nat -> bool) (st : p1state) : space :=
  {| sp_n := nelem g; sp_k := 3;
     l2g := fun x k =>
       if p1_visited g sup st x then
         if p1_real st x k then p1_dof st x k
         else if p1_has st x then Nat.max (p1_dof st x 0) (Nat.max (p1_dof st x 1) (p1_dof st x 2)) else 0
       else 0;
     mult := fun x k => if p1_visited g sup st x && p1_real st x k then 1%Z else 0%Z;
     supp := fun x => p1_visited g sup st x && p1_has st x |}.

Definition p1_space (g : grid) (sup : nat -> bool) (incl trunc : bool) : space :=
  p1_space_of g sup (p1_loop1 g sup incl trunc).
(* the local variable global_dof_count = len(flatnonzero(vertex_is_dof)) of the source (never returned) *)
Definition p1_selected_count (g : grid) (sup : nat -> bool) (incl trunc : bool) : nat :=
  rank (pD (p1_loop1 g sup incl trunc)) (nvert g).

(* ---------- maxwell_spaces.py:544 _compute_rwg0_space_data ---------- *)
Record rwgstate := { rS : nat -> bool;       (* support (mutated by the first loop) *)
                     rE : nat -> Z;          (* edge_dofs, -1 = none *)
                     rC : nat }.             (* dof_count *)

(* "if edge_dofs[edge_index]: edge_dofs[edge_index] = dof_count; dof_count += 1"  (truthiness: non-zero) *)
Definition rwg_assign (st : rwgstate) (edge : nat) : rwgstate :=
  if Z.eqb (rE st edge) 0 then st
  else {| rS := rS st; rE := upd1 (rE st) edge (Z.of_nat (rC st)); rC := 1 + rC st |}.

Definition rwg_edge_step (g : grid) (incl trunc : bool) (e : nat) (sh : rwgstate * bool) (i : nat)
  : rwgstate * bool :=
  let st := fst sh in let has := snd sh in
  let edge := eedges g e i in
  if negb (Z.eqb (rE st edge) (-1)) then (st, true)
  else
    let cur := enbrs g edge in
    let sn := filter (rS st) cur in
    let sh1 := if Nat.eqb (length sn) 2 then (rwg_assign st edge, true) else (st, has) in
    if Nat.eqb (length sn) 1 && incl then
      let st2 := rwg_assign (fst sh1) edge in
      ((if negb trunc
        then {| rS := fun x => memb x cur || rS st2 x; rE := rE st2; rC := rC st2 |}
        else st2), true)
    else sh1.

Definition rwg_elem_step (g : grid) (incl trunc : bool) (st : rwgstate) (e : nat) : rwgstate :=
  let sh := fold_left (rwg_edge_step g incl trunc e) [0; 1; 2] (st, false) in
  if snd sh then fst sh
  else {| rS := upd1 (rS (fst sh)) e false; rE := rE (fst sh); rC := rC (fst sh) |}.

Definition rwg_loop1 (g : grid) (sup : nat -> bool) (incl trunc : bool) : rwgstate :=
  fold_left (rwg_elem_step g incl trunc) (filter sup (seq 0 (nelem g)))
            {| rS := sup; rE := fun _ => (-1)%Z; rC := 0 |}.

Definition list_min (l : list nat) : nat := match l with [] => 0 | x :: r => fold_left Nat.min r x end.

Definition rwg_has_dof (g : grid) (st : rwgstate) (x k : nat) : bool := negb (Z.eqb (rE st (eedges g x k)) (-1)).
Definition rwg_mult (g : grid) (st : rwgstate) (x k : nat) : Z :=
  if rwg_has_dof g st x k then
    let sn := filter (rS st) (enbrs g (eedges g x k)) in
    if Nat.eqb (length sn) 1 then 1%Z else if Nat.eqb x (list_min sn) then 1%Z else (-1)%Z
  else 0%Z.
Definition rwg_dofmap0 (g : grid) (st : rwgstate) (x k : nat) : Z :=
  if rwg_has_dof g st x k then rE st (eedges g x k) else (-1)%Z.
Definition rwg_first_nonzero (g : grid) (st : rwgstate) (x : nat) : nat :=
  if negb (Z.eqb (rwg_mult g st x 0) 0) then 0 else if negb (Z.eqb (rwg_mult g st x 1) 0) then 1
  else if negb (Z.eqb (rwg_mult g st x 2) 0) then 2 else 0.
Definition rwg_dofmap (g : grid) (st : rwgstate) (x k : nat) : Z :=
  if Z.eqb (rwg_mult g st x k) 0 then rwg_dofmap0 g st x (rwg_first_nonzero g st x) else rwg_dofmap0 g st x k.

Definition rwg_in (g : grid) (st : rwgstate) (x : nat) : bool := Nat.ltb x (nelem g) && rS st x.

(* the uint32 store of a -1 would wrap to 2^32-1; rwg_no_wrap (DofMapsProofs) shows that on consistent tables
   no support row contains -1, so Z.to_nat is exact there *)
Definition rwg_space_of (g : grid) (st : rwgstate) : space :=
  {| sp_n := nelem g; sp_k := 3;
     l2g := fun x k => if rwg_in g st x then Z.to_nat (rwg_dofmap g st x k) else 0;
     mult := fun x k => if rwg_in g st x then rwg_mult g st x k else 0%Z;
     supp := rwg_in g st |}.

Definition rwg_space (g : grid) (sup : nat -> bool) (incl trunc : bool) : space :=
  rwg_space_of g (rwg_loop1 g sup incl trunc).
(* first component of the returned tuple (ignored by rwg0_function_space / snc0_function_space) *)
Definition rwg_dof_count (g : grid) (sup : nat -> bool) (incl trunc : bool) : nat :=
  rC (rwg_loop1 g sup incl trunc).

(* ---------- space.py:915 make_localised_space (used by the colour-conflict theorems) ---------- *)
Definition localised_space (s : space) : space :=
  {| sp_n := sp_n s; sp_k := sp_k s;
     l2g := fun e i => if Nat.ltb e (sp_n s) && supp s e then sp_k s * rank (fun x => Nat.ltb x (sp_n s) && supp s x) e + i else 0;
     mult := fun e _ => if Nat.ltb e (sp_n s) && supp s e then 1%Z else 0%Z;
     supp := supp s |}.

(* The layout shared by every discontinuous / barycentric / dual space of the library
   (p0/p1/rwg0/snc0 *_barycentric_function_space, dual0/dual1_function_space, grid._get_data_multipliers for BC/RBC,
   make_localised_space, DP0, DP1):
     local2global[support] = arange(k * support_size).reshape(support_size, k);  local_multipliers[support] = 1 *)
Definition arange_space (n k : nat) (sup : nat -> bool) : space :=
  {| sp_n := n; sp_k := k;
     l2g := fun e i => if sup e then k * rank sup e + i else 0;
     mult := fun e _ => if sup e then 1%Z else 0%Z;
     supp := sup |}.

(* every zero-multiplier entry of a support row repeats a dof that the same row carries with a non-zero
   multiplier (needed by C16: the colouring only sees non-zero entries) *)
Definition alias_closed (s : space) : Prop :=
  forall e i, In e (support_elements s) -> i < sp_k s ->
    exists j, j < sp_k s /\ l2g s e j = l2g s e i /\ mult s e j <> 0%Z.
Definition alias_closedb (s : space) : bool :=
  forallb (fun e => forallb (fun i => existsb (fun j => Nat.eqb (l2g s e j) (l2g s e i) && negb (Z.eqb (mult s e j) 0))
                                              (seq 0 (sp_k s))) (seq 0 (sp_k s))) (support_elements s).
