(* Proofs about the DOF-map models: alias closure of every space kind (used by C16), DP0/DP1 facts. *)
From Coq Require Import ZArith List Bool Arith Lia.
From BV Require Import Space.DofMaps Space.SpaceBasics.
Import ListNotations.

Lemma in_support_elements' s e : In e (support_elements s) <-> e < sp_n s /\ supp s e = true.
Proof. unfold support_elements. rewrite filter_In, in_seq. split; intros [? ?]; split; (lia || assumption). Qed.

(* spaces whose support rows carry multiplier 1 everywhere are trivially alias closed *)
Lemma alias_closed_all_nonzero s :
  (forall e i, In e (support_elements s) -> i < sp_k s -> mult s e i <> 0%Z) -> alias_closed s.
Proof. intros H e i He Hi. exists i. auto. Qed.

Theorem dp0_alias_closed g sup : alias_closed (dp0_space g sup).
Proof.
  apply alias_closed_all_nonzero. intros e i He _. apply in_support_elements' in He. simpl in He.
  destruct He as [_ He]. simpl. rewrite He. discriminate.
Qed.
Theorem dp1_alias_closed g sup : alias_closed (dp1_space g sup).
Proof.
  apply alias_closed_all_nonzero. intros e i He _. apply in_support_elements' in He. simpl in He.
  destruct He as [_ He]. simpl. rewrite He. discriminate.
Qed.
Theorem localised_alias_closed s : alias_closed (localised_space s).
Proof.
  apply alias_closed_all_nonzero. intros e i He _. apply in_support_elements' in He. simpl in He.
  destruct He as [Hn He]. simpl. apply Nat.ltb_lt in Hn. rewrite Hn, He. discriminate.
Qed.

(* barycentric, dual, BC/RBC, localised, DP spaces: all multipliers of support rows are 1 *)
Theorem arange_alias_closed n k sup : alias_closed (arange_space n k sup).
Proof.
  apply alias_closed_all_nonzero. intros e i He _. apply in_support_elements' in He. simpl in He.
  destruct He as [_ He]. simpl. rewrite He. discriminate.
Qed.

(* rank is strictly monotone on the selected indices: distinct selected indices get distinct numbers *)
Lemma rank_succ D v : rank D (S v) = rank D v + (if D v then 1 else 0).
Proof.
  unfold rank. rewrite seq_S, filter_app, app_length. simpl. destruct (D v); simpl; lia.
Qed.
Lemma rank_mono D a b : a <= b -> rank D a <= rank D b.
Proof. induction 1; [lia|]. rewrite rank_succ. lia. Qed.
Lemma rank_lt D a b : a < b -> D a = true -> rank D a < rank D b.
Proof.
  intros H Ha. assert (rank D (S a) <= rank D b) by (apply rank_mono; lia).
  rewrite rank_succ, Ha in H0. lia.
Qed.
Lemma rank_inj D a b : D a = true -> D b = true -> rank D a = rank D b -> a = b.
Proof.
  intros Ha Hb E. destruct (Nat.lt_trichotomy a b) as [H|[H|H]]; [|assumption|].
  - pose proof (rank_lt D a b H Ha). lia.
  - pose proof (rank_lt D b a H Hb). lia.
Qed.
Lemma rank_lt_total D a n : a < n -> D a = true -> rank D a < rank D n.
Proof. apply rank_lt. Qed.
(* every number below the count is the rank of a selected index *)
Lemma rank_surj D n : forall r, r < rank D n -> exists a, a < n /\ D a = true /\ rank D a = r.
Proof.
  induction n as [|n IH]; intros r Hr; [unfold rank in Hr; simpl in Hr; lia|].
  rewrite rank_succ in Hr. destruct (D n) eqn:Dn.
  - destruct (Nat.eq_dec r (rank D n)) as [->|Hne].
    + exists n. auto.
    + destruct (IH r) as (a & Ha & Da & Ra); [lia|]. exists a. auto.
  - destruct (IH r) as (a & Ha & Da & Ra); [lia|]. exists a. auto.
Qed.

(* DP0: the dof of a support element is its rank among the support elements; one dof per element *)
Theorem dp0_dof_is_rank g sup e : e < nelem g -> sup e = true ->
  l2g (dp0_space g sup) e 0 = rank sup e /\ mult (dp0_space g sup) e 0 = 1%Z.
Proof. intros _ H. simpl. now rewrite H. Qed.
Theorem dp0_injective g sup e f : sup e = true -> sup f = true ->
  l2g (dp0_space g sup) e 0 = l2g (dp0_space g sup) f 0 -> e = f.
Proof. simpl. intros He Hf. rewrite He, Hf. now apply rank_inj. Qed.
Theorem dp1_injective g sup e f i j : sup e = true -> sup f = true -> i < 3 -> j < 3 ->
  l2g (dp1_space g sup) e i = l2g (dp1_space g sup) f j -> e = f /\ i = j.
Proof.
  simpl. intros He Hf Hi Hj. rewrite He, Hf. intros E.
  assert (rank sup e = rank sup f) by lia. split; [now apply (rank_inj sup) | lia].
Qed.

(* different support elements of an arange space never share a dof (so one colour would do) *)
Theorem arange_rows_disjoint n k sup e f i j : sup e = true -> sup f = true -> i < k -> j < k ->
  l2g (arange_space n k sup) e i = l2g (arange_space n k sup) f j -> e = f /\ i = j.
Proof.
  simpl. intros He Hf Hi Hj. rewrite He, Hf. intros E.
  assert (rank sup e = rank sup f).
  { destruct (Nat.lt_trichotomy (rank sup e) (rank sup f)) as [H|[H|H]]; [exfalso|assumption|exfalso]; nia. }
  split; [now apply (rank_inj sup) | nia].
Qed.
