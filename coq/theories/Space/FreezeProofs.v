(* The correspondence evaluates the colouring on [freeze s] (arrays stored as lists, as the implementation holds
   them); the theorems are about [s].  Both have the same tables and the same colour map. *)
From Coq Require Import ZArith List Bool Arith Lia.
From BV Require Import Space.DofMaps Space.Colouring Space.SpaceBasics.
Import ListNotations.

Lemma tab2_nth {A} n m (f : nat -> nat -> A) d e i : e < n -> i < m -> of_list2 d (tab2 n m f) e i = f e i.
Proof.
  intros He Hi. unfold of_list2, tab2.
  rewrite nth_indep with (d' := map (f 0) (seq 0 m)) by now rewrite map_length, seq_length.
  rewrite map_nth with (f := fun e => map (f e) (seq 0 m)). rewrite seq_nth by assumption. cbn.
  rewrite nth_indep with (d' := f e 0) by now rewrite map_length, seq_length.
  rewrite map_nth. now rewrite seq_nth.
Qed.

Section Freeze.
Variable s : space.
Let fs := freeze s.

Lemma freeze_l2g e i : e < sp_n s -> i < sp_k s -> l2g fs e i = l2g s e i.
Proof. intros. unfold fs, freeze, l2g_tab. cbn. now apply tab2_nth. Qed.
Lemma freeze_mult e i : e < sp_n s -> i < sp_k s -> mult fs e i = mult s e i.
Proof. intros. unfold fs, freeze, mult_tab. cbn. now apply tab2_nth. Qed.
Lemma freeze_supp e : e < sp_n s -> supp fs e = supp s e.
Proof. intros. unfold fs, freeze, supp_tab, of_list1. cbn. now apply tab1_nth. Qed.

Lemma freeze_support_elements : support_elements fs = support_elements s.
Proof.
  unfold support_elements. change (sp_n fs) with (sp_n s). apply filter_ext_in.
  intros e He. apply in_seq in He. apply freeze_supp. lia.
Qed.
Lemma freeze_l2g_row e : e < sp_n s -> l2g_row fs e = l2g_row s e.
Proof.
  intros He. unfold l2g_row. change (sp_k fs) with (sp_k s). apply map_ext_in.
  intros i Hi. apply in_seq in Hi. apply freeze_l2g; lia.
Qed.
Lemma freeze_all_dofs : all_dofs fs = all_dofs s.
Proof.
  unfold all_dofs. change (sp_n fs) with (sp_n s).
  assert (G : forall l, (forall e, In e l -> e < sp_n s) -> flat_map (l2g_row fs) l = flat_map (l2g_row s) l).
  { clear. intros l. induction l as [|e l IH]; intros H; [reflexivity|]. cbn [flat_map].
    rewrite freeze_l2g_row by (apply H; now left). rewrite IH; [reflexivity|]. intros x Hx. apply H. now right. }
  apply G. intros x Hx. apply in_seq in Hx. lia.
Qed.
Lemma freeze_ndofs : ndofs fs = ndofs s.
Proof. unfold ndofs. now rewrite freeze_all_dofs. Qed.
Lemma freeze_g2l_of d : g2l_of fs d = g2l_of s d.
Proof.
  unfold g2l_of. assert (E : entries fs = entries s) by reflexivity. rewrite E. apply filter_ext_in.
  intros [e i] Hin. apply in_entries in Hin. destruct Hin as [He Hi]. cbn [fst snd].
  now rewrite freeze_l2g, freeze_mult.
Qed.
Lemma freeze_global2local : global2local fs = global2local s.
Proof. unfold global2local. rewrite freeze_ndofs. apply map_ext. exact freeze_g2l_of. Qed.

Theorem freeze_tables : l2g_tab fs = l2g_tab s /\ mult_tab fs = mult_tab s /\ supp_tab fs = supp_tab s.
Proof.
  split; [|split].
  - unfold l2g_tab, tab2. change (sp_n fs) with (sp_n s). change (sp_k fs) with (sp_k s).
    apply map_ext_in. intros e He. apply in_seq in He. apply map_ext_in. intros i Hi. apply in_seq in Hi.
    apply freeze_l2g; lia.
  - unfold mult_tab, tab2. change (sp_n fs) with (sp_n s). change (sp_k fs) with (sp_k s).
    apply map_ext_in. intros e He. apply in_seq in He. apply map_ext_in. intros i Hi. apply in_seq in Hi.
    apply freeze_mult; lia.
  - unfold supp_tab, tab1. change (sp_n fs) with (sp_n s). apply map_ext_in. intros e He. apply in_seq in He.
    apply freeze_supp. lia.
Qed.

Lemma colour_step_freeze g2l acc e : e < sp_n s -> colour_step fs g2l acc e = colour_step s g2l acc e.
Proof.
  intros He. unfold colour_step, colour_neighbours. now rewrite freeze_support_elements, freeze_l2g_row.
Qed.

Theorem freeze_colour_map : colour_map fs = colour_map s.
Proof.
  unfold colour_map. rewrite freeze_global2local, freeze_support_elements.
  assert (G : forall l acc, (forall e, In e l -> e < sp_n s) ->
              fold_left (colour_step fs (global2local s)) l acc = fold_left (colour_step s (global2local s)) l acc).
  { induction l as [|e l IH]; intros acc H; [reflexivity|]. cbn [fold_left].
    rewrite colour_step_freeze by (apply H; now left). apply IH. intros x Hx. apply H. now right. }
  apply G. intros e He. unfold support_elements in He. apply filter_In in He. destruct He as [He _].
  apply in_seq in He. lia.
Qed.
End Freeze.
