(* C09 statements in the form used by props/C09.v: the section hypotheses of P1Proofs / RwgProofs are supplied from
   the record grid_ok (GridOk.v). *)
From Coq Require Import ZArith List Bool Arith Lia.
From BV Require Import Space.DofMaps Space.SpaceBasics Space.DofMapsProofs Space.P1Proofs Space.RwgProofs
  Space.Corr Space.GridOk.
Import ListNotations.

Section WithGrid.
Variable g : grid.
Variable sup : nat -> bool.
Variables incl trunc : bool.
Hypothesis Hg : grid_ok g.
Hypothesis Hs : support_in_range g sup.

Let p1s := p1_space g sup incl trunc.
Let selected := pD (p1_loop1 g sup incl trunc).

Theorem c09_p1_selected v : selected v = true <-> touched g sup v /\ sel g sup incl v = true.
Proof. apply p1_selected_iff; [apply Hg | exact Hs]. Qed.

Theorem c09_p1_continuous x y k j : supp p1s x = true -> supp p1s y = true -> k < 3 -> j < 3 ->
  elems g x k = elems g y j ->
  mult p1s x k = mult p1s y j /\ (mult p1s x k <> 0%Z -> l2g p1s x k = l2g p1s y j).
Proof. apply p1_continuous; [apply Hg | exact Hs | apply Hg]. Qed.

Theorem c09_p1_dof_is_rank x k : supp p1s x = true -> mult p1s x k <> 0%Z ->
  mult p1s x k = 1%Z /\ l2g p1s x k = rank selected (elems g x k) /\ selected (elems g x k) = true.
Proof. apply p1_dof_is_rank; [apply Hg | exact Hs]. Qed.

Theorem c09_p1_dofs_injective x y k j : supp p1s x = true -> supp p1s y = true ->
  mult p1s x k <> 0%Z -> mult p1s y j <> 0%Z -> l2g p1s x k = l2g p1s y j -> elems g x k = elems g y j.
Proof. apply p1_dofs_injective; [apply Hg | exact Hs]. Qed.

Theorem c09_p1_dof_count : 1 <= p1_selected_count g sup incl trunc ->
  ndofs p1s = p1_selected_count g sup incl trunc.
Proof. apply p1_dof_count; [apply Hg | exact Hs | apply Hg]. Qed.

Theorem c09_p1_full_multipliers x : sup x = true -> (forall k, k < 3 -> sel g sup incl (elems g x k) = true) ->
  supp p1s x = true /\ forall k, k < 3 -> mult p1s x k = 1%Z.
Proof. apply p1_full_multipliers; [apply Hg | exact Hs]. Qed.

Let rws := rwg_space g sup incl trunc.
Let edge_dof := rE (rwg_loop1 g sup incl trunc).
Let fin_support := rS (rwg_loop1 g sup incl trunc).

Theorem c09_rwg_support_has_dof x : supp rws x = true -> exists k, k < 3 /\ edge_dof (eedges g x k) <> (-1)%Z.
Proof. apply rwg_support_has_dof; [apply Hg | apply Hg | exact Hs]. Qed.

Theorem c09_rwg_dof_is_edge x k : supp rws x = true -> mult rws x k <> 0%Z ->
  Z.of_nat (l2g rws x k) = edge_dof (eedges g x k) /\
  (0 <= edge_dof (eedges g x k) < Z.of_nat (rwg_dof_count g sup incl trunc))%Z.
Proof. apply rwg_dof_is_edge_number; [apply Hg | apply Hg | exact Hs]. Qed.

Theorem c09_rwg_dof_injective x y k j : supp rws x = true -> supp rws y = true ->
  mult rws x k <> 0%Z -> mult rws y j <> 0%Z -> l2g rws x k = l2g rws y j -> eedges g x k = eedges g y j.
Proof. apply rwg_dof_injective; [apply Hg | apply Hg | exact Hs]. Qed.

Theorem c09_rwg_no_wrap x k : supp rws x = true -> k < 3 ->
  (0 <= rwg_dofmap g (rwg_loop1 g sup incl trunc) x k < Z.of_nat (rwg_dof_count g sup incl trunc))%Z.
Proof. apply rwg_no_wrap; [apply Hg | apply Hg | exact Hs]. Qed.

Theorem c09_rwg_sign_pattern x k : supp rws x = true -> k < 3 -> mult rws x k <> 0%Z ->
  let fe := filter fin_support (enbrs g (eedges g x k)) in
  In x fe /\
  mult rws x k = (if Nat.eqb (length fe) 1 then 1 else if Nat.eqb x (list_min fe) then 1 else -1)%Z /\
  (incl = false -> 2 <= length fe).
Proof. apply rwg_sign_pattern; [apply Hg | apply Hg | exact Hs]. Qed.

Theorem c09_rwg_two_or_one : manifold g -> forall x k, supp rws x = true -> k < 3 -> mult rws x k <> 0%Z ->
  let fe := filter fin_support (enbrs g (eedges g x k)) in
  (fe = [x] /\ mult rws x k = 1%Z /\ incl = true) \/
  (exists y, y <> x /\ (fe = [x; y] \/ fe = [y; x]) /\ supp rws y = true /\
             mult rws x k = (if Nat.ltb x y then 1 else -1)%Z /\
             exists j, j < 3 /\ eedges g y j = eedges g x k /\ mult rws y j = (if Nat.ltb y x then 1 else -1)%Z /\
                       l2g rws y j = l2g rws x k).
Proof. intros Hm. apply rwg_two_or_one; [apply Hg | apply Hg | exact Hs | exact Hm]. Qed.

Theorem c09_rwg_dof_count : 1 <= rwg_dof_count g sup incl trunc ->
  ndofs rws = rwg_dof_count g sup incl trunc /\
  rwg_dof_count g sup incl trunc =
    length (filter (fun edge => negb (Z.eqb (edge_dof edge) (-1))) (seq 0 (nedge g))).
Proof.
  intros H. split.
  - apply rwg_ndofs_is_count; [apply Hg | apply Hg | exact Hs | exact H].
  - apply rwg_count_is_number_of_dof_edges; [apply Hg | apply Hg | exact Hs | apply Hg].
Qed.

Theorem c09_rwg_alias_closed : alias_closed rws.
Proof. apply rwg_alias_closed; [apply Hg | apply Hg | exact Hs]. Qed.
End WithGrid.

(* the support computed by _process_segments stays inside the grid, so the theorems apply to every selection *)
Theorem process_segments_in_range g se segs sw sup nm :
  process_segments g se segs sw = Some (sup, nm) -> support_in_range g sup.
Proof.
  unfold process_segments. destruct se, segs; intros H; inversion H; subst; intros e He;
    try (apply andb_true_iff in He; destruct He as [He _]); now apply Nat.ltb_lt.
Qed.

Theorem process_segments_spec g se segs sw sup nm e :
  process_segments g se segs sw = Some (sup, nm) -> e < nelem g ->
  (sup e = true <-> match se, segs with
                   | Some l, None => In e l
                   | None, Some l => In (dom g e) l
                   | None, None => True
                   | Some _, Some _ => False end) /\
  nm e = (if memb (dom g e) sw then -1 else 1)%Z.
Proof.
  unfold process_segments. intros H He. apply Nat.ltb_lt in He.
  destruct se, segs; inversion H; subst; rewrite ?He; cbn [andb]; rewrite ?memb_In; split; try reflexivity; tauto.
Qed.
