(* The hypotheses the C09 theorems make about the grid tables, a boolean checker for concrete tables, and its
   soundness.  The correspondence evaluates the checker on the tables of every grid the implementation built, so
   the hypotheses are not only satisfiable but hold for the real grids the check runs on. *)
From Coq Require Import ZArith List Bool Arith Lia.
From BV Require Import Space.DofMaps Space.SpaceBasics Space.Corr.
Import ListNotations.

Definition vn_consistent (g : grid) : Prop :=
  forall v x, In x (vnbrs g v) <-> x < nelem g /\ exists k, k < 3 /\ elems g x k = v.
Definition en_consistent (g : grid) : Prop :=
  forall edge x, In x (enbrs g edge) <-> x < nelem g /\ exists k, k < 3 /\ eedges g x k = edge.
Definition enbrs_nodup (g : grid) : Prop := forall edge, NoDup (enbrs g edge).
Definition distinct_vertices (g : grid) : Prop :=
  forall x k j, x < nelem g -> k < 3 -> j < 3 -> elems g x k = elems g x j -> k = j.
Definition vertices_in_range (g : grid) : Prop := forall x k, x < nelem g -> k < 3 -> elems g x k < nvert g.
Definition edges_in_range (g : grid) : Prop := forall x k, x < nelem g -> k < 3 -> eedges g x k < nedge g.
Definition manifold (g : grid) : Prop := forall edge, length (enbrs g edge) <= 2.
Definition support_in_range (g : grid) (sup : nat -> bool) : Prop := forall e, sup e = true -> e < nelem g.

Record grid_ok (g : grid) : Prop := {
  ok_vn : vn_consistent g; ok_en : en_consistent g; ok_nodup : enbrs_nodup g; ok_distinct : distinct_vertices g;
  ok_vrange : vertices_in_range g; ok_erange : edges_in_range g }.

(* ---------- boolean checker on concrete tables ---------- *)
Definition has3 (f : nat -> nat) (v : nat) : bool := Nat.eqb (f 0) v || Nat.eqb (f 1) v || Nat.eqb (f 2) v.
Fixpoint nodupb (l : list nat) : bool := match l with [] => true | a :: r => negb (memb a r) && nodupb r end.

Definition nbr_table_okb (n : nat) (tbl : list (list nat)) (rows : nat -> nat -> nat) (count : nat) : bool :=
  Nat.eqb (length tbl) count &&
  forallb (fun v => forallb (fun x => Bool.eqb (memb x (nth v tbl [])) (has3 (rows x) v)) (seq 0 n) &&
                    forallb (fun x => Nat.ltb x n) (nth v tbl [])) (seq 0 count) &&
  forallb (fun x => forallb (fun k => Nat.ltb (rows x k) count) [0; 1; 2]) (seq 0 n).

Definition gridtab_okb (t : gridtab) : bool :=
  let g := grid_of t in
  nbr_table_okb (nelem g) (t_vnbrs t) (elems g) (t_nvert t) &&
  nbr_table_okb (nelem g) (t_enbrs t) (eedges g) (t_nedge t) &&
  forallb nodupb (t_enbrs t) &&
  forallb (fun x => negb (Nat.eqb (elems g x 0) (elems g x 1)) && negb (Nat.eqb (elems g x 0) (elems g x 2)) &&
                    negb (Nat.eqb (elems g x 1) (elems g x 2))) (seq 0 (nelem g)).
Definition manifoldb (t : gridtab) : bool := forallb (fun l => Nat.leb (length l) 2) (t_enbrs t).

Lemma has3_spec f v : has3 f v = true <-> exists k, k < 3 /\ f k = v.
Proof.
  unfold has3. rewrite !orb_true_iff, !Nat.eqb_eq. split.
  - intros [[H|H]|H]; [exists 0 | exists 1 | exists 2]; split; auto; lia.
  - intros (k & Hk & E). assert (k = 0 \/ k = 1 \/ k = 2) as [-> | [-> | ->]] by lia; auto.
Qed.

Lemma nodupb_spec l : nodupb l = true -> NoDup l.
Proof.
  induction l as [|a l IH]; simpl; [constructor|]. rewrite andb_true_iff, negb_true_iff. intros [H1 H2].
  constructor; [|now apply IH]. intros Hin. apply memb_In in Hin. congruence.
Qed.

Lemma nbr_table_sound n tbl rows count : nbr_table_okb n tbl rows count = true ->
  (forall v x, In x (nth v tbl []) <-> x < n /\ exists k, k < 3 /\ rows x k = v) /\
  (forall x k, x < n -> k < 3 -> rows x k < count).
Proof.
  unfold nbr_table_okb. rewrite !andb_true_iff. intros [[Hlen Htab] Hrange].
  apply Nat.eqb_eq in Hlen.
  assert (R : forall x k, x < n -> k < 3 -> rows x k < count).
  { intros x k Hx Hk. rewrite forallb_forall in Hrange. specialize (Hrange x ltac:(apply in_seq; lia)).
    rewrite forallb_forall in Hrange. apply Nat.ltb_lt, Hrange. simpl. lia. }
  split; [|exact R]. intros v x. destruct (Nat.lt_ge_cases v count) as [Hv|Hv].
  - rewrite forallb_forall in Htab. specialize (Htab v ltac:(apply in_seq; lia)).
    apply andb_true_iff in Htab. destruct Htab as [H1 H2]. rewrite forallb_forall in H1, H2. split.
    + intros Hin. pose proof (H2 x Hin) as Hx. apply Nat.ltb_lt in Hx. split; [assumption|].
      specialize (H1 x ltac:(apply in_seq; lia)). apply eqb_prop in H1. apply has3_spec. rewrite <- H1. now apply memb_In.
    + intros [Hx Hex]. specialize (H1 x ltac:(apply in_seq; lia)). apply eqb_prop in H1. apply memb_In. rewrite H1.
      now apply has3_spec.
  - rewrite nth_overflow by lia. split; [contradiction|]. intros [Hx (k & Hk & E)]. pose proof (R x k Hx Hk). lia.
Qed.

Theorem gridtab_ok_sound t : gridtab_okb t = true -> grid_ok (grid_of t).
Proof.
  unfold gridtab_okb. rewrite !andb_true_iff. intros [[[Hv He] Hnd] Hdist].
  destruct (nbr_table_sound _ _ _ _ Hv) as [V1 V2]. destruct (nbr_table_sound _ _ _ _ He) as [E1 E2].
  constructor.
  - exact V1.
  - exact E1.
  - intros edge. unfold grid_of, enbrs. destruct (Nat.lt_ge_cases edge (length (t_enbrs t))) as [H|H].
    + apply nodupb_spec. rewrite forallb_forall in Hnd. apply Hnd. now apply nth_In.
    + rewrite nth_overflow by assumption. constructor.
  - intros x k j Hx Hk Hj E. rewrite forallb_forall in Hdist. specialize (Hdist x ltac:(apply in_seq; lia)).
    rewrite !andb_true_iff, !negb_true_iff, !Nat.eqb_neq in Hdist. destruct Hdist as [[D01 D02] D12].
    assert (k = 0 \/ k = 1 \/ k = 2) as [-> | [-> | ->]] by lia;
    assert (j = 0 \/ j = 1 \/ j = 2) as [-> | [-> | ->]] by lia; congruence.
  - exact V2.
  - exact E2.
Qed.

Theorem manifoldb_sound t : manifoldb t = true -> manifold (grid_of t).
Proof.
  unfold manifoldb, manifold. intros H edge. unfold grid_of, enbrs.
  destruct (Nat.lt_ge_cases edge (length (t_enbrs t))) as [Hl|Hl].
  - rewrite forallb_forall in H. apply Nat.leb_le, H. now apply nth_In.
  - rewrite nth_overflow by assumption. simpl. lia.
Qed.

(* the octahedron used by the correspondence: the hypotheses are satisfiable *)
Definition octahedron_tab : gridtab :=
  mkgrid 6 12 [[0;2;4];[2;1;4];[1;3;4];[3;0;4];[2;0;5];[1;2;5];[3;1;5];[0;3;5]]
    [[0;1;2];[3;2;4];[5;4;6];[7;6;1];[0;8;9];[3;10;8];[5;11;10];[7;9;11]]
    [[0;4];[0;3];[0;1];[1;5];[1;2];[2;6];[2;3];[3;7];[4;5];[4;7];[5;6];[6;7]]
    [[0;3;4;7];[1;2;5;6];[0;1;4;5];[2;3;6;7];[0;1;2;3];[4;5;6;7]]
    [false;false;false;false;false;false] [0;0;1;1;2;2;5;5].
Example octahedron_ok : grid_ok (grid_of octahedron_tab) /\ manifold (grid_of octahedron_tab).
Proof. split; [apply gridtab_ok_sound | apply manifoldb_sound]; vm_compute; reflexivity. Qed.
