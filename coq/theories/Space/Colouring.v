(* Executable model (tie H) of the element colouring of bempp_cl/api/space/space.py:
     FunctionSpace._compute_color_map (704), _sort_elements_by_color (720), get_elements_by_color (612),
   and of the launch structure of core/numba_assemblers.py:58 dense_assembler (one kernel launch per test colour).
   No proofs in this file. *)
From Coq Require Import ZArith List Bool Arith.
From BV Require Import Space.DofMaps.
Import ListNotations.

(* neighbours of element e: every element that global2local lists under a dof of row e, minus e itself
   (a Python set in the source; only membership matters) *)
Definition colour_neighbours (s : space) (g2l : list (list (nat * nat))) (e : nat) : list nat :=
  filter (fun x => negb (Nat.eqb x e))
         (flat_map (fun d => map fst (nth d g2l [])) (l2g_row s e)).

Definition memZ (c : Z) (l : list Z) : bool := existsb (Z.eqb c) l.

(* next(color for color in range(number_of_support_elements) if color not in neighbor_colors);
   None = StopIteration *)
Definition first_free (nsupp : nat) (used : list Z) : option nat :=
  find (fun c => negb (memZ (Z.of_nat c) used)) (seq 0 nsupp).

Definition colour_step (s : space) (g2l : list (list (nat * nat))) (acc : option (nat -> Z)) (e : nat)
  : option (nat -> Z) :=
  match acc with
  | None => None
  | Some cm =>
    match first_free (length (support_elements s)) (map cm (colour_neighbours s g2l e)) with
    | None => None
    | Some c => Some (upd1 cm e (Z.of_nat c))
    end
  end.

Definition colour_map (s : space) : option (nat -> Z) :=
  fold_left (colour_step s (global2local s)) (support_elements s) (Some (fun _ => (-1)%Z)).

Definition colour_tab (s : space) : option (list Z) :=
  match colour_map s with None => None | Some cm => Some (tab1 (sp_n s) cm) end.

(* _sort_elements_by_color *)
Definition max_listZ (l : list Z) : Z := fold_left Z.max l (-1)%Z.
Definition ncolours (n : nat) (cm : nat -> Z) : nat := Z.to_nat (1 + max_listZ (tab1 n cm)).
Definition colour_class (n : nat) (cm : nat -> Z) (c : nat) : list nat :=
  filter (fun e => Z.eqb (cm e) (Z.of_nat c)) (seq 0 n).
Definition colour_classes (n : nat) (cm : nat -> Z) : list (list nat) :=
  map (colour_class n cm) (seq 0 (ncolours n cm)).
Definition sorted_indices (n : nat) (cm : nat -> Z) : list nat := concat (colour_classes n cm).
Fixpoint prefix_from (a : nat) (l : list nat) : list nat :=
  a :: match l with [] => [] | x :: r => prefix_from (a + x) r end.
Definition prefix_sums (l : list nat) : list nat := prefix_from 0 l.
Definition indexptr (n : nat) (cm : nat -> Z) : list nat := prefix_sums (map (@length nat) (colour_classes n cm)).

(* dense_assembler: for test_color_index in range(number_of_test_colors): one launch with
   test_indices[indexptr[c] : indexptr[c+1]] and ALL trial_indices (colour-sorted) *)
Fixpoint slices (l : list nat) (ptr : list nat) : list (list nat) :=
  match ptr with
  | a :: ((b :: _) as r) => firstn (b - a) (skipn a l) :: slices l r
  | _ => []
  end.
Definition dense_launches (test trial : space) : option (list (list nat * list nat)) :=
  match colour_map test, colour_map trial with
  | Some ct, Some cr =>
    let tr := sorted_indices (sp_n trial) cr in
    Some (map (fun cls => (cls, tr)) (slices (sorted_indices (sp_n test) ct) (indexptr (sp_n test) ct)))
  | _, _ => None
  end.
