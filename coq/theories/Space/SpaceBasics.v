(* Basic lemmas about the array maps and global2local (C09_g2l_inverse). *)
From Coq Require Import ZArith List Bool Arith Lia FinFun.
From BV Require Import Space.DofMaps.
Import ListNotations.

Lemma upd1_eq {A} (f : nat -> A) i v : upd1 f i v i = v.
Proof. unfold upd1. now rewrite Nat.eqb_refl. Qed.
Lemma upd1_neq {A} (f : nat -> A) i j v : j <> i -> upd1 f i v j = f j.
Proof. unfold upd1. intros H. destruct (Nat.eqb_spec j i); congruence. Qed.
Lemma upd2_eq {A} (f : nat -> nat -> A) e i v : upd2 f e i v e i = v.
Proof. unfold upd2. now rewrite !Nat.eqb_refl. Qed.
Lemma upd2_neq {A} (f : nat -> nat -> A) e i e' i' v : (e', i') <> (e, i) -> upd2 f e i v e' i' = f e' i'.
Proof.
  unfold upd2. intros H. destruct (Nat.eqb_spec e' e), (Nat.eqb_spec i' i); simpl; try reflexivity.
  subst. congruence.
Qed.

Lemma memb_In x l : memb x l = true <-> In x l.
Proof.
  unfold memb. rewrite existsb_exists. split.
  - intros (y & Hy & E). apply Nat.eqb_eq in E. now subst.
  - intros H. exists x. split; [assumption | apply Nat.eqb_refl].
Qed.

Lemma tab1_length {A} n (f : nat -> A) : length (tab1 n f) = n.
Proof. unfold tab1. now rewrite map_length, seq_length. Qed.
Lemma tab1_nth {A} n (f : nat -> A) d i : i < n -> nth i (tab1 n f) d = f i.
Proof.
  intros H. unfold tab1. rewrite nth_indep with (d' := f 0) by now rewrite map_length, seq_length.
  rewrite map_nth. now rewrite seq_nth.
Qed.
Lemma In_tab1 {A} n (f : nat -> A) x : In x (tab1 n f) <-> exists i, i < n /\ f i = x.
Proof.
  unfold tab1. rewrite in_map_iff. split.
  - intros (i & E & Hi). apply in_seq in Hi. exists i. split; [lia | assumption].
  - intros (i & Hi & E). exists i. split; [assumption | apply in_seq; lia].
Qed.

(* max_list *)
Lemma fold_max_ge l : forall a, a <= fold_left Nat.max l a.
Proof. induction l as [|x l IH]; simpl; intros a; [lia|]. specialize (IH (Nat.max a x)). lia. Qed.
Lemma fold_max_In l : forall a x, In x l -> x <= fold_left Nat.max l a.
Proof.
  induction l as [|y l IH]; simpl; intros a x H; [contradiction|].
  destruct H as [->|H]; [|now apply IH].
  pose proof (fold_max_ge l (Nat.max a x)). lia.
Qed.
Lemma fold_max_attained l : forall a, fold_left Nat.max l a = a \/ In (fold_left Nat.max l a) l.
Proof.
  induction l as [|y l IH]; simpl; intros a; [now left|].
  destruct (IH (Nat.max a y)) as [E|H]; [|now right; right].
  rewrite E. destruct (Nat.max_spec a y) as [[_ ->]|[_ ->]]; [right; now left | now left].
Qed.
Lemma max_list_In l x : In x l -> x <= max_list l.
Proof. apply fold_max_In. Qed.
Lemma max_list_attained l : l <> [] -> (max_list l = 0 \/ In (max_list l) l).
Proof. intros _. apply fold_max_attained. Qed.

Lemma in_l2g_row s e d : In d (l2g_row s e) <-> exists i, i < sp_k s /\ l2g s e i = d.
Proof.
  unfold l2g_row. rewrite in_map_iff. split.
  - intros (i & E & Hi). apply in_seq in Hi. exists i. split; [lia|assumption].
  - intros (i & Hi & E). exists i. split; [assumption | apply in_seq; lia].
Qed.

Lemma in_all_dofs s d : In d (all_dofs s) <-> exists e i, e < sp_n s /\ i < sp_k s /\ l2g s e i = d.
Proof.
  unfold all_dofs. rewrite in_flat_map. split.
  - intros (e & He & Hd). apply in_seq in He. apply in_l2g_row in Hd. destruct Hd as (i & Hi & E).
    exists e, i. repeat split; [lia | assumption | assumption].
  - intros (e & i & He & Hi & E). exists e. split; [apply in_seq; lia | apply in_l2g_row; eauto].
Qed.

Theorem l2g_lt_ndofs s e i : e < sp_n s -> i < sp_k s -> l2g s e i < ndofs s.
Proof.
  intros He Hi. unfold ndofs.
  assert (l2g s e i <= max_list (all_dofs s)); [|lia].
  apply max_list_In, in_all_dofs. eauto.
Qed.

Lemma in_entries s e i : In (e, i) (entries s) <-> e < sp_n s /\ i < sp_k s.
Proof.
  unfold entries. rewrite in_flat_map. split.
  - intros (e' & He & H). apply in_map_iff in H. destruct H as (i' & E & Hi). inversion E; subst.
    apply in_seq in He. apply in_seq in Hi. lia.
  - intros [He Hi]. exists e. split; [apply in_seq; lia|]. apply in_map, in_seq. lia.
Qed.

Lemma in_g2l_of s d e i :
  In (e, i) (g2l_of s d) <-> e < sp_n s /\ i < sp_k s /\ l2g s e i = d /\ mult s e i <> 0%Z.
Proof.
  unfold g2l_of. rewrite filter_In, in_entries. simpl. rewrite andb_true_iff, Nat.eqb_eq, negb_true_iff, Z.eqb_neq.
  tauto.
Qed.

Lemma g2l_nth s d : d < ndofs s -> nth d (global2local s) [] = g2l_of s d.
Proof.
  intros H. unfold global2local.
  rewrite nth_indep with (d' := g2l_of s 0) by now rewrite map_length, seq_length.
  rewrite map_nth. now rewrite seq_nth.
Qed.

(* C09_g2l_inverse: (e,i) is listed under dof d  iff  local2global[e,i] = d with a non-zero multiplier *)
Theorem g2l_inverse s d e i :
  In (e, i) (nth d (global2local s) []) <->
  d < ndofs s /\ e < sp_n s /\ i < sp_k s /\ l2g s e i = d /\ mult s e i <> 0%Z.
Proof.
  destruct (Nat.lt_ge_cases d (ndofs s)) as [H|H].
  - rewrite g2l_nth by assumption. rewrite in_g2l_of. tauto.
  - rewrite nth_overflow by (unfold global2local; rewrite map_length, seq_length; lia).
    simpl. split; [contradiction | lia].
Qed.

Theorem g2l_length s : length (global2local s) = ndofs s.
Proof. unfold global2local. now rewrite map_length, seq_length. Qed.

Lemma NoDup_app_intro {A} (l1 l2 : list A) :
  NoDup l1 -> NoDup l2 -> (forall x, In x l1 -> In x l2 -> False) -> NoDup (l1 ++ l2).
Proof.
  induction l1 as [|a l1 IH]; simpl; intros H1 H2 D; [assumption|].
  inversion H1; subst. constructor.
  - rewrite in_app_iff. intros [H|H]; [contradiction | apply (D a); [now left | assumption]].
  - apply IH; [assumption | assumption | intros x Hx; apply D; now right].
Qed.

Lemma NoDup_entries s : NoDup (entries s).
Proof.
  unfold entries. generalize (sp_k s) as k. intros k.
  assert (G : forall n a, NoDup (flat_map (fun e => map (pair e) (seq 0 k)) (seq a n))).
  { induction n as [|n IH]; intros a; simpl; [constructor|].
    apply NoDup_app_intro.
    - apply Injective_map_NoDup; [intros x y E; now inversion E | apply seq_NoDup].
    - apply IH.
    - intros [e i] H1 H2. apply in_map_iff in H1. destruct H1 as (i' & E & _). inversion E; subst.
      apply in_flat_map in H2. destruct H2 as (e' & He' & H2). apply in_seq in He'.
      apply in_map_iff in H2. destruct H2 as (i'' & E2 & _). inversion E2; subst. lia. }
  apply G.
Qed.

Lemma NoDup_map_inj_in {A B} (f : A -> B) (l : list A) :
  (forall x y, In x l -> In y l -> f x = f y -> x = y) -> NoDup l -> NoDup (map f l).
Proof.
  induction l as [|a l IH]; intros Hinj Hnd; simpl; [constructor|].
  inversion Hnd; subst. constructor.
  - intros Hin. apply in_map_iff in Hin. destruct Hin as (x & E & Hx).
    assert (x = a) by (apply Hinj; [now right | now left | assumption]). subst. contradiction.
  - apply IH; [|assumption]. intros x y Hx Hy. apply Hinj; now right.
Qed.
Lemma filter_length_le {A} (f : A -> bool) l : length (filter f l) <= length l.
Proof. induction l as [|a l IH]; simpl; [lia|]. destruct (f a); simpl; lia. Qed.
