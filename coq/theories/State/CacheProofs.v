(* C18 -- invariants of the state machine State/Caches.v over all histories, and the witnesses of the
   history-dependent cells (on the hand-written tables of the pinned tree). *)
From Coq Require Import ZArith List Bool Lia Arith.
From BV Require Import State.Caches.
Import ListNotations.

(* ---- list facts ---- *)
Lemma nth_error_update_eq : forall X (l : list X) i x, (i < List.length l)%nat -> nth_error (update l i x) i = Some x.
Proof.
  intros X l. induction l; intros i x H; simpl in H; [lia|]. destruct i; [reflexivity|].
  unfold update in *. simpl. apply IHl. lia.
Qed.

Lemma nth_error_update_neq : forall X (l : list X) i j x, i <> j -> nth_error (update l i x) j = nth_error l j.
Proof.
  intros X l. induction l; intros i j x H.
  - unfold update. destruct i; simpl; destruct j; reflexivity.
  - destruct i, j; try reflexivity; try congruence.
    + unfold update in *. simpl. apply IHl. congruence.
  Qed.

Lemma update_length : forall X (l : list X) i x, List.length (update l i x) = List.length l.
Proof.
  intros X l. induction l; intros i x.
  - unfold update. destruct i; reflexivity.
  - destruct i; [reflexivity|]. unfold update in *. simpl. f_equal. apply IHl.
Qed.

Lemma nth_error_app_old : forall X (l m : list X) i x, nth_error l i = Some x -> nth_error (l ++ m) i = Some x.
Proof. intros. rewrite nth_error_app1; [assumption|]. apply nth_error_Some. congruence. Qed.

Section Machine.
  Variable T : tables.
  (* the algebra never updates in place an array reachable from an operand (regenerated: t_pure cur computes to true) *)
  Hypothesis pure : t_pure T = true.

  (* ---- the `_cached` cell is written once: a later step never changes an assembled operator ---- *)
  Lemma mk_oper_ops : forall s k args pid i o, nth_error (s_ops s) i = Some o ->
    nth_error (s_ops (mk_oper T s k args pid)) i = Some o.
  Proof.
    intros. unfold mk_oper. destruct k; try (cbn [s_ops]; now apply nth_error_app_old).
    destruct (get_iface T s CFmmPotential (s_fmmpot s) args pid). cbn [s_ops]. now apply nth_error_app_old.
  Qed.

  Lemma do_weak_keeps : forall s j i o d, nth_error (s_ops s) i = Some o -> o_cached o = Some d ->
    exists o', nth_error (s_ops (do_weak T s j)) i = Some o' /\ o_cached o' = Some d /\
               o_kind o' = o_kind o /\ o_snapshot o' = o_snapshot o /\ o_created o' = o_created o /\
               o_cparams o' = o_cparams o /\ o_pid o' = o_pid o.
  Proof.
    intros s j i o d H C. unfold do_weak. destruct (nth_error (s_ops s) j) as [oj|] eqn:J; [|eauto 10].
    destruct (o_cached oj) eqn:Cj; [eauto 10|].
    assert (i <> j) by (intro; subst; congruence).
    destruct (o_kind oj); try (cbn [s_ops]; rewrite nth_error_update_neq by congruence; eauto 10).
    destruct (get_iface T s CFmm (s_fmm s) (o_args oj) (o_pid oj)). cbn [s_ops].
    rewrite nth_error_update_neq by congruence. eauto 10.
  Qed.

  Lemma do_mass_ops : forall s sp, s_ops (do_mass T s sp) = s_ops s.
  Proof. intros. unfold do_mass. destruct (nth_error (s_spaces s) sp) as [[|]|]; reflexivity. Qed.

  Lemma step_keeps : forall s a i o d, nth_error (s_ops s) i = Some o -> o_cached o = Some d ->
    exists o', nth_error (s_ops (step T s a)) i = Some o' /\ o_cached o' = Some d /\
               o_kind o' = o_kind o /\ o_snapshot o' = o_snapshot o /\ o_created o' = o_created o /\
               o_cparams o' = o_cparams o /\ o_pid o' = o_pid o.
  Proof.
    intros s a i o d H C. destruct a; cbn [step].
    - destruct own; (eexists; split; [apply mk_oper_ops; cbn [s_ops]; eassumption|auto 10]).
    - destruct (Nat.ltb pid (List.length (s_params s))); [|eauto 10].
      eexists; split; [apply mk_oper_ops; eassumption|auto 10].
    - destruct (Nat.ltb pid (List.length (s_params s))); cbn [s_ops]; eauto 10.
    - now apply do_weak_keeps.
    - rewrite do_mass_ops. now apply do_weak_keeps.
    - cbn [s_ops]. eauto 10.
    - cbn [s_ops]. eauto 10.
    - rewrite do_mass_ops. eauto 10.
    - rewrite pure. now apply do_weak_keeps.
  Qed.

  Theorem cached_write_once : forall h' s i d, observe s i = Some d -> observe (fold_left (step T) h' s) i = Some d.
  Proof.
    induction h'; intros s i d H; [assumption|]. cbn [fold_left]. apply IHh'.
    unfold observe in *. destruct (nth_error (s_ops s) i) as [o|] eqn:E; [|discriminate].
    destruct (step_keeps s a i o d E H) as (o' & E' & C' & _). now rewrite E'.
  Qed.

  (* repeated weak_form: the second call changes nothing (the cached object is returned) *)
  Theorem weak_form_idempotent : forall s i, do_weak T (do_weak T s i) i = do_weak T s i.
  Proof.
    intros s i. unfold do_weak at 2 3. destruct (nth_error (s_ops s) i) as [o|] eqn:E.
    2:{ unfold do_weak. now rewrite E. }
    destruct (o_cached o) eqn:C.
    { unfold do_weak. now rewrite E, C. }
    assert (L : (i < List.length (s_ops s))%nat) by (apply nth_error_Some; congruence).
    destruct (o_kind o) eqn:K;
      try (unfold do_weak; cbn [s_ops]; rewrite nth_error_update_eq by assumption; reflexivity).
    destruct (get_iface T s CFmm (s_fmm s) (o_args o) (o_pid o)) eqn:G.
    unfold do_weak. cbn [s_ops]. rewrite nth_error_update_eq by assumption. reflexivity.
  Qed.

  (* ---- operators whose assembler reads every parameter through its own object ---- *)
  Definition created_desc (k : kind) (p : params) : desc :=
    map (fun r => (fst (fst r), p (fst (fst r)))) (filter (fun r => is_time (snd r) Create) (reads_of T k)).
  Definition assemble_desc (k : kind) (p : params) : desc :=
    map (fun r => (fst (fst r), p (fst (fst r)))) (filter (fun r => is_time (snd r) Assemble) (reads_of T k)).

  Lemma own_reads_own : forall s k pid b, all_own (reads_of T k) = true ->
    own_reads T s k pid b =
    map (fun r => (fst (fst r), param_obj s pid (fst (fst r)))) (filter (fun r => is_time (snd r) b) (reads_of T k)).
  Proof.
    intros s k pid b H. unfold own_reads. apply map_ext_in. intros [[f sr] bt] Hin.
    apply filter_In in Hin. destruct Hin as [Hin _]. unfold all_own in H. rewrite forallb_forall in H.
    specialize (H _ Hin). cbn in H. destruct sr; [reflexivity|discriminate].
  Qed.

  Definition good (o : oper) : Prop :=
    is_fmm (o_kind o) = false -> all_own (reads_of T (o_kind o)) = true ->
    o_created o = created_desc (o_kind o) (o_cparams o) /\
    forall d, o_cached o = Some d ->
      exists p, o_snapshot o = Some p /\ d = created_desc (o_kind o) (o_cparams o) ++ assemble_desc (o_kind o) p.

  Definition Inv (s : st) : Prop := forall i o, nth_error (s_ops s) i = Some o -> good o.

  Lemma Inv_init : Inv init.
  Proof. intros i o H. destruct i; discriminate. Qed.

  Lemma nth_error_snoc : forall X (l : list X) x i y, nth_error (l ++ [x]) i = Some y ->
    nth_error l i = Some y \/ y = x.
  Proof.
    intros X l x i y H. destruct (Nat.lt_ge_cases i (List.length l)).
    - left. now rewrite nth_error_app1 in H.
    - right. rewrite nth_error_app2 in H by assumption. destruct (i - List.length l)%nat; simpl in H; [congruence|].
      destruct n; discriminate.
  Qed.

  Lemma Inv_mk_oper : forall s k args pid, Inv s -> Inv (mk_oper T s k args pid).
  Proof.
    intros s k args pid I i o H. unfold mk_oper in H.
    assert (G : forall o0, o0 = {| o_kind := k; o_args := args; o_pid := pid; o_created := own_reads T s k pid Create;
                                   o_cached := None; o_snapshot := None; o_cparams := param_obj s pid;
                                   o_gsnapshot := None; o_gcparams := param_obj s O |} -> good o0).
    { intros o0 ->. intros F A. cbn [o_kind o_created o_cparams o_cached]. split; [|discriminate].
      unfold created_desc. now apply own_reads_own. }
    destruct k; try (cbn [s_ops] in H; apply nth_error_snoc in H; destruct H as [H|H]; [now apply (I i)|now apply G]).
    destruct (get_iface T s CFmmPotential (s_fmmpot s) args pid). cbn [s_ops] in H. apply nth_error_snoc in H.
    destruct H as [H|H]; [now apply (I i)|]. subst. intros F. discriminate.
  Qed.

  Lemma Inv_params : forall s ps, Inv s ->
    Inv {| s_params := ps; s_ops := s_ops s; s_fmm := s_fmm s; s_fmmpot := s_fmmpot s; s_spaces := s_spaces s |}.
  Proof. intros s ps I i o H. exact (I i o H). Qed.

  Lemma Inv_do_weak : forall s j, Inv s -> Inv (do_weak T s j).
  Proof.
    intros s j I. unfold do_weak. destruct (nth_error (s_ops s) j) as [oj|] eqn:J; [|assumption].
    destruct (o_cached oj) eqn:Cj; [assumption|].
    assert (Gj := I j oj J).
    assert (New : is_fmm (o_kind oj) = false ->
              good {| o_kind := o_kind oj; o_args := o_args oj; o_pid := o_pid oj; o_created := o_created oj;
                      o_cached := Some (o_created oj ++ own_reads T s (o_kind oj) (o_pid oj) Assemble);
                      o_snapshot := Some (param_obj s (o_pid oj)); o_cparams := o_cparams oj;
                      o_gsnapshot := Some (param_obj s O); o_gcparams := o_gcparams oj |} ).
    { intros NF F A. cbn [o_kind o_created o_cparams o_cached o_snapshot] in *. destruct (Gj F A) as [Cr _].
      split; [assumption|]. intros d Hd. injection Hd as <-. eexists. split; [reflexivity|].
      rewrite Cr. f_equal. unfold assemble_desc. now apply own_reads_own. }
    intros i o H.
    assert (Lj : (j < List.length (s_ops s))%nat) by (apply nth_error_Some; congruence).
    destruct (o_kind oj) eqn:K.
    1-4,6: (cbn [s_ops] in H; destruct (Nat.eq_dec j i) as [->|N];
           [ rewrite nth_error_update_eq in H by assumption; injection H as <-;
             first [apply New; reflexivity | intros F; discriminate F]
           | rewrite nth_error_update_neq in H by assumption; now apply (I i) ]).
    destruct (get_iface T s CFmm (s_fmm s) (o_args oj) (o_pid oj)). cbn [s_ops] in H.
    destruct (Nat.eq_dec j i) as [->|N].
    - rewrite nth_error_update_eq in H by assumption. injection H as <-.
      intros F. cbn [o_kind] in F. discriminate.
    - rewrite nth_error_update_neq in H by assumption. now apply (I i).
  Qed.

  Lemma Inv_do_mass : forall s sp, Inv s -> Inv (do_mass T s sp).
  Proof. intros s sp I i o H. rewrite do_mass_ops in H. exact (I i o H). Qed.

  Lemma Inv_step : forall s a, Inv s -> Inv (step T s a).
  Proof.
    intros s a I. destruct a; cbn [step].
    - destruct own; [|now apply Inv_mk_oper]. apply Inv_mk_oper. now apply Inv_params.
    - destruct (Nat.ltb pid (List.length (s_params s))); [now apply Inv_mk_oper|assumption].
    - destruct (Nat.ltb pid (List.length (s_params s))); [now apply Inv_params|assumption].
    - now apply Inv_do_weak.
    - apply Inv_do_mass. now apply Inv_do_weak.
    - intros i o H. exact (I i o H).
    - intros i o H. exact (I i o H).
    - now apply Inv_do_mass.
    - rewrite pure. now apply Inv_do_weak.
  Qed.

  Lemma Inv_run : forall h s, Inv s -> Inv (fold_left (step T) h s).
  Proof. induction h; intros s I; [assumption|]. cbn [fold_left]. apply IHh. now apply Inv_step. Qed.

  (* for every history: the descriptor of an assembled dense / sparse / singular / dense-potential operator is a
     function of its own parameter object's values at construction and at first assembly -- neither the global
     parameters (unless they ARE its object), nor any cache, nor any other step enters *)
  Theorem own_history_free : forall h i o d,
    nth_error (s_ops (run T h)) i = Some o -> is_fmm (o_kind o) = false -> all_own (reads_of T (o_kind o)) = true ->
    o_cached o = Some d ->
    exists p, o_snapshot o = Some p /\ d = created_desc (o_kind o) (o_cparams o) ++ assemble_desc (o_kind o) p.
  Proof.
    intros h i o d H F A C. assert (I := Inv_run h init Inv_init i o H F A). destruct I as [_ I]. now apply I.
  Qed.
End Machine.

(* a fresh process: one explicit parameter object with values p (global object at its defaults) *)
Lemma fresh_run_own : forall T k args p, is_fmm k = false -> all_own (reads_of T k) = true ->
  observe (run T [CreateOp k args (Some p); WeakForm 0]) 0 = Some (fresh_desc T k p).
Proof.
  intros T k args p F A. unfold run. cbn [fold_left step]. unfold mk_oper.
  destruct k; try discriminate; cbn [s_ops s_params init app List.length]; unfold do_weak; cbn;
    unfold fresh_desc; rewrite !own_reads_own by assumption; reflexivity.
Qed.

(* ---- witnesses on the pinned tables ---- *)
Definition p_q6 : params := set_field default_params QReg 6.

(* an explicit parameter object is NOT honoured by the FMM assembler: regular order 6 requested, 4 used for the
   evaluator's point maps (while the cached interface was built with 6) *)
Lemma fmm_explicit_parameters_refuted :
  exists d, observe (run pinned [CreateOp KFmm 0 (Some p_q6); WeakForm 0]) 0 = Some d /\
            desc_eqb d (fresh_desc pinned KFmm p_q6) = false.
Proof. eexists. split; [vm_compute; reflexivity|vm_compute; reflexivity]. Qed.

Lemma fmm_reads_global_refuted : exists k, is_fmm k = true /\ all_own (reads_of pinned k) = false.
Proof. exists KFmm. split; reflexivity. Qed.

(* the key of _FMM_CACHE omits parameters the cached interface is built from: the second operator is assembled after
   the global order was raised to 6 but reuses the interface built at order 4 *)
Lemma fmm_cache_key_refuted :
  key_sufficient pinned CFmm = false /\ key_sufficient pinned CFmmPotential = false /\
  exists d, observe (run pinned [CreateOp KFmm 0 None; WeakForm 0; SetParam 0 QReg 6; CreateOp KFmm 0 None; WeakForm 1]) 1
            = Some d /\ desc_eqb d (fresh_desc pinned KFmm p_q6) = false.
Proof. split; [reflexivity|]. split; [reflexivity|]. eexists. split; vm_compute; reflexivity. Qed.

Lemma fmm_potential_cache_refuted :
  exists o, nth_error (s_ops (run pinned [CreateOp KFmmPotential 0 None; SetParam 0 FDepth 3;
                                          CreateOp KFmmPotential 0 None])) 1 = Some o /\
            desc_eqb (o_created o) (fresh_desc pinned KFmmPotential (set_field default_params FDepth 3)) = false.
Proof. eexists. split; vm_compute; reflexivity. Qed.

(* ... and clearing the cache in between removes the dependence *)
Lemma fmm_cache_cleared_ok :
  observe (run pinned [CreateOp KFmm 0 None; WeakForm 0; SetParam 0 QReg 6; ClearFmmCache; CreateOp KFmm 0 None;
                       WeakForm 1]) 1 = Some (fresh_desc pinned KFmm p_q6).
Proof. vm_compute. reflexivity. Qed.

(* the mass-matrix memo of a space is assembled with the global order of the FIRST call *)
Lemma mass_memo_refuted :
  nth_error (s_spaces (run pinned [SetParam 0 QReg 1; CreateSpace; MassMatrix 0; SetParam 0 QReg 4;
                                   CreateOp KDense 0 None; StrongForm 0 0])) 0 = Some (Some [(APromote, 0%Z); (QReg, 1%Z)]) /\
  nth_error (s_spaces (run pinned [SetParam 0 QReg 4; CreateSpace; CreateOp KDense 0 None; StrongForm 0 0])) 0
    = Some (Some [(APromote, 0%Z); (QReg, 4%Z)]).
Proof. split; vm_compute; reflexivity. Qed.

(* in-place scaling of the array behind weak_form() (tables with t_pure = false, e.g. the seeded change C18-3): assembling
   a derived operator changes what the operand's weak_form() returns afterwards *)
Definition impure : tables :=
  {| t_reads := t_reads pinned; t_caches := t_caches pinned; t_mass_kind := KSparse; t_mass_global := true; t_pure := false |}.
Lemma inplace_scaling_refuted :
  observe (run impure [CreateOp KDense 0 None; WeakForm 0]) 0 <>
  observe (run impure [CreateOp KDense 0 None; WeakForm 0; AssembleDerived 0 3]) 0.
Proof. vm_compute. discriminate. Qed.
