(* C18 -- the general theorems of State/CacheProofs.v instantiated at the tables regenerated from the current
   source (BVgen.CacheKeys.cur). *)
From Coq Require Import ZArith List Bool.
From BV Require Import State.Caches State.CacheProofs.
From BVgen Require Import CacheKeys.
Import ListNotations.

(* the purity scan of the algebra files found no in-place update of an array reachable from self / an operand *)
Lemma cur_pure : t_pure cur = true.
Proof. reflexivity. Qed.
Lemma cur_no_inplace_updates : inplace_updates = [].
Proof. reflexivity. Qed.

Definition all_kinds : list kind := [KDense; KSingular; KSparse; KPotential; KFmm; KFmmPotential].
Definition honours_own (k : kind) : bool := all_own (reads_of cur k) || is_fmm k.

Lemma cur_honours_sweep : forallb honours_own all_kinds = true.
Proof. vm_compute. reflexivity. Qed.

(* every non-FMM assembler reads all its parameters through its own parameter object *)
Lemma cur_explicit_parameters_honoured : forall k, is_fmm k = false -> all_own (reads_of cur k) = true.
Proof.
  intros k F. assert (In k all_kinds) by (destruct k; simpl; auto 10).
  assert (R := proj1 (forallb_forall _ _) cur_honours_sweep k H). unfold honours_own in R. rewrite F in R.
  now rewrite orb_false_r in R.
Qed.

Lemma cur_dense_history_free : forall h i o d,
  nth_error (s_ops (run cur h)) i = Some o -> is_fmm (o_kind o) = false -> o_cached o = Some d ->
  exists p, o_snapshot o = Some p /\
            d = created_desc cur (o_kind o) (o_cparams o) ++ assemble_desc cur (o_kind o) p.
Proof. intros h i o d H F C. eapply own_history_free; eauto using cur_explicit_parameters_honoured, cur_pure. Qed.

Lemma cur_fresh_process : forall k args p, is_fmm k = false ->
  observe (run cur [CreateOp k args (Some p); WeakForm 0]) 0 = Some (fresh_desc cur k p).
Proof. intros. apply fresh_run_own; auto using cur_explicit_parameters_honoured. Qed.

(* the boundary-operator kinds bind all their parameters at first assembly, the dense potential at construction *)
Definition binds_at (k : kind) (b : btime) : bool := forallb (fun r => is_time (snd r) b) (reads_of cur k).
Lemma cur_binding_times :
  binds_at KDense Assemble = true /\ binds_at KSingular Assemble = true /\ binds_at KSparse Assemble = true /\
  binds_at KPotential Create = true.
Proof. vm_compute. auto. Qed.

(* the cache keys of the current source, exactly: what the cached FMM interfaces are built from but not keyed on
   (recorded finding C18:fmm-cache:...); a key that loses one more input, or an interface that reads one more parameter
   without keying on it, changes these lists and breaks the lemma *)
Lemma cur_cache_keys :
  missing cur CFmm = [(FDepth, Own); (FNear, Global); (QReg, Own)] /\
  missing cur CFmmPotential = [(FDepth, Global); (FNcrit, Global); (FOrder, Global); (QReg, Global)] /\
  fst (cache_of cur CFmm) = [(FOrder, Own); (FNcrit, Own)] /\ fst (cache_of cur CFmmPotential) = [].
Proof. vm_compute. auto. Qed.

(* which parameters the FMM assemblers read through the global object (recorded finding C18:fmm:explicit-...) *)
Definition global_reads (k : kind) : list field :=
  map (fun r => fst (fst r)) (filter (fun r => src_eqb (snd (fst r)) Global) (reads_of cur k)).
Lemma cur_fmm_global_reads : global_reads KFmm = [QReg] /\ global_reads KFmmPotential = [QReg].
Proof. vm_compute. auto. Qed.

(* assembling any derived operator (-A, alpha*A, A-B, A*B, ...) leaves every cached weak form as it was: all histories *)
Lemma cur_derived_assembly_pure : forall h' s i d, observe s i = Some d -> observe (fold_left (step cur) h' s) i = Some d.
Proof. apply cached_write_once. exact cur_pure. Qed.
