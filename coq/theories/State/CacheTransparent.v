(* C18 -- when the key of a cache contains every input read while building the cached value, the cache is
   transparent: for ALL histories the descriptor of an FMM operator is exactly what is computed from the parameter
   objects (its own and the global one) at the moment of its first assembly / construction; no earlier step enters. *)
From Coq Require Import ZArith List Bool Lia Arith.
From BV Require Import State.Caches State.CacheProofs.
Import ListNotations.

Definition rs_eqb (a b : field * src) : bool := field_eqb (fst a) (fst b) && src_eqb (snd a) (snd b).

Lemma field_eqb_eq : forall a b, field_eqb a b = true -> a = b.
Proof. destruct a, b; simpl; intro H; try reflexivity; discriminate. Qed.
Lemma src_eqb_eq : forall a b, src_eqb a b = true -> a = b.
Proof. destruct a, b; simpl; intro H; try reflexivity; discriminate. Qed.
Lemma rs_eqb_eq : forall a b, rs_eqb a b = true -> a = b.
Proof.
  intros [f s] [g t] H. unfold rs_eqb in H. simpl in H. apply andb_prop in H. destruct H as [H1 H2].
  apply field_eqb_eq in H1. apply src_eqb_eq in H2. now subst.
Qed.
Lemma list_eqb_eq : forall a b, list_eqb a b = true -> a = b.
Proof.
  induction a; destruct b; simpl; intro H; try reflexivity; try discriminate.
  apply andb_prop in H. destruct H as [H1 H2]. apply Z.eqb_eq in H1. subst. f_equal. now apply IHa.
Qed.

(* value of a build input recovered from the key *)
Fixpoint key_lookup (r : field * src) (keyf : list (field * src)) (key : list Z) : Z :=
  match keyf, key with
  | q :: keyf', v :: key' => if rs_eqb q r then v else key_lookup r keyf' key'
  | _, _ => 0%Z
  end.
Definition from_key (keyf : list (field * src)) (key : list Z) (buildf : list (field * src)) : desc :=
  map (fun r => (fst r, key_lookup r keyf key)) buildf.

Section Transparent.
  Variable T : tables.
  Hypothesis pure : t_pure T = true.

  Lemma key_lookup_value : forall s pid r keyf,
    existsb (fun q => field_eqb (fst q) (fst r) && src_eqb (snd q) (snd r)) keyf = true ->
    key_lookup r keyf (map (fun q => snd (value s pid q)) keyf) = snd (value s pid r).
  Proof.
    intros s pid r. induction keyf as [|q keyf IH]; simpl; intro H; [discriminate|].
    fold (rs_eqb q r) in H. destruct (rs_eqb q r) eqn:E.
    - apply rs_eqb_eq in E. now subst.
    - simpl in H. now apply IH.
  Qed.

  Lemma build_from_key : forall c s pid, key_sufficient T c = true ->
    map (value s pid) (snd (cache_of T c)) =
    from_key (fst (cache_of T c)) (map (fun q => snd (value s pid q)) (fst (cache_of T c))) (snd (cache_of T c)).
  Proof.
    intros c s pid K. unfold key_sufficient in K. destruct (cache_of T c) as [keyf buildf]. cbn [fst snd].
    unfold from_key. apply map_ext_in. intros r Hr. rewrite forallb_forall in K. specialize (K r Hr).
    rewrite key_lookup_value by assumption. destruct r; reflexivity.
  Qed.

  (* every stored entry is determined by its key *)
  Definition CInv (c : cache) (store : list (nat * list Z * desc)) : Prop :=
    forall e, In e store -> snd e = from_key (fst (cache_of T c)) (snd (fst e)) (snd (cache_of T c)).

  Lemma get_iface_transparent : forall c s store args pid, key_sufficient T c = true -> CInv c store ->
    fst (get_iface T s c store args pid) = map (value s pid) (snd (cache_of T c)) /\
    CInv c (snd (get_iface T s c store args pid)).
  Proof.
    intros c s store args pid K I. unfold get_iface.
    assert (B := build_from_key c s pid K). destruct (cache_of T c) as [keyf buildf] eqn:CO. cbn [fst snd] in *.
    unfold lookup_cache.
    destruct (find (fun e => Nat.eqb (fst (fst e)) args && list_eqb (snd (fst e)) (map (fun r => snd (value s pid r)) keyf))
                   store) as [e|] eqn:F.
    - cbn [fst snd]. split; [|assumption]. apply find_some in F. destruct F as [Hin Hk].
      apply andb_prop in Hk. destruct Hk as [_ Hk]. apply list_eqb_eq in Hk.
      rewrite (I e Hin), CO. cbn [fst snd]. rewrite Hk. now symmetry.
    - cbn [fst snd]. split; [reflexivity|]. intros e [<-|Hin]; [|now apply I].
      cbn [fst snd]. rewrite CO. cbn [fst snd]. exact B.
  Qed.

  Hypothesis K1 : key_sufficient T CFmm = true.
  Hypothesis K2 : key_sufficient T CFmmPotential = true.

  (* reads resolved against the two parameter objects *)
  Definition at_time (k : kind) (b : btime) (po pg : params) : desc :=
    map (fun r => (fst (fst r), (match snd (fst r) with Own => po | Global => pg end) (fst (fst r))))
        (filter (fun r => is_time (snd r) b) (reads_of T k)).
  Definition iface_at (c : cache) (po pg : params) : desc :=
    map (fun r => (fst r, (match snd r with Own => po | Global => pg end) (fst r))) (snd (cache_of T c)).

  Lemma own_reads_at : forall s k pid b, own_reads T s k pid b = at_time k b (param_obj s pid) (param_obj s O).
  Proof. intros. unfold own_reads, at_time. apply map_ext. intros [[f [|]] bt]; reflexivity. Qed.
  Lemma iface_value_at : forall s c pid,
    map (value s pid) (snd (cache_of T c)) = iface_at c (param_obj s pid) (param_obj s O).
  Proof. intros. unfold iface_at. apply map_ext. intros [f [|]]; reflexivity. Qed.

  Definition good2 (o : oper) : Prop :=
    match o_kind o with
    | KFmm => o_created o = at_time KFmm Create (o_cparams o) (o_gcparams o) /\
              forall d, o_cached o = Some d ->
                exists po pg, o_snapshot o = Some po /\ o_gsnapshot o = Some pg /\
                  d = o_created o ++ at_time KFmm Assemble po pg ++ iface_at CFmm po pg
    | KFmmPotential => o_created o = at_time KFmmPotential Create (o_cparams o) (o_gcparams o) ++
                                     iface_at CFmmPotential (o_cparams o) (o_gcparams o)
    | _ => True
    end.

  Definition Inv2 (s : st) : Prop :=
    CInv CFmm (s_fmm s) /\ CInv CFmmPotential (s_fmmpot s) /\ forall i o, nth_error (s_ops s) i = Some o -> good2 o.

  Lemma Inv2_init : Inv2 init.
  Proof. split; [intros e []|]. split; [intros e []|]. intros i o H. destruct i; discriminate. Qed.

  Lemma Inv2_mk_oper : forall s k args pid, Inv2 s -> Inv2 (mk_oper T s k args pid).
  Proof.
    intros s k args pid (C1 & C2 & G). unfold mk_oper.
    destruct k.
    1-5: (cbn [s_fmm s_fmmpot s_ops]; split; [assumption|]; split; [assumption|]; intros i o H;
          apply nth_error_snoc in H; destruct H as [H|H]; [now apply (G i)|]; subst; unfold good2; cbn [o_kind];
          try exact I).
    - (* KFmm *) cbn [o_created o_cparams o_gcparams o_cached]. split; [apply own_reads_at|discriminate].
    - (* KFmmPotential *)
      destruct (get_iface_transparent CFmmPotential s (s_fmmpot s) args pid K2 C2) as [D S].
      destruct (get_iface T s CFmmPotential (s_fmmpot s) args pid) as [d store]. cbn [fst snd] in *.
      cbn [s_fmm s_fmmpot s_ops]. split; [assumption|]. split; [assumption|]. intros i o H.
      apply nth_error_snoc in H. destruct H as [H|H]; [now apply (G i)|]. subst. unfold good2.
      cbn [o_kind o_created o_cparams o_gcparams]. now rewrite own_reads_at, iface_value_at.
  Qed.

  Lemma Inv2_params : forall s ps, Inv2 s ->
    Inv2 {| s_params := ps; s_ops := s_ops s; s_fmm := s_fmm s; s_fmmpot := s_fmmpot s; s_spaces := s_spaces s |}.
  Proof. intros s ps (C1 & C2 & G). repeat split; assumption. Qed.

  Lemma Inv2_do_weak : forall s j, Inv2 s -> Inv2 (do_weak T s j).
  Proof.
    intros s j (C1 & C2 & G). unfold do_weak. destruct (nth_error (s_ops s) j) as [oj|] eqn:J; [|repeat split; assumption].
    destruct (o_cached oj) eqn:Cj; [repeat split; assumption|].
    assert (Lj : (j < List.length (s_ops s))%nat) by (apply nth_error_Some; congruence).
    assert (Gj := G j oj J).
    destruct (o_kind oj) eqn:K.
    1-4,6: (cbn [s_fmm s_fmmpot s_ops]; split; [assumption|]; split; [assumption|]; intros i o H; cbn [s_ops] in H;
            destruct (Nat.eq_dec j i) as [->|N];
            [ rewrite nth_error_update_eq in H by assumption; injection H as <-; unfold good2 in *; cbn [o_kind o_created
                o_cparams o_gcparams]; rewrite K in Gj; try exact I; exact Gj
            | rewrite nth_error_update_neq in H by assumption; now apply (G i) ]).
    destruct (get_iface_transparent CFmm s (s_fmm s) (o_args oj) (o_pid oj) K1 C1) as [D S].
    destruct (get_iface T s CFmm (s_fmm s) (o_args oj) (o_pid oj)) as [d store]. cbn [fst snd] in *.
    cbn [s_fmm s_fmmpot s_ops]. split; [assumption|]. split; [assumption|]. intros i o H. cbn [s_ops] in H.
    destruct (Nat.eq_dec j i) as [->|N].
    - rewrite nth_error_update_eq in H by assumption. injection H as <-. unfold good2 in *. rewrite K in Gj.
      cbn [o_kind o_created o_cparams o_gcparams o_cached o_snapshot o_gsnapshot]. destruct Gj as [Cr _].
      split; [assumption|]. intros d0 Hd. injection Hd as <-. do 2 eexists. split; [reflexivity|]. split; [reflexivity|].
      now rewrite <- app_assoc, own_reads_at, D, iface_value_at.
    - rewrite nth_error_update_neq in H by assumption. now apply (G i).
  Qed.

  Lemma Inv2_do_mass : forall s sp, Inv2 s -> Inv2 (do_mass T s sp).
  Proof.
    intros s sp (C1 & C2 & G). unfold do_mass. destruct (nth_error (s_spaces s) sp) as [[|]|]; repeat split; assumption.
  Qed.

  Lemma Inv2_step : forall s a, Inv2 s -> Inv2 (step T s a).
  Proof.
    intros s a I. destruct a; cbn [step].
    - destruct own; [|now apply Inv2_mk_oper]. apply Inv2_mk_oper. now apply Inv2_params.
    - destruct (Nat.ltb pid (List.length (s_params s))); [now apply Inv2_mk_oper|assumption].
    - destruct (Nat.ltb pid (List.length (s_params s))); [now apply Inv2_params|assumption].
    - now apply Inv2_do_weak.
    - apply Inv2_do_mass. now apply Inv2_do_weak.
    - destruct I as (_ & _ & G). split; [intros e []|]. split; [intros e []|]. assumption.
    - destruct I as (C1 & C2 & G). repeat split; assumption.
    - now apply Inv2_do_mass.
    - rewrite pure. now apply Inv2_do_weak.
  Qed.

  Lemma Inv2_run : forall h s, Inv2 s -> Inv2 (fold_left (step T) h s).
  Proof. induction h; intros s I; [assumption|]. cbn [fold_left]. apply IHh. now apply Inv2_step. Qed.

  (* all histories: an assembled FMM operator was computed from the two parameter objects as they were at its first
     assembly (and construction); cache hits are indistinguishable from rebuilding *)
  Theorem fmm_cache_transparent : forall h i o d,
    nth_error (s_ops (run T h)) i = Some o -> o_kind o = KFmm -> o_cached o = Some d ->
    exists po pg, o_snapshot o = Some po /\ o_gsnapshot o = Some pg /\
      d = at_time KFmm Create (o_cparams o) (o_gcparams o) ++ at_time KFmm Assemble po pg ++ iface_at CFmm po pg.
  Proof.
    intros h i o d H K C. destruct (Inv2_run h init Inv2_init) as (_ & _ & G). specialize (G i o H). unfold good2 in G.
    rewrite K in G. destruct G as [Cr G]. destruct (G d C) as (po & pg & S1 & S2 & E). exists po, pg. now rewrite <- Cr.
  Qed.

  Theorem fmm_potential_cache_transparent : forall h i o,
    nth_error (s_ops (run T h)) i = Some o -> o_kind o = KFmmPotential ->
    o_created o = at_time KFmmPotential Create (o_cparams o) (o_gcparams o) ++
                  iface_at CFmmPotential (o_cparams o) (o_gcparams o).
  Proof.
    intros h i o H K. destruct (Inv2_run h init Inv2_init) as (_ & _ & G). specialize (G i o H). unfold good2 in G.
    now rewrite K in G.
  Qed.
End Transparent.

(* hypotheses are satisfiable: tables whose FMM keys contain all build inputs (the repaired source has this shape) *)
Definition repaired : tables :=
  {| t_reads := [ (KDense, [(APromote, Own, Assemble); (QReg, Own, Assemble); (QSing, Own, Assemble)]);
                  (KSingular, [(APromote, Own, Assemble); (QSing, Own, Assemble)]);
                  (KSparse, [(APromote, Own, Assemble); (QReg, Own, Assemble)]);
                  (KPotential, [(QReg, Own, Create)]);
                  (KFmm, [(QReg, Own, Assemble)]);
                  (KFmmPotential, [(QReg, Own, Create)]) ];
     t_caches := [ (CFmm, ([(FOrder, Own); (FNcrit, Own); (QReg, Own); (FDepth, Own); (FNear, Global)],
                           [(FDepth, Own); (FNcrit, Own); (FNear, Global); (FOrder, Own); (QReg, Own)]));
                   (CFmmPotential, ([(QReg, Own); (FDepth, Own); (FOrder, Own); (FNcrit, Own)],
                                    [(FDepth, Own); (FNcrit, Own); (FOrder, Own); (QReg, Own)])) ];
     t_mass_kind := KSparse; t_mass_global := true; t_pure := true |}.
Example repaired_keys_sufficient : key_sufficient repaired CFmm = true /\ key_sufficient repaired CFmmPotential = true.
Proof. split; reflexivity. Qed.
