(* C06 (deepening): symmetry of the singular part.
   (1) model side: if the rule of a singular pair (f,e) is the test/trial swap of the rule of (e,f) as a multiset
       (in particular for a coincident pair whose rule is swap-closed), the singular values of the scalar,
       hypersingular and Maxwell electric models are transposes of each other for a symmetric kernel;
   (2) rule side (finite, over the regions regenerated from duffy_galerkin.py): the coincident and the
       vertex-adjacent Duffy region lists are closed under swapping test and trial with equal weights, hence the
       rule built from ANY 1-D rule is swap-closed as a multiset; the edge-adjacent list (5 regions) is not - that is
       where the residual asymmetry of E and M comes from. *)
From Coq Require Import List Arith Bool Lia Ring Permutation QArith.
From BV Require Import AssemblyB.Defs AssemblyB.Sums AssemblyB.Pairsum AssemblyB.Model AssemblyB.Decomposition.
From BV Require Import Quad.Poly Quad.Rules.
From BVgen Require Import DuffyRegions.
Import ListNotations.

(* ---------------------------------------------------------------------------------------------------- *)
Section ModelSide.
Context {A : Type} {RO : ops A} {Hring : IsRing RO}.
Notation r0 := (o0 RO).
Notation radd := (oadd RO).
Notation rmul := (omul RO).
Notation rsub := (osub RO).
Add Ring ARing9 : (@is_ring A RO Hring).
Infix "+" := radd.
Infix "*" := rmul.
Infix "-" := rsub.
Notation sum := (sumf r0 radd).
Notation geom := (@geom A).
Notation space := (@space A).

Definition swap_pt (x : @spt A) : @spt A := (sp_s x, sp_t x, sp_w x).

Variables (g : geom) (st ss : space) (kern : @kernel A).
Hypothesis Hk : forall x y nx ny, kern x y nx ny = kern y x ny nx.

Theorem scalar_sing_val_swap : forall e f pts pts' i j,
  Permutation pts' (map swap_pt pts) ->
  scalar_sing_val RO g st ss kern e f pts i j = scalar_sing_val RO g ss st kern f e pts' j i.
Proof.
  intros e f pts pts' i j Hp. unfold scalar_sing_val.
  rewrite (sum_perm _ _ pts' (map swap_pt pts) Hp). rewrite sum_map. unfold jj.
  replace (g_intel g f * g_intel g e) with (g_intel g e * g_intel g f) by ring. f_equal.
  apply sum_ext_all. intros x. unfold skval, phit, phis, sxt, sys, swap_pt, sp_t, sp_s, sp_w. cbn [fst snd].
  rewrite (Hk (l2g_point RO g e (fst (fst (fst x))) (snd (fst (fst x))))). ring.
Qed.

Theorem ghyp_sing_val_swap : forall kap e f pts pts' i j,
  Permutation pts' (map swap_pt pts) ->
  ghyp_sing_val RO g st ss kern kap e f pts i j = ghyp_sing_val RO g ss st kern kap f e pts' j i.
Proof.
  intros kap e f pts pts' i j Hp. unfold ghyp_sing_val.
  rewrite (sum_perm _ _ pts' (map swap_pt pts) Hp). rewrite sum_map. unfold jj.
  replace (g_intel g f * g_intel g e) with (g_intel g e * g_intel g f) by ring. f_equal.
  apply sum_ext_all. intros x. unfold skval, sxt, sys, swap_pt, sp_t, sp_s, sp_w. cbn [fst snd].
  rewrite (Hk (l2g_point RO g e (fst (fst (fst x))) (snd (fst (fst x))))).
  unfold curl_prod_s, normal_prod_s.
  destruct (scurl_sing RO g st e i) as [[a0 a1] a2]. destruct (scurl_sing RO g ss f j) as [[b0 b1] b2].
  destruct (snormal RO g st e) as [[n0 n1] n2]. destruct (snormal RO g ss f) as [[m0 m1] m2].
  unfold dot3, vx, vy, vz. cbn [fst snd]. ring.
Qed.

Theorem efield_sing_val_swap : forall mik ik e f pts pts' i j,
  (forall x y, kern x y (vzero r0) (vzero r0) = kern y x (vzero r0) (vzero r0)) ->
  Permutation pts' (map swap_pt pts) ->
  efield_sing_val RO g kern mik ik e f pts i j = efield_sing_val RO g kern mik ik f e pts' j i.
Proof.
  intros mik ik e f pts pts' i j Hk0 Hp. unfold efield_sing_val.
  rewrite (sum_perm _ _ pts' (map swap_pt pts) Hp). rewrite sum_map. unfold jj.
  replace (g_intel g f * g_intel g e) with (g_intel g e * g_intel g f) by ring. f_equal.
  apply sum_ext_all. intros x. unfold skval0, piola_t, piola_s, sxt, sys, swap_pt, sp_t, sp_s, sp_w. cbn [fst snd].
  rewrite (Hk0 (l2g_point RO g e (fst (fst (fst x))) (snd (fst (fst x))))).
  destruct (piola RO g e i (fst (fst (fst x))) (snd (fst (fst x)))) as [[a0 a1] a2].
  destruct (piola RO g f j (fst (snd (fst x))) (snd (snd (fst x)))) as [[b0 b1] b2].
  unfold dot3, vx, vy, vz. cbn [fst snd].
  replace ((ik * g_intel g f) * g_intel g e) with ((ik * g_intel g e) * g_intel g f) by ring. ring.
Qed.

End ModelSide.

(* ---------------------------------------------------------------------------------------------------- *)
(* rule side: the regenerated Duffy regions *)
Definition region_swap (r : region) : region := mkRegion (rr0 r) (rr1 r) (rt0 r) (rt1 r) (rw r).
Definition qpoint_swap (p : qpoint) : qpoint := mkQ (q_r0 p) (q_r1 p) (q_t0 p) (q_t1 p) (Rules.q_w p).

Fixpoint pexpr_eqb (a b : pexpr) : bool :=
  match a, b with
  | PV i, PV j => Nat.eqb i j
  | PC c, PC d => Z.eqb c d
  | PAdd a1 a2, PAdd b1 b2 | PSub a1 a2, PSub b1 b2 | PMul a1 a2, PMul b1 b2 => pexpr_eqb a1 b1 && pexpr_eqb a2 b2
  | _, _ => false
  end.
Lemma pexpr_eqb_eq : forall a b, pexpr_eqb a b = true -> a = b.
Proof.
  induction a; destruct b; simpl; try discriminate; intros H.
  - apply Nat.eqb_eq in H. congruence.
  - apply Z.eqb_eq in H. congruence.
  - apply andb_true_iff in H. destruct H. f_equal; auto.
  - apply andb_true_iff in H. destruct H. f_equal; auto.
  - apply andb_true_iff in H. destruct H. f_equal; auto.
Qed.
Definition region_eqb (r s : region) : bool :=
  pexpr_eqb (rt0 r) (rt0 s) && pexpr_eqb (rt1 r) (rt1 s) && pexpr_eqb (rr0 r) (rr0 s) && pexpr_eqb (rr1 r) (rr1 s)
  && pexpr_eqb (rw r) (rw s).
Lemma region_eqb_eq : forall r s, region_eqb r s = true -> r = s.
Proof.
  intros [a b c d e] [a' b' c' d' e']. unfold region_eqb. simpl. intros H.
  repeat (apply andb_true_iff in H; destruct H as [H ?]).
  f_equal; apply pexpr_eqb_eq; assumption.
Qed.

(* the list is made of consecutive pairs (r, swap r) *)
Fixpoint paired (l : list region) : bool :=
  match l with
  | [] => true
  | a :: b :: t => region_eqb (region_swap a) b && region_eqb (region_swap b) a && paired t
  | _ => false
  end.

Lemma paired_perm : forall n l, (length l <= n)%nat -> paired l = true -> Permutation (map region_swap l) l.
Proof.
  induction n; intros l Hl Hp.
  - destruct l; [constructor|simpl in Hl; lia].
  - destruct l as [|a [|b t]]; [constructor|discriminate|].
    simpl in Hp. apply andb_true_iff in Hp. destruct Hp as [Hp Ht]. apply andb_true_iff in Hp. destruct Hp as [H1 H2].
    apply region_eqb_eq in H1. apply region_eqb_eq in H2. simpl. rewrite H1, H2.
    eapply perm_trans; [apply perm_swap|]. do 2 apply perm_skip. apply IHn; [simpl in Hl; lia|assumption].
Qed.

Definition paired_coincident : paired duffy_coincident = true. Proof. vm_compute. reflexivity. Qed.
Definition paired_vertex : paired duffy_vertex = true. Proof. vm_compute. reflexivity. Qed.
(* the edge-adjacent list has an odd number of regions: it cannot be swap-closed with equal multiplicities *)
Definition edge_not_paired : paired duffy_edge = false. Proof. vm_compute. reflexivity. Qed.

Lemma region_point_swap : forall test trial r,
  qpoint_swap (region_point test trial r) = region_point test trial (region_swap r).
Proof. intros [[a b] c] [[d e] f] r. reflexivity. Qed.

Lemma duffy_rule_swap : forall regs xw,
  map qpoint_swap (duffy_rule regs xw) = duffy_rule (map region_swap regs) xw.
Proof.
  intros. unfold duffy_rule. rewrite flat_map_concat_map, concat_map, map_map.
  rewrite (flat_map_concat_map _ (tensor xw)). f_equal. apply map_ext. intros test.
  rewrite flat_map_concat_map, concat_map, map_map. rewrite (flat_map_concat_map _ (tensor xw)). f_equal.
  apply map_ext. intros trial. rewrite !map_map. apply map_ext. intros r. apply region_point_swap.
Qed.

Lemma duffy_rule_perm : forall regs regs' xw, Permutation regs regs' ->
  Permutation (duffy_rule regs xw) (duffy_rule regs' xw).
Proof.
  intros regs regs' xw Hp. unfold duffy_rule.
  assert (G : forall (l : list (Q * Q * Q)) (F F' : Q * Q * Q -> list qpoint),
            (forall x, Permutation (F x) (F' x)) -> Permutation (flat_map F l) (flat_map F' l)).
  { induction l; intros; simpl; [constructor|]. apply Permutation_app; auto. }
  apply G. intros test. apply G. intros trial. apply Permutation_map. assumption.
Qed.

(* for every 1-D rule the coincident and the vertex-adjacent Duffy rules are swap-closed multisets of
   (test point, trial point, weight) *)
Theorem duffy_coincident_vertex_swap_closed : forall xw,
  Permutation (map qpoint_swap (duffy_rule duffy_coincident xw)) (duffy_rule duffy_coincident xw) /\
  Permutation (map qpoint_swap (duffy_rule duffy_vertex xw)) (duffy_rule duffy_vertex xw).
Proof.
  intros xw. split; rewrite duffy_rule_swap; apply duffy_rule_perm.
  - apply (paired_perm 6); [vm_compute; lia|exact paired_coincident].
  - apply (paired_perm 2); [vm_compute; lia|exact paired_vertex].
Qed.

(* combined statement for props/C06.v *)
Theorem singular_part_swap :
  forall (A : Type) (RO : ops A) (Hring : IsRing RO) (g : @geom A) (st ss : @space A) (kern : @kernel A)
         (mik ik k : A) (e f : nat) (pts pts' : list (@spt A)) (i j : nat),
  (forall x y nx ny, kern x y nx ny = kern y x ny nx) ->
  Permutation pts' (map swap_pt pts) ->
  scalar_sing_val RO g st ss kern e f pts i j = scalar_sing_val RO g ss st kern f e pts' j i /\
  ghyp_sing_val RO g st ss kern k e f pts i j = ghyp_sing_val RO g ss st kern k f e pts' j i /\
  efield_sing_val RO g kern mik ik e f pts i j = efield_sing_val RO g kern mik ik f e pts' j i.
Proof.
  intros A RO Hring g st ss kern mik ik k e f pts pts' i j Hk Hp. split; [|split].
  - apply scalar_sing_val_swap; assumption.
  - apply ghyp_sing_val_swap; assumption.
  - apply efield_sing_val_swap; [intros; apply Hk|assumption].
Qed.
