(* C07 / C02: potential model facts (coefficient mapping, kernel-sum form, additivity over element partitions)
   and "boundary operator between two grids = Galerkin-tested potential". *)
From Coq Require Import List Arith Bool Lia Ring Morphisms Setoid Permutation.
From BV Require Import AssemblyB.Defs AssemblyB.Sums AssemblyB.Pairsum AssemblyB.Model AssemblyB.PotModel
  AssemblyB.Decomposition.
Import ListNotations.

Section TwoGrids.
Context {A : Type} {RO : ops A} {Hring : IsRing RO}.
Notation r0 := (o0 RO).
Notation r1 := (o1 RO).
Notation radd := (oadd RO).
Notation rmul := (omul RO).
Notation rsub := (osub RO).
Notation ropp := (oopp RO).
Notation rinv := (oinv RO).
Add Ring ARing6 : (@is_ring A RO Hring).
Infix "+" := radd.
Infix "*" := rmul.
Infix "-" := rsub.
Notation sum := (sumf r0 radd).
Notation sumN := (sumn r0 radd).
Notation dl := (delta r0 r1).
Notation geom := (@geom A).
Notation space := (@space A).
Notation ent := (entry r0 radd).
Notation psum := (psum (RO:=RO)).
Notation V3 := (vec3 A).

Ltac sx := repeat first [apply sum_ext_all; intro | apply sumN_ext; intros ? _].

Lemma sum_opp' : forall X (f : X -> A) l, sum (fun x => r0 - f x) l = r0 - sum f l.
Proof. intros. induction l as [|x l IH]; simpl; [ring|]. rewrite IH. ring. Qed.
Lemma sumN_opp' : forall n (f : nat -> A), sumN n (fun x => r0 - f x) = r0 - sumN n f.
Proof. intros. unfold sumn. apply sum_opp'. Qed.

(* ---- coefficients in the full-grid local basis ------------------------------------------------------ *)
Lemma spmv_flat_map : forall X (gen : X -> list (trip A)) (l : list X) (c : nat -> A) idx,
  spmv r0 radd rmul (flat_map gen l) c idx = sum (fun x => spmv r0 radd rmul (gen x) c idx) l.
Proof. intros. unfold spmv. apply sum_flat_map. Qed.

Lemma full_coeffs_elem : forall (s : space) (c : nat -> A) e e' i,
  (i < s_nshape s)%nat ->
  spmv r0 radd rmul (map (fun i' => (Nat.add (Nat.mul (s_nshape s) e') i', s_l2g s e' i', s_mult s e' i'))
                         (seq 0 (s_nshape s))) c (Nat.add (Nat.mul (s_nshape s) e) i) =
  dl e' e * (s_mult s e i * c (s_l2g s e i)).
Proof.
  intros s c e e' i Hi. unfold spmv. rewrite sum_map. unfold t_row, t_col, t_val. cbn [fst snd].
  destruct (Nat.eq_dec e' e) as [->|Hne].
  - rewrite dl_same.
    rewrite (sum_ext _ _ (fun i' => dl i' i * (s_mult s e i' * c (s_l2g s e i')))).
    + pose proof (sum_delta_seq i (s_nshape s) (fun i' => s_mult s e i' * c (s_l2g s e i')) Hi) as E.
      unfold sumn in E. rewrite E. ring.
    + intros i' Hi'. apply in_seq in Hi'. unfold delta.
      destruct (Nat.eqb_spec i' i) as [->|Hn].
      * rewrite Nat.eqb_refl. ring.
      * destruct (Nat.eqb_spec (s_nshape s * e + i') (s_nshape s * e + i)); [lia|ring].
  - rewrite dl_diff by assumption. rewrite sum_zero_ext; [ring|].
    intros i' Hi'. apply in_seq in Hi'.
    destruct (Nat.eqb_spec (s_nshape s * e' + i') (s_nshape s * e + i)) as [E|]; [|reflexivity].
    exfalso. apply Hne. nia.
Qed.

Theorem full_coeffs_local : forall (s : space) supp (c : nat -> A) e i,
  NoDup supp -> In e supp -> (i < s_nshape s)%nat ->
  full_coeffs RO s supp c (Nat.add (Nat.mul (s_nshape s) e) i) = s_mult s e i * c (s_l2g s e i).
Proof.
  intros s supp c e i Hnd Hin Hi. unfold full_coeffs, map_to_full_grid. rewrite spmv_flat_map.
  rewrite (sum_ext_all _ _ (fun e' => dl e' e * (s_mult s e i * c (s_l2g s e i))))
    by (intros; apply full_coeffs_elem; assumption).
  apply (sum_delta_l e (fun _ => s_mult s e i * c (s_l2g s e i))); assumption.
Qed.

Theorem full_coeffs_outside : forall (s : space) supp (c : nat -> A) e i,
  ~ In e supp -> (i < s_nshape s)%nat ->
  full_coeffs RO s supp c (Nat.add (Nat.mul (s_nshape s) e) i) = r0.
Proof.
  intros s supp c e i Hin Hi. unfold full_coeffs, map_to_full_grid. rewrite spmv_flat_map.
  rewrite (sum_ext_all _ _ (fun e' => dl e' e * (s_mult s e i * c (s_l2g s e i))))
    by (intros; apply full_coeffs_elem; assumption).
  apply sum_delta_notin. assumption.
Qed.

(* ---- C02: the potential is the kernel sum over the quadrature points of the support ------------------- *)
Theorem potential_is_kernel_sum : forall (g : geom) (s : space) quad (kern : @kernel A) supp (c : nat -> A) (pt : V3),
  NoDup supp ->
  potential_eval RO g s quad kern supp c pt =
  sum (fun e => sum (fun q =>
     ((q_w q * g_intel g e) * kern pt (ypt RO g e q) (vzero r0) (snormal RO g s e)) *
     sumN (s_nshape s) (fun i => (s_mult s e i * c (s_l2g s e i)) * s_shape s i (q_u q) (q_v q))) quad) supp.
Proof.
  intros g s quad kern supp c pt Hnd. unfold potential_eval, scalar_potential.
  apply sum_ext. intros e He. apply sum_ext_all. intros q. unfold pot_tmp.
  rewrite (sumN_ext (s_nshape s) _ (fun i =>
     ((g_intel g e * q_w q) * s_shape s i (q_u q) (q_v q)) * (s_mult s e i * c (s_l2g s e i))))
    by (intros i Hi; rewrite full_coeffs_local by assumption; reflexivity).
  rewrite <- !sumN_scal_l. sx. ring.
Qed.

(* the localised space inherits normal multipliers, support and shapeset: running the kernel on it is running
   it on the space itself (this is what make_localised_space must guarantee) *)
Theorem localised_space_inherits : forall (g : geom) (s : space) quad (kern : @kernel A) supp (c : nat -> A) (pt : V3),
  (forall e, s_nmult (localised_space RO s supp) e = s_nmult s e) /\
  (forall i u v, s_shape (localised_space RO s supp) i u v = s_shape s i u v) /\
  s_nshape (localised_space RO s supp) = s_nshape s /\
  (forall e i, In e supp -> s_mult (localised_space RO s supp) e i = r1) /\
  potential_eval_impl RO g s quad kern supp c pt = potential_eval RO g s quad kern supp c pt.
Proof.
  intros. repeat split.
  intros e i He. unfold localised_space. cbn [s_mult].
  assert (G : forall l k, In e l -> exists p, pos_in l e k = Some p).
  { induction l as [|a l IH]; intros k H; [destruct H|]. simpl. destruct (Nat.eqb_spec a e); [eexists; reflexivity|].
    destruct H; [contradiction|]. apply IH. assumption. }
  destruct (G supp 0%nat He) as [p ->]. reflexivity.
Qed.

(* exact additivity over a partition of the support (same quadrature points => no error term) *)
Theorem potential_additive_app : forall (g : geom) (s : space) quad (kern : @kernel A) l1 l2 x pt,
  scalar_potential RO g s quad kern (l1 ++ l2) x pt =
  scalar_potential RO g s quad kern l1 x pt + scalar_potential RO g s quad kern l2 x pt.
Proof. intros. unfold scalar_potential. apply sum_app. Qed.

Theorem potential_additive_partition : forall (g : geom) (s : space) quad (kern : @kernel A) supp
    (inseg : nat -> bool) x pt,
  scalar_potential RO g s quad kern supp x pt =
  scalar_potential RO g s quad kern (filter inseg supp) x pt +
  scalar_potential RO g s quad kern (filter (fun e => negb (inseg e)) supp) x pt.
Proof. intros. unfold scalar_potential. apply sum_partition. Qed.

Theorem potential_perm : forall (g : geom) (s : space) quad (kern : @kernel A) l1 l2 x pt,
  Permutation l1 l2 ->
  scalar_potential RO g s quad kern l1 x pt = scalar_potential RO g s quad kern l2 x pt.
Proof. intros. unfold scalar_potential. apply sum_perm. assumption. Qed.

Lemma pot_tmp_linear : forall (g : geom) (s : space) (a b : A) x1 x2 e q,
  pot_tmp RO g s (fun n => a * x1 n + b * x2 n) e q = a * pot_tmp RO g s x1 e q + b * pot_tmp RO g s x2 e q.
Proof.
  intros. unfold pot_tmp. rewrite <- (sumN_scal_l _ a), <- (sumN_scal_l _ b), <- sumN_add. sx. ring.
Qed.

Theorem potential_linear : forall (g : geom) (s : space) quad (kern : @kernel A) supp (a b : A) x1 x2 pt,
  scalar_potential RO g s quad kern supp (fun n => a * x1 n + b * x2 n) pt =
  a * scalar_potential RO g s quad kern supp x1 pt + b * scalar_potential RO g s quad kern supp x2 pt.
Proof.
  intros. unfold scalar_potential. rewrite <- !sum_sum_scal, <- sum_sum_add. sx.
  rewrite pot_tmp_linear. ring.
Qed.

(* the whole-grid function = sum of its restrictions to segment spaces: if the full-grid coefficient vectors of
   the pieces agree with the whole one on their own elements, the potentials add up exactly *)
Theorem potential_segmentwise : forall (g : geom) (s : space) quad (kern : @kernel A) supp (inseg : nat -> bool)
    (x xa xb : nat -> A) pt,
  (forall e i, In e supp -> inseg e = true -> (i < s_nshape s)%nat ->
       xa (Nat.add (Nat.mul (s_nshape s) e) i) = x (Nat.add (Nat.mul (s_nshape s) e) i)) ->
  (forall e i, In e supp -> inseg e = false -> (i < s_nshape s)%nat ->
       xb (Nat.add (Nat.mul (s_nshape s) e) i) = x (Nat.add (Nat.mul (s_nshape s) e) i)) ->
  scalar_potential RO g s quad kern supp x pt =
  scalar_potential RO g s quad kern (filter inseg supp) xa pt +
  scalar_potential RO g s quad kern (filter (fun e => negb (inseg e)) supp) xb pt.
Proof.
  intros g s quad kern supp inseg x xa xb pt Ha Hb.
  rewrite (potential_additive_partition g s quad kern supp inseg). f_equal.
  - unfold scalar_potential. apply sum_ext. intros e He. apply filter_In in He. destruct He as [He Hs].
    sx. unfold pot_tmp. f_equal. apply sumN_ext. intros i Hi. rewrite Ha by assumption. reflexivity.
  - unfold scalar_potential. apply sum_ext. intros e He. apply filter_In in He. destruct He as [He Hs].
    apply negb_true_iff in Hs.
    sx. unfold pot_tmp. f_equal. apply sumN_ext. intros i Hi. rewrite Hb by assumption. reflexivity.
Qed.


(* ---- C07: boundary operator between two grids = Galerkin-tested potential ----------------------------- *)
Definition unit_vec (J : nat) : nat -> A := fun n => dl n J.

(* the test function of global dof I at quadrature point p of element e: sum_i [l2g(e,i) = I] mult(e,i) phi_i(p) *)
Definition test_fun (st : space) (I e : nat) (p : @qpt A) : A :=
  sumN (s_nshape st) (fun i => (dl (s_l2g st e i) I * s_mult st e i) * s_shape st i (q_u p) (q_v p)).

Lemma skip_false : forall (g : geom) e f, skip g false e f = false.
Proof. reflexivity. Qed.

Section TwoGridScalar.
Variables (gt gs : geom) (st ss : space) (quad : list (@qpt A)) (kern : @kernel A) (Et Es : list nat).
Hypothesis Hk : forall x y n1 n2 ny, kern x y n1 ny = kern x y n2 ny.   (* no dependence on the test normal *)
Hypothesis HEs : NoDup Es.

(* potential of the J-th trial basis function at a point *)
Lemma potential_of_basis : forall J (pt : V3),
  potential_eval RO gs ss quad kern Es (unit_vec J) pt =
  sum (fun f => sumN (s_nshape ss) (fun j => (dl (s_l2g ss f j) J * s_mult ss f j) *
      sum (fun q => kern pt (ypt RO gs f q) (vzero r0) (snormal RO gs ss f) *
                    ((g_intel gs f * q_w q) * s_shape ss j (q_u q) (q_v q))) quad)) Es.
Proof.
  intros J pt. unfold potential_eval, scalar_potential. apply sum_ext. intros f Hf.
  transitivity (sum (fun q => sumN (s_nshape ss) (fun j =>
      (dl (s_l2g ss f j) J * s_mult ss f j) *
      (kern pt (ypt RO gs f q) (vzero r0) (snormal RO gs ss f) *
         ((g_intel gs f * q_w q) * s_shape ss j (q_u q) (q_v q))))) quad).
  - apply sum_ext_all. intros q. unfold pot_tmp. rewrite <- sumN_scal_l. apply sumN_ext. intros j Hj.
    rewrite full_coeffs_local by assumption. unfold unit_vec. ring.
  - unfold sumn. rewrite sum_swap. apply sum_ext_all. intros j. apply sum_scal_l.
Qed.

Theorem two_grid_equals_tested_potential : forall I J,
  ent I J (scalar_regular RO gt gs st ss quad kern false Et Es) =
  sum (fun e => sum (fun p =>
      ((q_w p * g_intel gt e) * test_fun st I e p) *
      potential_eval RO gs ss quad kern Es (unit_vec J) (xt RO gt e p)) quad) Et.
Proof.
  intros I J. unfold scalar_regular. rewrite entry_reg_assemble.
  unfold Pairsum.psum, allpairs. rewrite sum_flat_map. apply sum_ext_all. intros e. rewrite sum_map.
  cbn [fst snd].
  (* right-hand side: insert the potential of the basis function, bring to the order f i j p q *)
  transitivity (sum (fun f => sumN (s_nshape st) (fun i => sumN (s_nshape ss) (fun j =>
     sum (fun p => sum (fun q =>
       (dl (s_l2g st e i) I * dl (s_l2g ss f j) J) *
       ((((kern (xt RO gt e p) (ys RO gs f q) (vzero r0) (snormal RO gs ss f) *
           (((q_w q * g_intel gs f) * g_intel gt e) * q_w p)) * s_shape ss j (q_u q) (q_v q)) *
          s_shape st i (q_u p) (q_v p)) * (s_mult st e i * s_mult ss f j))) quad) quad))) Es).
  { sx. rewrite skip_false. unfold scalar_loc, mult_fac. rewrite <- sum_scal_r, <- sum_scal_l. sx.
    rewrite <- sum_scal_r, <- sum_scal_l. sx. unfold tmpv, kval.
    rewrite (Hk _ _ (snormal RO gt st e) (vzero r0)). ring. }
  symmetry.
  transitivity (sum (fun p => sumN (s_nshape st) (fun i => sum (fun f => sumN (s_nshape ss) (fun j =>
     sum (fun q =>
       (dl (s_l2g st e i) I * dl (s_l2g ss f j) J) *
       ((((kern (xt RO gt e p) (ys RO gs f q) (vzero r0) (snormal RO gs ss f) *
           (((q_w q * g_intel gs f) * g_intel gt e) * q_w p)) * s_shape ss j (q_u q) (q_v q)) *
          s_shape st i (q_u p) (q_v p)) * (s_mult st e i * s_mult ss f j))) quad)) Es)) quad).
  { apply sum_ext_all. intros p. rewrite potential_of_basis. unfold test_fun.
    rewrite <- sumN_scal_l, <- sumN_scal_r. apply sumN_ext. intros i _.
    rewrite <- sum_scal_l. apply sum_ext_all. intros f. rewrite <- sumN_scal_l. apply sumN_ext. intros j _.
    rewrite <- !sum_scal_l. apply sum_ext_all. intros q. unfold ys, ypt. ring. }
  (* p i f j q -> f i j p q *)
  unfold sumn.
  rewrite sum_swap. (* i p f j q *)
  transitivity (sum (fun i => sum (fun f => sum (fun p => sum (fun j => sum (fun q =>
       (dl (s_l2g st e i) I * dl (s_l2g ss f j) J) *
       ((((kern (xt RO gt e p) (ys RO gs f q) (vzero r0) (snormal RO gs ss f) *
           (((q_w q * g_intel gs f) * g_intel gt e) * q_w p)) * s_shape ss j (q_u q) (q_v q)) *
          s_shape st i (q_u p) (q_v p)) * (s_mult st e i * s_mult ss f j))) quad) (seq 0 (s_nshape ss))) quad) Es)
       (seq 0 (s_nshape st))).
  { apply sum_ext_all. intros i. apply sum_swap. }
  rewrite sum_swap. (* f i p j q *)
  apply sum_ext_all. intros f. apply sum_ext_all. intros i. apply sum_swap.
Qed.

End TwoGridScalar.

(* ---- Maxwell magnetic field between two grids ---------------------------------------------------------- *)
Lemma comp_mkv : forall (f : nat -> A) c, (c < 3)%nat -> comp (mkv f) c = f c.
Proof. intros f c Hc. destruct c as [|[|[|c]]]; try lia; reflexivity. Qed.

Lemma triple_product : forall t d b : V3,
  dot3 radd rmul t (cross3 rmul rsub d b) = r0 - dot3 radd rmul d (cross3 rmul rsub t b).
Proof.
  intros [[t0 t1] t2] [[d0 d1] d2] [[b0 b1] b2]. unfold dot3, cross3, vx, vy, vz. cbn [fst snd]. ring.
Qed.

(* cross product with a vector given component-wise as a scaled finite combination *)
Lemma cross_comp_lin : forall (u val : V3) (sc : A) n (a : nat -> A) (b : nat -> V3) c,
  (c < 3)%nat ->
  (forall c', (c' < 3)%nat -> comp val c' = sc * sumN n (fun j => a j * comp (b j) c')) ->
  comp (cross3 rmul rsub u val) c = sc * sumN n (fun j => a j * comp (cross3 rmul rsub u (b j)) c).
Proof.
  intros u val sc n a b c Hc Hv.
  pose proof (Hv 0%nat ltac:(lia)) as H0. pose proof (Hv 1%nat ltac:(lia)) as H1.
  pose proof (Hv 2%nat ltac:(lia)) as H2.
  destruct val as [[v0 v1] v2]. destruct u as [[u0 u1] u2]. unfold comp, vx, vy, vz in H0, H1, H2. cbn [fst snd] in *.
  destruct c as [|[|[|c]]]; try lia; unfold cross3, comp, vx, vy, vz; cbn [fst snd].
  - rewrite H1, H2.
    transitivity (sc * (sumN n (fun j => u1 * (a j * snd (b j))) - sumN n (fun j => u2 * (a j * snd (fst (b j)))))).
    + rewrite !sumN_scal_l. ring.
    + f_equal. unfold sumn. rewrite <- sum_sub. sx. ring.
  - rewrite H0, H2.
    transitivity (sc * (sumN n (fun j => u2 * (a j * fst (fst (b j)))) - sumN n (fun j => u0 * (a j * snd (b j))))).
    + rewrite !sumN_scal_l. ring.
    + f_equal. unfold sumn. rewrite <- sum_sub. sx. ring.
  - rewrite H0, H1.
    transitivity (sc * (sumN n (fun j => u0 * (a j * snd (fst (b j)))) - sumN n (fun j => u1 * (a j * fst (fst (b j)))))).
    + rewrite !sumN_scal_l. ring.
    + f_equal. unfold sumn. rewrite <- sum_sub. sx. ring.
Qed.

Section TwoGridMfield.
Variables (gt gs : geom) (st ss : space) (quad : list (@qpt A)) (kern : @kernel A) (Et Es : list nat).
Variables (dist : V3 -> V3 -> A) (ik : A).
Hypothesis Hnt : s_nshape st = 3%nat.
Hypothesis Hns : s_nshape ss = 3%nat.
Hypothesis HEs : NoDup Es.

Definition sfac (x y : V3) : A :=
  (kern x y (vzero r0) (vzero r0) * (ik * dist x y - r1)) * rinv (dist x y * dist x y).

Lemma comp_vscal : forall (a : A) (v : V3) c, (c < 3)%nat -> comp (vscal rmul a v) c = a * comp v c.
Proof. intros a [[v0 v1] v2] c Hc. destruct c as [|[|[|c]]]; try lia; reflexivity. Qed.

Lemma mx_tmp1_unit : forall J f q c, In f Es -> (c < 3)%nat ->
  comp (mx_tmp1 RO gs ss (full_coeffs RO ss Es (unit_vec J)) f q) c =
  sumN 3 (fun j => (((q_w q * (s_mult ss f j * dl (s_l2g ss f j) J)) * g_elen gs f j) * g_intel gs f) *
                   comp (piola RO gs f j (q_u q) (q_v q)) c).
Proof.
  intros J f q c Hf Hc. unfold mx_tmp1. rewrite comp_mkv by assumption.
  rewrite (sumN_ext (s_nshape ss) _ (fun j =>
     (((q_w q * (s_mult ss f j * dl (s_l2g ss f j) J)) * g_elen gs f j) * g_intel gs f) *
                   comp (piola RO gs f j (q_u q) (q_v q)) c)).
  - rewrite Hns. reflexivity.
  - intros j Hj. rewrite full_coeffs_local by assumption. unfold unit_vec. ring.
Qed.

Lemma mfield_potential_of_basis : forall J (pt : V3) c, (c < 3)%nat ->
  comp (mfield_potential RO gs ss quad kern Es dist ik (full_coeffs RO ss Es (unit_vec J)) pt) c =
  sum (fun f => sumN 3 (fun j => ((dl (s_l2g ss f j) J * s_mult ss f j) * g_elen gs f j) *
      sum (fun q => (sfac pt (ypt RO gs f q) * (q_w q * g_intel gs f)) *
           comp (cross3 rmul rsub (vsub rsub pt (ypt RO gs f q)) (piola RO gs f j (q_u q) (q_v q))) c) quad)) Es.
Proof.
  intros J pt c Hc. unfold mfield_potential. rewrite comp_mkv by assumption.
  apply sum_ext. intros f Hf.
  transitivity (sum (fun q => sumN 3 (fun j =>
      ((dl (s_l2g ss f j) J * s_mult ss f j) * g_elen gs f j) *
      ((sfac pt (ypt RO gs f q) * (q_w q * g_intel gs f)) *
           comp (cross3 rmul rsub (vsub rsub pt (ypt RO gs f q)) (piola RO gs f j (q_u q) (q_v q))) c))) quad).
  - apply sum_ext_all. intros q. cbv zeta.
    rewrite (cross_comp_lin (vsub rsub pt (ypt RO gs f q)) _ (sfac pt (ypt RO gs f q)) 3
               (fun j => ((q_w q * (s_mult ss f j * dl (s_l2g ss f j) J)) * g_elen gs f j) * g_intel gs f)
               (fun j => piola RO gs f j (q_u q) (q_v q)) c Hc).
    + rewrite <- sumN_scal_l. sx. ring.
    + intros c' Hc'. rewrite comp_vscal by assumption. unfold k0, sfac. f_equal.
      rewrite mx_tmp1_unit by assumption. sx. ring.
  - unfold sumn. rewrite sum_swap. apply sum_ext_all. intros j. apply sum_scal_l.
Qed.

Theorem mfield_two_grid_equals_tested_potential : forall I J,
  ent I J (mfield_regular RO gt gs st ss quad kern false dist ik Et Es) =
  r0 - sum (fun e => sum (fun p =>
      sumN 3 (fun i => (((q_w p * g_intel gt e) * (dl (s_l2g st e i) I * s_mult st e i)) * g_elen gt e i) *
        dot3 radd rmul (piola RO gt e i (q_u p) (q_v p))
             (mfield_potential RO gs ss quad kern Es dist ik (full_coeffs RO ss Es (unit_vec J)) (xt RO gt e p))))
      quad) Et.
Proof.
  intros I J. unfold mfield_regular. rewrite entry_reg_assemble.
  unfold Pairsum.psum, allpairs. rewrite sum_flat_map. rewrite <- sum_opp'.
  apply sum_ext_all. intros e. rewrite sum_map. cbn [fst snd]. rewrite Hnt, Hns.
  transitivity (sum (fun f => sumN 3 (fun i => sumN 3 (fun j =>
     sum (fun p => sum (fun q =>
       (dl (s_l2g st e i) I * dl (s_l2g ss f j) J) *
       ((((s_mult st e i * s_mult ss f j) * g_elen gt e i) * g_elen gs f j) *
        ((sfac (xt RO gt e p) (ys RO gs f q) * (((q_w q * g_intel gs f) * g_intel gt e) * q_w p)) *
         dot3 radd rmul (vsub rsub (xt RO gt e p) (ys RO gs f q))
            (cross3 rmul rsub (piola RO gt e i (q_u p) (q_v p)) (piola RO gs f j (q_u q) (q_v q)))))) quad) quad))) Es).
  { sx. rewrite skip_false. unfold mfield_loc, mx_fac. rewrite <- sum_scal_r, <- sum_scal_l. sx.
    rewrite <- sum_scal_r, <- sum_scal_l. sx. unfold tmpv0, kval0, sfac. ring. }
  symmetry.
  transitivity (sum (fun p => sumN 3 (fun i => sum (fun f => sumN 3 (fun j =>
     sum (fun q =>
       (dl (s_l2g st e i) I * dl (s_l2g ss f j) J) *
       ((((s_mult st e i * s_mult ss f j) * g_elen gt e i) * g_elen gs f j) *
        ((sfac (xt RO gt e p) (ys RO gs f q) * (((q_w q * g_intel gs f) * g_intel gt e) * q_w p)) *
         dot3 radd rmul (vsub rsub (xt RO gt e p) (ys RO gs f q))
            (cross3 rmul rsub (piola RO gt e i (q_u p) (q_v p)) (piola RO gs f j (q_u q) (q_v q)))))) quad)) Es)) quad).
  { rewrite <- sum_opp'. apply sum_ext_all. intros p. rewrite <- sumN_opp'. apply sumN_ext. intros i _.
    rewrite dot3_sum.
    rewrite (sumN_ext 3 _ (fun c => comp (piola RO gt e i (q_u p) (q_v p)) c *
       sum (fun f => sumN 3 (fun j => ((dl (s_l2g ss f j) J * s_mult ss f j) * g_elen gs f j) *
         sum (fun q => (sfac (xt RO gt e p) (ypt RO gs f q) * (q_w q * g_intel gs f)) *
           comp (cross3 rmul rsub (vsub rsub (xt RO gt e p) (ypt RO gs f q)) (piola RO gs f j (q_u q) (q_v q))) c)
           quad)) Es))
      by (intros c Hc; rewrite mfield_potential_of_basis by assumption; reflexivity).
    (* pull the sum over components inside and use the triple product *)
    transitivity (r0 - sum (fun f => sumN 3 (fun j => sum (fun q =>
        (((q_w p * g_intel gt e) * (dl (s_l2g st e i) I * s_mult st e i)) * g_elen gt e i) *
        ((((dl (s_l2g ss f j) J * s_mult ss f j) * g_elen gs f j) *
          (sfac (xt RO gt e p) (ypt RO gs f q) * (q_w q * g_intel gs f))) *
         sumN 3 (fun c => comp (piola RO gt e i (q_u p) (q_v p)) c *
            comp (cross3 rmul rsub (vsub rsub (xt RO gt e p) (ypt RO gs f q)) (piola RO gs f j (q_u q) (q_v q))) c)))
        quad)) Es).
    { f_equal. rewrite <- sumN_scal_l.
      transitivity (sumN 3 (fun c => sum (fun f => sumN 3 (fun j => sum (fun q =>
        (((q_w p * g_intel gt e) * (dl (s_l2g st e i) I * s_mult st e i)) * g_elen gt e i) *
        ((((dl (s_l2g ss f j) J * s_mult ss f j) * g_elen gs f j) *
          (sfac (xt RO gt e p) (ypt RO gs f q) * (q_w q * g_intel gs f))) *
         (comp (piola RO gt e i (q_u p) (q_v p)) c *
            comp (cross3 rmul rsub (vsub rsub (xt RO gt e p) (ypt RO gs f q)) (piola RO gs f j (q_u q) (q_v q))) c)))
        quad)) Es)).
      - apply sumN_ext. intros c _. rewrite <- !sum_scal_l. sx. rewrite <- !sumN_scal_l. sx.
        rewrite <- !sum_scal_l. sx. ring.
      - unfold sumn. rewrite sum_swap. apply sum_ext_all; intros f.
        rewrite sum_swap. apply sum_ext_all; intros j. rewrite sum_swap. apply sum_ext_all; intros q.
        rewrite !sum_scal_l. reflexivity. }
    rewrite <- sum_opp'. sx. rewrite <- sumN_opp'. sx. rewrite <- sum_opp'. sx.
    rewrite <- dot3_sum. rewrite triple_product. unfold ys, ypt. ring. }
  unfold sumn.
  rewrite sum_swap.
  transitivity (sum (fun i => sum (fun f => sum (fun p => sum (fun j => sum (fun q =>
       (dl (s_l2g st e i) I * dl (s_l2g ss f j) J) *
       ((((s_mult st e i * s_mult ss f j) * g_elen gt e i) * g_elen gs f j) *
        ((sfac (xt RO gt e p) (ys RO gs f q) * (((q_w q * g_intel gs f) * g_intel gt e) * q_w p)) *
         dot3 radd rmul (vsub rsub (xt RO gt e p) (ys RO gs f q))
            (cross3 rmul rsub (piola RO gt e i (q_u p) (q_v p)) (piola RO gs f j (q_u q) (q_v q)))))) quad)
       (seq 0 3)) quad) Es) (seq 0 3)).
  { apply sum_ext_all. intros i. apply sum_swap. }
  rewrite sum_swap.
  apply sum_ext_all. intros f. apply sum_ext_all. intros i. apply sum_swap.
Qed.

End TwoGridMfield.

(* ---- Maxwell electric field between two grids: the part that is provable (vector-potential term) -------- *)
Section TwoGridEfield.
Variables (gt gs : geom) (st ss : space) (quad : list (@qpt A)) (kern : @kernel A) (Et Es : list nat).
Variables (mik ik : A).
Hypothesis Hnt : s_nshape st = 3%nat.
Hypothesis Hns : s_nshape ss = 3%nat.
Hypothesis HEs : NoDup Es.

(* the boundary integrand without the div-div term / with only the div-div term *)
Definition efield_vec_loc (e f i j : nat) : A :=
  sum (fun p => sum (fun q => tmpv0 RO gt gs kern e p f q *
      (mik * dot3 radd rmul (piola RO gt e i (q_u p) (q_v p)) (piola RO gs f j (q_u q) (q_v q)))) quad) quad.
Definition efield_div_loc (e f i j : nat) : A :=
  sum (fun p => sum (fun q => tmpv0 RO gt gs kern e p f q *
      ((four RO * rinv (g_intel gt e * g_intel gs f)) * rinv ik)) quad) quad.

Lemma efield_loc_split : forall e f i j,
  efield_loc RO gt gs quad kern mik ik e f i j = efield_vec_loc e f i j - efield_div_loc e f i j.
Proof.
  intros. unfold efield_loc, efield_vec_loc, efield_div_loc. unfold sumn.
  rewrite <- sum_sub. apply sum_ext_all. intros p. rewrite <- sum_sub. apply sum_ext_all. intros q. ring.
Qed.

Lemma efield_vec_potential_of_basis : forall J (pt : V3) c, (c < 3)%nat ->
  comp (efield_potential_vec RO gs ss quad kern Es mik (full_coeffs RO ss Es (unit_vec J)) pt) c =
  sum (fun f => sumN 3 (fun j => ((dl (s_l2g ss f j) J * s_mult ss f j) * g_elen gs f j) *
      sum (fun q => ((kern pt (ypt RO gs f q) (vzero r0) (vzero r0) * mik) * (q_w q * g_intel gs f)) *
           comp (piola RO gs f j (q_u q) (q_v q)) c) quad)) Es.
Proof.
  intros J pt c Hc. unfold efield_potential_vec. rewrite comp_mkv by assumption.
  apply sum_ext. intros f Hf.
  transitivity (sum (fun q => sumN 3 (fun j =>
      ((dl (s_l2g ss f j) J * s_mult ss f j) * g_elen gs f j) *
      (((kern pt (ypt RO gs f q) (vzero r0) (vzero r0) * mik) * (q_w q * g_intel gs f)) *
           comp (piola RO gs f j (q_u q) (q_v q)) c))) quad).
  - apply sum_ext_all. intros q. rewrite (mx_tmp1_unit gs ss Es Hns HEs) by assumption.
    unfold k0. rewrite <- !sumN_scal_l. apply sumN_ext. intros j _. ring.
  - unfold sumn. rewrite sum_swap. apply sum_ext_all. intros j. apply sum_scal_l.
Qed.

(* the vector-potential part of the boundary matrix is the tested vector-potential part of the electric
   potential (with the boundary coefficient -ik in place of the potential's +ik) *)
Theorem efield_vec_two_grid : forall I J,
  ent I J (reg_assemble RO gt st ss false Et Es efield_vec_loc (mx_fac RO gt gs st ss)) =
  sum (fun e => sum (fun p =>
      sumN 3 (fun i => (((q_w p * g_intel gt e) * (dl (s_l2g st e i) I * s_mult st e i)) * g_elen gt e i) *
        dot3 radd rmul (piola RO gt e i (q_u p) (q_v p))
             (efield_potential_vec RO gs ss quad kern Es mik (full_coeffs RO ss Es (unit_vec J)) (xt RO gt e p))))
      quad) Et.
Proof.
  intros I J. rewrite entry_reg_assemble.
  unfold Pairsum.psum, allpairs. rewrite sum_flat_map.
  apply sum_ext_all. intros e. rewrite sum_map. cbn [fst snd]. rewrite Hnt, Hns.
  transitivity (sum (fun f => sumN 3 (fun i => sumN 3 (fun j =>
     sum (fun p => sum (fun q =>
       (dl (s_l2g st e i) I * dl (s_l2g ss f j) J) *
       ((((s_mult st e i * s_mult ss f j) * g_elen gt e i) * g_elen gs f j) *
        (((kern (xt RO gt e p) (ys RO gs f q) (vzero r0) (vzero r0) * mik) *
          (((q_w q * g_intel gs f) * g_intel gt e) * q_w p)) *
         dot3 radd rmul (piola RO gt e i (q_u p) (q_v p)) (piola RO gs f j (q_u q) (q_v q))))) quad) quad))) Es).
  { apply sum_ext_all; intros f. apply sumN_ext; intros i _. apply sumN_ext; intros j _.
    rewrite skip_false. unfold efield_vec_loc, mx_fac. rewrite <- sum_scal_r, <- sum_scal_l.
    apply sum_ext_all; intros p. rewrite <- sum_scal_r, <- sum_scal_l. apply sum_ext_all; intros q.
    unfold tmpv0, kval0. ring. }
  symmetry.
  transitivity (sum (fun p => sumN 3 (fun i => sum (fun f => sumN 3 (fun j =>
     sum (fun q =>
       (dl (s_l2g st e i) I * dl (s_l2g ss f j) J) *
       ((((s_mult st e i * s_mult ss f j) * g_elen gt e i) * g_elen gs f j) *
        (((kern (xt RO gt e p) (ys RO gs f q) (vzero r0) (vzero r0) * mik) *
          (((q_w q * g_intel gs f) * g_intel gt e) * q_w p)) *
         dot3 radd rmul (piola RO gt e i (q_u p) (q_v p)) (piola RO gs f j (q_u q) (q_v q))))) quad)) Es)) quad).
  { apply sum_ext_all. intros p. apply sumN_ext. intros i _.
    rewrite dot3_sum.
    rewrite (sumN_ext 3 _ (fun c => comp (piola RO gt e i (q_u p) (q_v p)) c *
       sum (fun f => sumN 3 (fun j => ((dl (s_l2g ss f j) J * s_mult ss f j) * g_elen gs f j) *
         sum (fun q => ((kern (xt RO gt e p) (ypt RO gs f q) (vzero r0) (vzero r0) * mik) * (q_w q * g_intel gs f)) *
           comp (piola RO gs f j (q_u q) (q_v q)) c) quad)) Es))
      by (intros c Hc; rewrite efield_vec_potential_of_basis by assumption; reflexivity).
    rewrite <- sumN_scal_l.
    transitivity (sumN 3 (fun c => sum (fun f => sumN 3 (fun j => sum (fun q =>
        (((q_w p * g_intel gt e) * (dl (s_l2g st e i) I * s_mult st e i)) * g_elen gt e i) *
        ((((dl (s_l2g ss f j) J * s_mult ss f j) * g_elen gs f j) *
          ((kern (xt RO gt e p) (ypt RO gs f q) (vzero r0) (vzero r0) * mik) * (q_w q * g_intel gs f))) *
         (comp (piola RO gt e i (q_u p) (q_v p)) c * comp (piola RO gs f j (q_u q) (q_v q)) c)))
        quad)) Es)).
    - apply sumN_ext. intros c _. rewrite <- !sum_scal_l. apply sum_ext_all; intros f.
      rewrite <- !sumN_scal_l. apply sumN_ext; intros j _. rewrite <- !sum_scal_l. apply sum_ext_all; intros q. ring.
    - unfold sumn. rewrite sum_swap. apply sum_ext_all; intros f.
      rewrite sum_swap. apply sum_ext_all; intros j. rewrite sum_swap. apply sum_ext_all; intros q.
      rewrite !sum_scal_l. fold (sumN 3 (fun c => comp (piola RO gt e i (q_u p) (q_v p)) c *
                                                    comp (piola RO gs f j (q_u q) (q_v q)) c)).
      rewrite <- dot3_sum. unfold ys, ypt. ring. }
  unfold sumn.
  rewrite sum_swap.
  transitivity (sum (fun i => sum (fun f => sum (fun p => sum (fun j => sum (fun q =>
       (dl (s_l2g st e i) I * dl (s_l2g ss f j) J) *
       ((((s_mult st e i * s_mult ss f j) * g_elen gt e i) * g_elen gs f j) *
        (((kern (xt RO gt e p) (ys RO gs f q) (vzero r0) (vzero r0) * mik) *
          (((q_w q * g_intel gs f) * g_intel gt e) * q_w p)) *
         dot3 radd rmul (piola RO gt e i (q_u p) (q_v p)) (piola RO gs f j (q_u q) (q_v q))))) quad)
       (seq 0 3)) quad) Es) (seq 0 3)).
  { apply sum_ext_all. intros i. apply sum_swap. }
  rewrite sum_swap.
  apply sum_ext_all. intros f. apply sum_ext_all. intros i. apply sum_swap.
Qed.

End TwoGridEfield.

(* ---- Maxwell potentials: coefficients reach the kernels through map_to_full_grid, kernel-sum form ---------- *)
Section MaxwellPotential.
Variables (g : geom) (s : space) (quad : list (@qpt A)) (kern : @kernel A) (supp : list nat).
Variable dist : V3 -> V3 -> A.
Hypothesis Hsupp : NoDup supp.

(* the density at rule point q of element e: sum_i mult[e,i] c[l2g[e,i]] len_i Piola_i(q) w_q J_e *)
Definition mx_density (c : nat -> A) (e : nat) (q : @qpt A) (d : nat) : A :=
  sumN (s_nshape s) (fun i =>
    (((q_w q * (s_mult s e i * c (s_l2g s e i))) * g_elen g e i) * comp (piola RO g e i (q_u q) (q_v q)) d)
    * g_intel g e).
Definition mx_divdensity (c : nat -> A) (e : nat) (q : @qpt A) : A :=
  sumN (s_nshape s) (fun i => two RO * ((q_w q * (s_mult s e i * c (s_l2g s e i))) * g_elen g e i)).

Lemma mx_tmp1_full : forall c e q d, In e supp -> (d < 3)%nat ->
  comp (mx_tmp1 RO g s (full_coeffs RO s supp c) e q) d = mx_density c e q d.
Proof.
  intros c e q d He Hd. unfold mx_tmp1, mx_density. rewrite comp_mkv by assumption.
  apply sumN_ext. intros i Hi. rewrite full_coeffs_local by assumption. reflexivity.
Qed.
Lemma mx_tmp2_full : forall c e q, In e supp ->
  mx_tmp2 RO g s (full_coeffs RO s supp c) e q = mx_divdensity c e q.
Proof.
  intros c e q He. unfold mx_tmp2, mx_divdensity.
  apply sumN_ext. intros i Hi. rewrite full_coeffs_local by assumption. reflexivity.
Qed.

(* electric potential: sum over the support's quadrature points of
   K(x,y) * (ik * density_d - (x-y)_d (ik r - 1) divdensity / (ik r^2)) *)
Theorem efield_potential_is_kernel_sum : forall ik c pt d, (d < 3)%nat ->
  comp (efield_potential RO g s quad kern supp dist ik (full_coeffs RO s supp c) pt) d =
  sum (fun e => sum (fun q =>
     kern pt (ypt RO g e q) (vzero r0) (vzero r0) *
     (ik * mx_density c e q d
      - ((comp (vsub rsub pt (ypt RO g e q)) d * (ik * dist pt (ypt RO g e q) - r1)) * mx_divdensity c e q)
        * rinv ((ik * dist pt (ypt RO g e q)) * dist pt (ypt RO g e q)))) quad) supp.
Proof.
  intros ik c pt d Hd. unfold efield_potential. rewrite comp_mkv by assumption.
  apply sum_ext. intros e He. apply sum_ext_all. intros q. cbv zeta. unfold k0.
  rewrite mx_tmp1_full, mx_tmp2_full by assumption. reflexivity.
Qed.

(* magnetic potential: sum of (x-y) x (K (ik r - 1)/r^2 density) *)
Theorem mfield_potential_is_kernel_sum : forall ik c pt d, (d < 3)%nat ->
  comp (mfield_potential RO g s quad kern supp dist ik (full_coeffs RO s supp c) pt) d =
  sum (fun e => sum (fun q =>
     comp (cross3 rmul rsub (vsub rsub pt (ypt RO g e q))
        (vscal rmul ((kern pt (ypt RO g e q) (vzero r0) (vzero r0) * (ik * dist pt (ypt RO g e q) - r1))
                      * rinv (dist pt (ypt RO g e q) * dist pt (ypt RO g e q)))
               (mkv (mx_density c e q)))) d) quad) supp.
Proof.
  intros ik c pt d Hd. unfold mfield_potential. rewrite comp_mkv by assumption.
  apply sum_ext. intros e He. apply sum_ext_all. intros q. cbv zeta. unfold k0.
  assert (E : mx_tmp1 RO g s (full_coeffs RO s supp c) e q = mkv (mx_density c e q)).
  { pose proof (mx_tmp1_full c e q 0%nat He ltac:(lia)) as H0.
    pose proof (mx_tmp1_full c e q 1%nat He ltac:(lia)) as H1.
    pose proof (mx_tmp1_full c e q 2%nat He ltac:(lia)) as H2.
    destruct (mx_tmp1 RO g s (full_coeffs RO s supp c) e q) as [[t0 t1] t2].
    unfold comp, vx, vy, vz in H0, H1, H2. cbn [fst snd] in H0, H1, H2. unfold mkv. rewrite H0, H1, H2. reflexivity. }
  rewrite E. reflexivity.
Qed.

(* exact additivity over a partition of the support, as for the scalar potentials *)
Theorem mfield_potential_additive : forall ik x pt d (inseg : nat -> bool), (d < 3)%nat ->
  comp (mfield_potential RO g s quad kern supp dist ik x pt) d =
  comp (mfield_potential RO g s quad kern (filter inseg supp) dist ik x pt) d +
  comp (mfield_potential RO g s quad kern (filter (fun e => negb (inseg e)) supp) dist ik x pt) d.
Proof.
  intros. unfold mfield_potential. rewrite !comp_mkv by assumption. apply sum_partition.
Qed.
Theorem efield_potential_additive : forall ik x pt d (inseg : nat -> bool), (d < 3)%nat ->
  comp (efield_potential RO g s quad kern supp dist ik x pt) d =
  comp (efield_potential RO g s quad kern (filter inseg supp) dist ik x pt) d +
  comp (efield_potential RO g s quad kern (filter (fun e => negb (inseg e)) supp) dist ik x pt) d.
Proof.
  intros. unfold efield_potential. rewrite !comp_mkv by assumption. apply sum_partition.
Qed.
End MaxwellPotential.

(* grid_to_points: point number npts*e + q is the q-th rule point of element e *)
Theorem point_cloud_order : forall (g : geom) n (quad : list (@qpt A)) e q (d : V3) (dq : @qpt A),
  (e < n)%nat -> (q < length quad)%nat ->
  nth (Nat.add (Nat.mul (length quad) e) q) (grid_to_points RO g n quad) d =
  l2g_point RO g e (q_u (nth q quad dq)) (q_v (nth q quad dq)).
Proof.
  intros g n quad e q d dq He Hq. unfold grid_to_points.
  assert (G : forall k start, (e < k)%nat ->
     nth (Nat.add (Nat.mul (length quad) e) q)
         (flat_map (fun e0 => map (fun q0 => l2g_point RO g e0 (q_u q0) (q_v q0)) quad) (seq start k)) d =
     l2g_point RO g (start + e) (q_u (nth q quad dq)) (q_v (nth q quad dq))).
  { clear He. revert q Hq. induction e as [|e IH]; intros q Hq k start Hk.
    - destruct k as [|k]; [lia|]. simpl seq. simpl flat_map. rewrite Nat.mul_0_r, Nat.add_0_l, Nat.add_0_r.
      rewrite app_nth1 by (rewrite map_length; assumption).
      rewrite (nth_indep _ d (l2g_point RO g start (q_u dq) (q_v dq))) by (rewrite map_length; assumption).
      rewrite (map_nth (fun q0 => l2g_point RO g start (q_u q0) (q_v q0))). reflexivity.
    - destruct k as [|k]; [lia|]. simpl seq. simpl flat_map.
      rewrite app_nth2 by (rewrite map_length; nia). rewrite map_length.
      replace (length quad * S e + q - length quad)%nat with (length quad * e + q)%nat by nia.
      rewrite (IH q Hq k (S start)) by lia. f_equal; lia. }
  rewrite (G n 0%nat He). reflexivity.
Qed.

End TwoGrids.

Arguments unit_vec {A} RO.
Arguments mx_density {A} RO.
Arguments mx_divdensity {A} RO.
Arguments test_fun {A} RO.
Arguments sfac {A} RO.
Arguments efield_vec_loc {A} RO.
Arguments efield_div_loc {A} RO.
