(* Hand model (tie H) of the FMM glue: api/space/space.py map_space_to_points(_impl), api/fmm/fmm_assembler.py
   (get_normals, compute_p1_curl_transformation, compute_rwg_basis_transform, compute_rwg_div_transform, the
   evaluate_* closures for boundary and potential operators), api/fmm/exafmm.py ExafmmInterface.evaluate and
   api/fmm/helpers.py near-field correction over element_neighbors.
   Vectors over the quadrature-point cloud are modelled as functions of (element slot, rule point): slot s, rule
   point q stands for array index npts*s + (index of q) (grid_to_points order, C07_point_cloud_order).
   Parameters: ring operations, geometry, spaces, rule, the 4-component kernel of the exact point evaluator
   (value and target gradient), the element_neighbors lists, the singular part.  No proofs in this file. *)
From Coq Require Import List Arith Bool.
From BV Require Import AssemblyB.Defs AssemblyB.Model.
Import ListNotations.

Section FmmModel.
Context {A : Type}.
Variable RO : ops A.
Notation r0 := (o0 RO).
Notation r1 := (o1 RO).
Notation radd := (oadd RO).
Notation rmul := (omul RO).
Notation rsub := (osub RO).
Notation rinv := (oinv RO).
Infix "+" := radd.
Infix "*" := rmul.
Infix "-" := rsub.
Notation sum := (sumf r0 radd).
Notation sumN := (sumn r0 radd).
Notation V3 := (vec3 A).
Notation geom := (@geom A).
Notation space := (@space A).
Notation qpt := (@qpt A).

(* Which indexing the current source uses (regenerated from the source by translators/fmm_indexing.py into
   gen/FmmIndexing.v; the theorems are stated for every version):
     v_transform_by_position  = the curl / RWG / div transforms address point slot nq*<position in support>+q
                                (pinned tree) instead of nq*<element>+q
     v_msp_store_by_element   = map_space_to_points_impl stores its output at [elem*nlocal:...] (pinned tree)
                                instead of [position*nlocal:...] *)
Record fmm_version : Type := mk_version { v_transform_by_position : bool; v_msp_store_by_element : bool }.
Variable ver : fmm_version.

Definition pvec : Type := nat -> qpt -> A.

(* (position in support_elements, element) *)
Definition enum (l : list nat) : list (nat * nat) := combine (seq 0 (length l)) l.

(* which point-cloud slot an element at position pos writes to *)
Definition slot_elem (pos e : nat) : nat := e.     (* map_space_to_points_impl: arange(elem*npts, ...) *)
(* curl / rwg / div transforms: iind = nq*element_index + point_index (position) resp. nq*element + point_index *)
Definition slot_pos (pos e : nat) : nat := if v_transform_by_position ver then pos else e.

(* A transformation matrix (coo, rows = points, columns = localised dofs 3*pos+i) composed with
   map_to_localised_space (value local_multipliers[e,i], column local2global[e,i]); dof_transformation = identity.
   [val e i q] = matrix entry of element e, shape function i, rule point q. *)
Definition to_points (slot : nat -> nat -> nat) (s : space) (supp : list nat)
    (val : nat -> nat -> qpt -> A) (x : nat -> A) : pvec :=
  fun sl q => sum (fun pe =>
      if Nat.eqb (slot (fst pe) (snd pe)) sl
      then sumN (s_nshape s) (fun i => val (snd pe) i q * (s_mult s (snd pe) i * x (s_l2g s (snd pe) i)))
      else r0) (enum supp).
(* the transposed map *)
Definition from_points (slot : nat -> nat -> nat) (s : space) (supp : list nat) (quad : list qpt)
    (val : nat -> nat -> qpt -> A) (r : pvec) : nat -> A :=
  fun I => sum (fun pe =>
      sumN (s_nshape s) (fun i =>
        if Nat.eqb (s_l2g s (snd pe) i) I
        then s_mult s (snd pe) i * sum (fun q => val (snd pe) i q * r (slot (fst pe) (snd pe)) q) quad
        else r0)) (enum supp).

(* map_space_to_points_impl writes its three output arrays at [elem*nlocal : (elem+1)*nlocal] although they have
   length nlocal*len(support): an element number >= len(support) makes the slice empty and the assignment raise *)
Definition msp_ok (supp : list nat) : bool :=
  if v_msp_store_by_element ver then forallb (fun e => Nat.ltb e (length supp)) supp else true.

(* matrix entries *)
Definition msp_val (g : geom) (s : space) (e i : nat) (q : qpt) : A :=
  (s_shape s i (q_u q) (q_v q) * q_w q) * g_intel g e.
Definition curl_val (g : geom) (s : space) (c : nat) (e i : nat) (q : qpt) : A :=
  comp (scurl RO g s e i) c * (q_w q * g_intel g e).
Definition rwg_val (g : geom) (c : nat) (e i : nat) (q : qpt) : A :=
  (g_elen g e i * comp (piola RO g e i (q_u q) (q_v q)) c) * (q_w q * g_intel g e).
Definition div_val (g : geom) (e i : nat) (q : qpt) : A := (two RO * g_elen g e i) * q_w q.

(* ---- the point evaluator ------------------------------------------------------------------------- *)
(* G4 x y 0 = Green's function, G4 x y (1+d) = d/dx_d of it (target gradient); helpers.py *_kernel *)
Variable G4 : V3 -> V3 -> nat -> A.
Definition gpt (g : geom) (e : nat) (q : qpt) : V3 := l2g_point RO g e (q_u q) (q_v q).

(* ExafmmInterface.evaluate: exact all-pairs sum minus the near field over element_neighbors (same grid) *)
Definition fmm_eval (gt gs : geom) (nEs : nat) (quad : list qpt) (nbrs : nat -> list nat) (v : pvec)
    (te : nat) (tp : qpt) (c : nat) : A :=
  sum (fun se => sum (fun sp => G4 (gpt gt te tp) (gpt gs se sp) c * v se sp) quad) (seq 0 nEs)
  - sum (fun se => sum (fun sp => G4 (gpt gt te tp) (gpt gs se sp) c * v se sp) quad) (nbrs te).
Definition no_nbrs : nat -> list nat := fun _ => [].

(* ---- boundary operators ---------------------------------------------------------------------------- *)
Section Boundary.
Variables (gt gs : geom) (st ss : space) (Et Es : list nat) (nEs : nat) (quad : list qpt).
Variable nbrs : nat -> list nat.
Variable Sing : list (trip A).                  (* singular_part.weak_form().to_sparse() as triplets *)

Definition sing_part (x : nat -> A) (I : nat) : A := spmv r0 radd rmul Sing x I.
Definition fmm := fmm_eval gt gs nEs quad nbrs.
Definition src_map (x : nat -> A) : pvec := to_points slot_elem ss Es (msp_val gs ss) x.
Definition trg_map (r : pvec) : nat -> A := from_points slot_elem st Et quad (msp_val gt st) r.
Definition maps_ok : bool := msp_ok Et && msp_ok Es.

(* make_default_scalar *)
Definition glue_single_layer (x : nat -> A) : option (nat -> A) :=
  if maps_ok then Some (fun I => trg_map (fun e q => fmm (src_map x) e q 0%nat) I + sing_part x I) else None.
Definition glue_adjoint_double_layer (x : nat -> A) : option (nat -> A) :=
  if maps_ok then Some (fun I =>
    trg_map (fun e q => sumN 3 (fun c => fmm (src_map x) e q (S c) * comp (snormal RO gt st e) c)) I
    + sing_part x I) else None.
Definition glue_double_layer (x : nat -> A) : option (nat -> A) :=
  if maps_ok then Some (fun I =>
    trg_map (fun e q => r0 - sumN 3 (fun c =>
        fmm (fun se sp => comp (snormal RO gs ss se) c * src_map x se sp) e q (S c))) I
    + sing_part x I) else None.

(* make_scalar_hypersingular *)
Definition curl_part (x : nat -> A) (I : nat) : A :=
  sumN 3 (fun c => from_points slot_pos st Et quad (curl_val gt st c)
                     (fun e q => fmm (to_points slot_pos ss Es (curl_val gs ss c) x) e q 0%nat) I).
Definition normal_part (x : nat -> A) (I : nat) : A :=
  trg_map (fun e q => sumN 3 (fun c =>
     comp (snormal RO gt st e) c * fmm (fun se sp => comp (snormal RO gs ss se) c * src_map x se sp) e q 0%nat)) I.
(* what make_scalar_hypersingular / the Maxwell evaluators do when their reuse guard holds: the test-side
   transforms ARE the trial-side ones (target_curls_trans = source_curls_trans, dual_rwg_map from the domain) *)
Definition curl_part_shared (x : nat -> A) (I : nat) : A :=
  sumN 3 (fun c => from_points slot_pos ss Es quad (curl_val gs ss c)
                     (fun e q => fmm (to_points slot_pos ss Es (curl_val gs ss c) x) e q 0%nat) I).
Definition glue_laplace_hypersingular (x : nat -> A) : option (nat -> A) :=
  if maps_ok then Some (fun I => curl_part x I + sing_part x I) else None.
Definition glue_helmholtz_hypersingular (k : A) (x : nat -> A) : option (nat -> A) :=
  if maps_ok then Some (fun I => (curl_part x I - (k * k) * normal_part x I) + sing_part x I) else None.
Definition glue_modhelm_hypersingular (k : A) (x : nat -> A) : option (nat -> A) :=
  if maps_ok then Some (fun I => (curl_part x I + (k * k) * normal_part x I) + sing_part x I) else None.

(* make_maxwell_electric_field_boundary / make_maxwell_magnetic_field_boundary (no map_to_points involved) *)
Definition to_rwg (c : nat) (x : nat -> A) : pvec := to_points slot_pos ss Es (rwg_val gs c) x.
Definition from_rwg (c : nat) (r : pvec) : nat -> A := from_points slot_pos st Et quad (rwg_val gt c) r.
Definition rwg_part (x : nat -> A) (I : nat) : A :=
  sumN 3 (fun c => from_rwg c (fun e q => fmm (to_rwg c x) e q 0%nat) I).
Definition rwg_part_shared (x : nat -> A) (I : nat) : A :=
  sumN 3 (fun c => from_points slot_pos ss Es quad (rwg_val gs c) (fun e q => fmm (to_rwg c x) e q 0%nat) I).
Definition glue_efield (mik ik : A) (x : nat -> A) (I : nat) : A :=
  ((sumN 3 (fun c => from_rwg c (fun e q => fmm (to_rwg c x) e q 0%nat) I)) * mik
   - rinv ik * from_points slot_pos st Et quad (div_val gt)
                 (fun e q => fmm (to_points slot_pos ss Es (div_val gs) x) e q 0%nat) I)
  + sing_part x I.
(* vals[c][:, d] = fmm(rwg_c x)[:, 1+d];  curl_0 = vals[2][:,1]-vals[1][:,2], curl_1 = vals[0][:,2]-vals[2][:,0],
   curl_2 = vals[1][:,0]-vals[0][:,1];  result = -(sum_c dual_rwg_map[c] @ curl_c) + singular *)
Definition mf_vals (x : nat -> A) (c d : nat) : nat -> qpt -> A := fun e q => fmm (to_rwg c x) e q (S d).
Definition mf_curl (x : nat -> A) (c : nat) : pvec :=
  match c with
  | 0%nat => fun e q => mf_vals x 2 1 e q - mf_vals x 1 2 e q
  | 1%nat => fun e q => mf_vals x 0 2 e q - mf_vals x 2 0 e q
  | _ => fun e q => mf_vals x 1 0 e q - mf_vals x 0 1 e q
  end.
Definition glue_mfield (x : nat -> A) (I : nat) : A :=
  (r0 - sumN 3 (fun c => from_rwg c (mf_curl x c) I)) + sing_part x I.
End Boundary.

(* ---- potential operators: targets are the evaluation points, no near-field correction ----------------- *)
Section Potential.
Variables (gs : geom) (ss : space) (Es : list nat) (nEs : nat) (quad : list qpt).

Definition fmm_pt (v : pvec) (pt : V3) (c : nat) : A :=
  sum (fun se => sum (fun sp => G4 pt (gpt gs se sp) c * v se sp) quad) (seq 0 nEs).
Definition psrc_map (x : nat -> A) : pvec := to_points slot_elem ss Es (msp_val gs ss) x.

Definition glue_pot_single_layer (x : nat -> A) : option (V3 -> A) :=
  if msp_ok Es then Some (fun pt => fmm_pt (psrc_map x) pt 0%nat) else None.
Definition glue_pot_double_layer (x : nat -> A) : option (V3 -> A) :=
  if msp_ok Es then Some (fun pt => r0 - sumN 3 (fun c =>
      fmm_pt (fun se sp => comp (snormal RO gs ss se) c * psrc_map x se sp) pt (S c))) else None.
Definition glue_pot_efield (ik : A) (x : nat -> A) (pt : V3) : V3 :=
  mkv (fun c => ik * fmm_pt (to_points slot_pos ss Es (rwg_val gs c) x) pt 0%nat
                - rinv ik * fmm_pt (to_points slot_pos ss Es (div_val gs) x) pt (S c)).
Definition glue_pot_mfield (x : nat -> A) (pt : V3) : V3 :=
  let vals c d := fmm_pt (to_points slot_pos ss Es (rwg_val gs c) x) pt (S d) in
  (vals 2%nat 1%nat - vals 1%nat 2%nat, vals 0%nat 2%nat - vals 2%nat 0%nat, vals 1%nat 0%nat - vals 0%nat 1%nat).
End Potential.

(* the dense matrix of a glue closure (for comparisons): column J = closure applied to the unit vector *)
Definition unitv (J : nat) : nat -> A := fun n => if Nat.eqb n J then r1 else r0.

End FmmModel.
