(* C17: final statements: potential glue, refutations for non-prefix supports, satisfiability examples. *)
From Coq Require Import List Arith Bool Lia Ring ZArith.
From BV Require Import AssemblyB.Defs AssemblyB.Sums AssemblyB.Pairsum AssemblyB.Model AssemblyB.PotModel
  AssemblyB.FmmModel AssemblyB.Decomposition AssemblyB.TwoGrids AssemblyB.FmmGlue AssemblyB.C06Thms.
Import ListNotations.

Section C17.
Context {A : Type} {RO : ops A} {Hring : IsRing RO}.
Variable ver : fmm_version.
Notation r0 := (o0 RO).
Notation r1 := (o1 RO).
Notation radd := (oadd RO).
Notation rmul := (omul RO).
Notation rsub := (osub RO).
Add Ring ARing8 : (@is_ring A RO Hring).
Infix "+" := radd.
Infix "*" := rmul.
Infix "-" := rsub.
Notation sum := (sumf r0 radd).
Notation sumN := (sumn r0 radd).
Notation geom := (@geom A).
Notation space := (@space A).
Notation qpt := (@qpt A).
Notation V3 := (vec3 A).

Section Pot.
Variable G4 : V3 -> V3 -> nat -> A.
Variables (gs : geom) (ss : space) (Es : list nat) (nEs : nat) (quad : list qpt) (kern : @kernel A).
Hypothesis HEs : NoDup Es.
Hypothesis HEs_lt : forall f, In f Es -> (f < nEs)%nat.
Hypothesis Hok : msp_ok ver Es = true.

Lemma src_elem_msp : forall x f q, In f Es ->
  src_elem (RO:=RO) ss (msp_val RO gs ss) x f q = pot_tmp RO gs ss (full_coeffs RO ss Es x) f q.
Proof.
  intros x f q Hf. unfold src_elem, pot_tmp. apply sumN_ext. intros j Hj.
  rewrite full_coeffs_local by assumption. unfold msp_val. ring.
Qed.

Theorem glue_pot_single_layer_correct : forall x,
  (forall a b nx ny, kern a b nx ny = G4 a b 0%nat) ->
  exists f, glue_pot_single_layer RO ver G4 gs ss Es nEs quad x = Some f /\
            forall pt, f pt = potential_eval RO gs ss quad kern Es x pt.
Proof.
  intros x Hk. unfold glue_pot_single_layer. rewrite Hok. eexists. split; [reflexivity|]. intros pt.
  unfold psrc_map. rewrite (fmm_pt_exact G4 gs ss Es nEs quad HEs_lt slot_elem _ x pt 0%nat (slot_elem_exact Es)).
  unfold potential_eval, scalar_potential. apply sum_ext. intros f Hf. apply sum_ext_all. intros q.
  rewrite Hk, src_elem_msp by assumption. reflexivity.
Qed.

Lemma fmm_pt_ext : forall (v v' : pvec) pt c, (forall se sp, v se sp = v' se sp) ->
  fmm_pt RO G4 gs nEs quad v pt c = fmm_pt RO G4 gs nEs quad v' pt c.
Proof. intros. unfold fmm_pt. apply sum_sum_ext. intros. rewrite H. reflexivity. Qed.

Theorem glue_pot_double_layer_correct : forall x,
  (forall a b nx ny, kern a b nx ny = r0 - sumN 3 (fun c => G4 a b (S c) * comp ny c)) ->
  exists f, glue_pot_double_layer RO ver G4 gs ss Es nEs quad x = Some f /\
            forall pt, f pt = potential_eval RO gs ss quad kern Es x pt.
Proof.
  intros x Hk. unfold glue_pot_double_layer. rewrite Hok. eexists. split; [reflexivity|]. intros pt.
  unfold psrc_map.
  rewrite (Pairsum.sumN_ext 3 _ (fun c => sum (fun f => sum (fun q => G4 pt (gpt RO gs f q) (S c) *
       (comp (snormal RO gs ss f) c * pot_tmp RO gs ss (full_coeffs RO ss Es x) f q)) quad) Es)).
  2:{ intros c _.
      rewrite (fmm_pt_ext _ (to_points RO slot_elem ss Es (fun f j q => comp (snormal RO gs ss f) c * msp_val RO gs ss f j q) x))
        by (intros se sp; apply (to_points_scale slot_elem ss Es (fun f => comp (snormal RO gs ss f) c));
            apply slot_elem_exact).
      rewrite (fmm_pt_exact G4 gs ss Es nEs quad HEs_lt slot_elem _ x pt (S c) (slot_elem_exact Es)).
      apply sum_ext. intros f Hf. apply sum_ext_all. intros q. f_equal.
      rewrite <- src_elem_msp by assumption. unfold src_elem. rewrite <- sumN_scal_l.
      apply Pairsum.sumN_ext. intros j _. ring. }
  unfold potential_eval, scalar_potential.
  transitivity (sum (fun f => sum (fun q => r0 - sumN 3 (fun c => G4 pt (gpt RO gs f q) (S c) *
       (comp (snormal RO gs ss f) c * pot_tmp RO gs ss (full_coeffs RO ss Es x) f q))) quad) Es).
  - rewrite sum_sum_opp. f_equal. unfold sumn. rewrite sum_swap. apply sum_ext_all; intros f.
    rewrite sum_swap. reflexivity.
  - apply sum_sum_ext. intros f q. rewrite Hk. unfold gpt, ypt. rewrite !sumN_3. ring.
Qed.
End Pot.

(* ---- prefix supports: the point maps are what they are meant to be ------------------------------------ *)
Theorem prefix_supports_ok : forall nt ns,
  maps_ok ver (seq 0 nt) (seq 0 ns) = true /\ slot_exact (slot_pos ver) (seq 0 nt) /\ slot_exact slot_elem (seq 0 nt).
Proof.
  intros. unfold maps_ok. rewrite !msp_ok_prefix. split; [reflexivity|split].
  - apply slot_pos_exact_prefix.
  - apply slot_elem_exact.
Qed.

(* ---- reuse of trial-side transforms on the test side is sound under equality of the spaces ... --------- *)
Theorem reuse_sound_under_space_equality :
  forall G4 (g : geom) (s : space) (E : list nat) nEs quad nbrs (x : nat -> A) I,
  curl_part_shared RO ver G4 g g s E nEs quad nbrs x I = curl_part RO ver G4 g g s s E E nEs quad nbrs x I /\
  rwg_part_shared RO ver G4 g g s E nEs quad nbrs x I = rwg_part RO ver G4 g g s s E E nEs quad nbrs x I.
Proof. intros. split; reflexivity. Qed.

(* ---- refutation 1: map_space_to_points on a support that is not a prefix raises ------------------------- *)
(* with the repaired indexing every support satisfies the support hypotheses *)
Theorem fixed_indexing_all_supports :
  v_transform_by_position ver = false -> v_msp_store_by_element ver = false ->
  forall Et Es, maps_ok ver Et Es = true /\ slot_exact (slot_pos ver) Et /\ slot_exact (slot_pos ver) Es.
Proof.
  intros H1 H2 Et Es. unfold maps_ok. rewrite !msp_ok_fixed by assumption. split; [reflexivity|split];
    apply slot_pos_exact_fixed; assumption.
Qed.

Theorem point_map_refuted :
  v_msp_store_by_element ver = true ->
  exists supp : list nat, NoDup supp /\ (forall i j, (i < j < length supp)%nat -> (nth i supp 0 < nth j supp 0)%nat) /\
    forall G4 (gt gs : geom) (st ss : space) nEs quad nbrs Sing (x : nat -> A),
      glue_single_layer RO ver G4 gt gs st ss supp supp nEs quad nbrs Sing x = None /\
      glue_laplace_hypersingular RO ver G4 gt gs st ss supp supp nEs quad nbrs Sing x = None /\
      glue_pot_single_layer RO ver G4 gs ss supp nEs quad x = None.
Proof.
  intros Hv. exists [1%nat]. split; [|split].
  - constructor; [intros []|constructor].
  - intros i j H. simpl in H. lia.
  - intros. unfold glue_single_layer, glue_laplace_hypersingular, glue_pot_single_layer, maps_ok, msp_ok.
    rewrite Hv. repeat split; reflexivity.
Qed.

End C17.

(* ---- refutation 2: the RWG / div / curl transforms use the support position as point index --------------- *)
(* integers with rinv = identity (a multiplicative function; exact inverse on the integration elements = 1) *)
Definition Zops1 : ops Z := mk_ops 0%Z 1%Z Z.add Z.mul Z.sub Z.opp (fun a => a).
Global Instance Z1_is_ring : IsRing Zops1.
Proof. exact Zth. Qed.

Definition w_geom : @geom Z :=
  {| g_corner := fun e => match e with 0%nat => (0, 0, 0) | 1%nat => (1, 1, 0) | _ => (5, 0, 1) end%Z;
     g_jac := fun e => match e with 1%nat => ((-1, 0, 0), (0, -1, 0)) | _ => ((1, 0, 0), (0, 1, 0)) end%Z;
     g_normal := fun _ => (0, 0, 1)%Z;
     g_intel := fun _ => 1%Z;
     g_jit := fun e => match e with 1%nat => ((-1, 0, 0), (0, -1, 0)) | _ => ((1, 0, 0), (0, 1, 0)) end%Z;
     g_elen := fun _ _ => 1%Z;
     g_verts := fun e => match e with 0%nat => (0, 1, 2) | 1%nat => (3, 2, 1) | _ => (4, 5, 6) end%nat |}.
(* RWG-type spaces: test on element 0 (a prefix), trial on element 2 (not a prefix) *)
Definition w_space : @space Z :=
  {| s_nshape := 3; s_l2g := fun _ i => i; s_mult := fun _ _ => 1%Z; s_nmult := fun _ => 1%Z;
     s_shape := p1_shape Zops1 |}.
Definition w_quad : list (@qpt Z) := [((0, 0), 1); ((1, 0), 1); ((0, 1), 1)]%Z.
Definition w_G4 : vec3 Z -> vec3 Z -> nat -> Z := fun x y c => (1 + vx x + 2 * vy x + 3 * vx y * vx y + vz y)%Z.
Definition pinned : fmm_version := mk_version true true.
Definition w_nbrs : nat -> list nat := fun e => match e with 0%nat => [0; 1] | 1%nat => [0; 1] | _ => [2] end%nat.

Theorem transform_point_index_refuted :
  (* all side conditions of glue_efield_correct hold except "position = element" on the trial support ... *)
  NoDup [2%nat] /\ slot_exact (slot_pos pinned) [0%nat] /\ ~ slot_exact (slot_pos pinned) [2%nat] /\
  (forall e f, In e [0%nat] -> In f [2%nat] ->
       memb f (w_nbrs e) = adjacent (g_verts w_geom e) (g_verts w_geom f)) /\
  (* ... and the glue differs from the dense model *)
  glue_efield Zops1 pinned w_G4 w_geom w_geom w_space w_space [0%nat] [2%nat] 3 w_quad w_nbrs [] 2%Z 1%Z
     (unitv Zops1 0) 0%nat <>
  matvec 0%Z Z.add Z.mul 3
     (fun I J => entry 0%Z Z.add I J
        (efield_dense Zops1 w_geom w_space w_space w_quad (fun a b _ _ => w_G4 a b 0%nat) (fun a b _ _ => w_G4 a b 0%nat)
                      [0%nat] [2%nat] [] 2%Z 1%Z))
     (unitv Zops1 0) 0%nat.
Proof.
  split; [|split; [|split; [|split]]].
  - constructor; [intros []|constructor].
  - intros pe [<-|[]]. reflexivity.
  - intros H. specialize (H (0%nat, 2%nat) (or_introl eq_refl)). discriminate H.
  - intros e f [<-|[]] [<-|[]]. reflexivity.
  - vm_compute. discriminate.
Qed.

(* ... and only then: same grid, same support, same dof map, but swapped normals on the test side *)
Definition fixed_version : fmm_version := mk_version false false.
Definition w_space_swapped : @space Z :=
  {| s_nshape := 3; s_l2g := fun _ i => i; s_mult := fun _ _ => 1%Z; s_nmult := fun _ => (-1)%Z;
     s_shape := p1_shape Zops1 |}.
Theorem reuse_unsound_on_equal_grids :
  curl_part_shared Zops1 fixed_version w_G4 w_geom w_geom w_space [0%nat; 2%nat] 3 w_quad w_nbrs (unitv Zops1 0) 0%nat <>
  curl_part Zops1 fixed_version w_G4 w_geom w_geom w_space_swapped w_space [0%nat; 2%nat] [0%nat; 2%nat] 3 w_quad w_nbrs
     (unitv Zops1 0) 0%nat.
Proof. vm_compute. discriminate. Qed.

(* the hypotheses of the glue theorems are satisfiable and the statement is not vacuous: a prefix support *)
Example C17_hypotheses_satisfiable :
  maps_ok pinned [0%nat; 1%nat] [0%nat; 1%nat] = true /\
  (forall e f, In e [0%nat; 1%nat] -> In f [0%nat; 1%nat] ->
       memb f (w_nbrs e) = adjacent (g_verts w_geom e) (g_verts w_geom f)) /\
  exists f, glue_single_layer Zops1 pinned w_G4 w_geom w_geom w_space w_space [0; 1]%nat [0; 1]%nat 3 w_quad w_nbrs [] (unitv Zops1 0)
            = Some f.
Proof.
  split; [reflexivity|split].
  - intros e f [<-|[<-|[]]] [<-|[<-|[]]]; reflexivity.
  - eexists. reflexivity.
Qed.
