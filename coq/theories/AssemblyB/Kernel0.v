(* C06: zero row/column sums of the hypersingular blocks (W.1 = 0 exactly) and transposition symmetry of the
   regular parts of the Maxwell and hypersingular models. *)
From Coq Require Import List Arith Bool Lia Ring Morphisms Setoid.
From BV Require Import AssemblyB.Defs AssemblyB.Sums AssemblyB.Pairsum AssemblyB.Model AssemblyB.Decomposition.
Import ListNotations.

Section Kernel0.
Context {A : Type} {RO : ops A} {Hring : IsRing RO}.
Notation r0 := (o0 RO).
Notation r1 := (o1 RO).
Notation radd := (oadd RO).
Notation rmul := (omul RO).
Notation rsub := (osub RO).
Notation ropp := (oopp RO).
Notation rinv := (oinv RO).
Add Ring ARing4 : (@is_ring A RO Hring).

Infix "+" := radd.
Infix "*" := rmul.
Infix "-" := rsub.
Notation sum := (sumf r0 radd).
Notation sumN := (sumn r0 radd).
Notation dl := (delta r0 r1).
Notation geom := (@geom A).
Notation space := (@space A).
Notation ent := (entry r0 radd).
Notation psum := (psum (RO:=RO)).
Notation masked := (masked RO).
Notation ghyp_loc := (ghyp_loc RO).

(* ---- row sums of a pair sum ----------------------------------------------------------------------- *)
Lemma psum_rowsum : forall X (L : list X) pe pf nt ns tg sg (val : X -> nat -> nat -> A) n I,
  (forall x j, In x L -> (j < ns)%nat -> (sg (pf x) j < n)%nat) ->
  sumN n (fun J => psum L pe pf nt ns tg sg val I J) =
  sum (fun x => sumN nt (fun i => dl (tg (pe x) i) I * sumN ns (fun j => val x i j))) L.
Proof.
  intros X L pe pf nt ns tg sg val n I Hsg. unfold psum, sumn at 1. rewrite sum_swap.
  apply sum_ext. intros x Hx. fold (sumN n (fun J => sumN nt (fun i => sumN ns (fun j =>
      (dl (tg (pe x) i) I * dl (sg (pf x) j) J) * val x i j)))).
  rewrite sumN_swap. apply sumN_ext. intros i _. rewrite sumN_swap. rewrite <- sumN_scal_l.
  apply sumN_ext. intros j Hj.
  rewrite (sumN_ext n _ (fun J => dl (sg (pf x) j) J * (dl (tg (pe x) i) I * val x i j))) by (intros; ring).
  unfold sumn. apply (sum_delta_seq' (sg (pf x) j) n (fun _ => dl (tg (pe x) i) I * val x i j)). auto.
Qed.

(* ---- hypersingular blocks --------------------------------------------------------------------------- *)
Lemma curl_prod_rowsum : forall (gt gs : geom) (st ss : space) e f i,
  sumN 3 (fun j => curl_prod RO gt gs st ss e f i j) = r0.
Proof.
  intros. rewrite sumN_3. unfold curl_prod. rewrite !dot3_sum. rewrite !sumN_3.
  pose proof (scurl_sum_zero gs ss f 0) as H0. pose proof (scurl_sum_zero gs ss f 1) as H1.
  pose proof (scurl_sum_zero gs ss f 2) as H2.
  set (t0 := comp (scurl RO gt st e i) 0). set (t1 := comp (scurl RO gt st e i) 1).
  set (t2 := comp (scurl RO gt st e i) 2).
  transitivity (t0 * ((comp (scurl RO gs ss f 0) 0 + comp (scurl RO gs ss f 1) 0) + comp (scurl RO gs ss f 2) 0)
              + t1 * ((comp (scurl RO gs ss f 0) 1 + comp (scurl RO gs ss f 1) 1) + comp (scurl RO gs ss f 2) 1)
              + t2 * ((comp (scurl RO gs ss f 0) 2 + comp (scurl RO gs ss f 1) 2) + comp (scurl RO gs ss f 2) 2)).
  - ring.
  - rewrite H0, H1, H2. ring.
Qed.

Lemma curl_prod_colsum : forall (gt gs : geom) (st ss : space) e f j,
  sumN 3 (fun i => curl_prod RO gt gs st ss e f i j) = r0.
Proof.
  intros. rewrite sumN_3. unfold curl_prod. rewrite !dot3_sum. rewrite !sumN_3.
  pose proof (scurl_sum_zero gt st e 0) as H0. pose proof (scurl_sum_zero gt st e 1) as H1.
  pose proof (scurl_sum_zero gt st e 2) as H2.
  set (t0 := comp (scurl RO gs ss f j) 0). set (t1 := comp (scurl RO gs ss f j) 1).
  set (t2 := comp (scurl RO gs ss f j) 2).
  transitivity (t0 * ((comp (scurl RO gt st e 0) 0 + comp (scurl RO gt st e 1) 0) + comp (scurl RO gt st e 2) 0)
              + t1 * ((comp (scurl RO gt st e 0) 1 + comp (scurl RO gt st e 1) 1) + comp (scurl RO gt st e 2) 1)
              + t2 * ((comp (scurl RO gt st e 0) 2 + comp (scurl RO gt st e 1) 2) + comp (scurl RO gt st e 2) 2)).
  - ring.
  - rewrite H0, H1, H2. ring.
Qed.

Lemma curl_prod_s_eq : forall (g : geom) (st ss : space) e f i j,
  curl_prod_s RO g st ss e f i j = curl_prod RO g g st ss e f i j.
Proof. intros. unfold curl_prod_s, curl_prod. rewrite !scurl_sing_eq. reflexivity. Qed.

(* local blocks of the Laplace hypersingular model: zero row and column sums, for every kernel / rule / geometry *)
Theorem lap_hyp_loc_rowsum : forall (gt gs : geom) (st ss : space) quad kern e f i,
  sumN 3 (fun j => lap_hyp_loc RO gt gs st ss quad kern e f i j) = r0.
Proof.
  intros. unfold lap_hyp_loc.
  transitivity (sum (fun p => sum (fun q => tmpv RO gt gs st ss kern e p f q *
                    sumN 3 (fun j => curl_prod RO gt gs st ss e f i j)) quad) quad).
  - unfold sumn. rewrite sum_swap. apply sum_ext_all. intros p. rewrite sum_swap. apply sum_ext_all. intros q.
    apply sum_scal_l.
  - rewrite curl_prod_rowsum. apply sum_zero_ext. intros p _. apply sum_zero_ext. intros q _. ring.
Qed.

Theorem lap_hyp_loc_colsum : forall (gt gs : geom) (st ss : space) quad kern e f j,
  sumN 3 (fun i => lap_hyp_loc RO gt gs st ss quad kern e f i j) = r0.
Proof.
  intros. unfold lap_hyp_loc.
  transitivity (sum (fun p => sum (fun q => tmpv RO gt gs st ss kern e p f q *
                    sumN 3 (fun i => curl_prod RO gt gs st ss e f i j)) quad) quad).
  - unfold sumn. rewrite sum_swap. apply sum_ext_all. intros p. rewrite sum_swap. apply sum_ext_all. intros q.
    apply sum_scal_l.
  - rewrite curl_prod_colsum. apply sum_zero_ext. intros p _. apply sum_zero_ext. intros q _. ring.
Qed.

Theorem lap_hyp_sing_rowsum : forall (g : geom) (st ss : space) kern e f pts i,
  sumN 3 (fun j => lap_hyp_sing_val RO g st ss kern e f pts i j) = r0.
Proof.
  intros. unfold lap_hyp_sing_val. rewrite sumN_scal_l. rewrite sumN_scal_l.
  rewrite (sumN_ext 3 _ (fun j => curl_prod RO g g st ss e f i j)) by (intros; apply curl_prod_s_eq).
  rewrite curl_prod_rowsum. ring.
Qed.

Theorem lap_hyp_sing_colsum : forall (g : geom) (st ss : space) kern e f pts j,
  sumN 3 (fun i => lap_hyp_sing_val RO g st ss kern e f pts i j) = r0.
Proof.
  intros. unfold lap_hyp_sing_val. rewrite sumN_scal_l. rewrite sumN_scal_l.
  rewrite (sumN_ext 3 _ (fun i => curl_prod RO g g st ss e f i j)) by (intros; apply curl_prod_s_eq).
  rewrite curl_prod_colsum. ring.
Qed.

(* the assembled Laplace hypersingular matrix (regular ++ singular) annihilates the constant vector when every
   local trial dof is a real dof with multiplier 1 (whole closed grid) *)
Theorem lap_hyp_annihilates_constants :
  forall (g : geom) (st ss : space) quad kr ks Et Es pairs n I,
  s_nshape ss = 3%nat ->
  (forall f j, (j < 3)%nat -> s_mult ss f j = r1) ->
  (forall f j, (j < 3)%nat -> (s_l2g ss f j < n)%nat) ->
  sumN n (fun J => ent I J (lap_hyp_dense RO g st ss quad kr ks Et Es pairs) * r1) = r0.
Proof.
  intros g st ss quad kr ks Et Es pairs n I Hns Hm Hl. unfold lap_hyp_dense.
  rewrite (sumN_ext n _ (fun J =>
     psum (allpairs Et Es) fst snd (s_nshape st) (s_nshape ss) (s_l2g st) (s_l2g ss)
       (fun x i j => (if skip g true (fst x) (snd x) then r0 else lap_hyp_loc RO g g st ss quad kr (fst x) (snd x) i j)
                     * mult_fac RO st ss (fst x) (snd x) i j) I J +
     psum pairs sp_e sp_f (s_nshape st) (s_nshape ss) (s_l2g st) (s_l2g ss)
       (fun pr i j => (lap_hyp_sing_val RO g st ss ks (sp_e pr) (sp_f pr) (sp_pts pr) i j * s_mult ss (sp_f pr) j)
                      * s_mult st (sp_e pr) i) I J)).
  2:{ intros J _. rewrite entry_app. unfold lap_hyp_regular, lap_hyp_singular.
      rewrite entry_reg_assemble, entry_sing_assemble.
      match goal with |- ?l = ?r => change (@eq A l r) end. ring. }
  rewrite sumN_add. rewrite !psum_rowsum by (intros; rewrite Hns in *; apply Hl; assumption).
  rewrite Hns.
  rewrite (sum_zero_ext _ _ (allpairs Et Es)).
  2:{ intros [e f] _. apply sumN_zero_ext. intros i _. cbn [fst snd].
      rewrite (sumN_ext 3 _ (fun j => (if skip g true e f then r0 else s_mult st e i) *
                                      lap_hyp_loc RO g g st ss quad kr e f i j)).
      2:{ intros j Hj. unfold mult_fac. rewrite Hm by assumption. destruct (skip g true e f); ring. }
      rewrite sumN_scal_l, lap_hyp_loc_rowsum. ring. }
  rewrite (sum_zero_ext _ _ pairs).
  2:{ intros pr _. apply sumN_zero_ext. intros i _.
      rewrite (sumN_ext 3 _ (fun j => s_mult st (sp_e pr) i *
                  lap_hyp_sing_val RO g st ss ks (sp_e pr) (sp_f pr) (sp_pts pr) i j)).
      2:{ intros j Hj. rewrite Hm by assumption. ring. }
      rewrite sumN_scal_l, lap_hyp_sing_rowsum. ring. }
  ring.
Qed.


(* ---- transposition of the regular part ---------------------------------------------------------------- *)
Lemma adjacent_sym : forall a b, adjacent a b = adjacent b a.
Proof.
  intros [[a0 a1] a2] [[b0 b1] b2]. unfold adjacent.
  rewrite (Nat.eqb_sym a0 b0), (Nat.eqb_sym a0 b1), (Nat.eqb_sym a0 b2), (Nat.eqb_sym a1 b0),
          (Nat.eqb_sym a1 b1), (Nat.eqb_sym a1 b2), (Nat.eqb_sym a2 b0), (Nat.eqb_sym a2 b1), (Nat.eqb_sym a2 b2).
  destruct (Nat.eqb b0 a0), (Nat.eqb b1 a0), (Nat.eqb b2 a0), (Nat.eqb b0 a1), (Nat.eqb b1 a1), (Nat.eqb b2 a1),
           (Nat.eqb b0 a2), (Nat.eqb b1 a2), (Nat.eqb b2 a2); reflexivity.
Qed.

Lemma skip_sym : forall (g : geom) identical e f, skip g identical e f = skip g identical f e.
Proof. intros. unfold skip. rewrite adjacent_sym. reflexivity. Qed.

Lemma psum_allpairs_swap : forall Et Es nt ns tg sg (val : nat * nat -> nat -> nat -> A) I J,
  psum (allpairs Et Es) fst snd nt ns tg sg val I J =
  psum (allpairs Es Et) snd fst nt ns tg sg (fun x => val (snd x, fst x)) I J.
Proof.
  intros. unfold psum, allpairs. rewrite !sum_flat_map.
  rewrite (sum_ext_all _ _ (fun e => sum (fun f => sumN nt (fun i => sumN ns (fun j =>
       (dl (tg e i) I * dl (sg f j) J) * val (e, f) i j))) Es)) by (intros; rewrite sum_map; reflexivity).
  rewrite sum_swap. apply sum_ext_all. intros f. rewrite sum_map. reflexivity.
Qed.

Theorem reg_transpose : forall (g : geom) identical (st ss : space) Et Es loc fac loc' fac' I J,
  (forall e f i j, In e Et -> In f Es -> (i < s_nshape st)%nat -> (j < s_nshape ss)%nat ->
     masked g identical loc e f i j * fac e f i j = masked g identical loc' f e j i * fac' f e j i) ->
  ent I J (reg_assemble RO g st ss identical Et Es loc fac) =
  ent J I (reg_assemble RO g ss st identical Es Et loc' fac').
Proof.
  intros. rewrite !entry_reg_assemble. rewrite psum_transpose. rewrite psum_allpairs_swap.
  apply psum_ext. intros [e f] j i Hin Hj Hi. apply in_allpairs in Hin. destruct Hin as [He Hf].
  cbn [fst snd]. apply (H e f i j); assumption.
Qed.

Section Symmetric.
Variables (g : geom) (st ss : space) (quad : list (@qpt A)) (kern : @kernel A) (identical : bool).
Variables (Et Es : list nat).

Lemma sum_sum_swap_ext : forall X (f h : X -> X -> A) (l : list X),
  (forall p q, f p q = h q p) ->
  sum (fun p => sum (fun q => f p q) l) l = sum (fun p => sum (fun q => h p q) l) l.
Proof. intros. rewrite sum_swap. apply sum_sum_ext. intros. apply H. Qed.

(* Maxwell electric field, regular part: E(test st, trial ss)' = E(test ss, trial st) for a symmetric kernel *)
Theorem efield_regular_transpose : forall mik ik I J,
  (forall x y, kern x y (vzero r0) (vzero r0) = kern y x (vzero r0) (vzero r0)) ->
  ent I J (efield_regular RO g g st ss quad kern identical mik ik Et Es) =
  ent J I (efield_regular RO g g ss st quad kern identical mik ik Es Et).
Proof.
  intros mik ik I J Hk. unfold efield_regular. apply reg_transpose. intros e f i j _ _ _ _.
  unfold masked. rewrite (skip_sym g identical f e). destruct (skip g identical e f); [ring|].
  assert (E : efield_loc RO g g quad kern mik ik e f i j = efield_loc RO g g quad kern mik ik f e j i).
  { unfold efield_loc. apply sum_sum_swap_ext. intros p q. unfold tmpv0, kval0. rewrite (Hk (xt RO g e p)).
    unfold xt, ys.
    destruct (piola RO g e i (q_u p) (q_v p)) as [[a0 a1] a2]. destruct (piola RO g f j (q_u q) (q_v q)) as [[b0 b1] b2].
    unfold dot3, vx, vy, vz. cbn [fst snd].
    replace (g_intel g f * g_intel g e) with (g_intel g e * g_intel g f) by ring. ring. }
  rewrite E. unfold mx_fac. ring.
Qed.

(* Maxwell magnetic field, regular part *)
Theorem mfield_regular_transpose : forall dist ik I J,
  (forall x y, kern x y (vzero r0) (vzero r0) = kern y x (vzero r0) (vzero r0)) ->
  (forall x y, dist x y = dist y x) ->
  ent I J (mfield_regular RO g g st ss quad kern identical dist ik Et Es) =
  ent J I (mfield_regular RO g g ss st quad kern identical dist ik Es Et).
Proof.
  intros dist ik I J Hk Hd. unfold mfield_regular. apply reg_transpose. intros e f i j _ _ _ _.
  unfold masked. rewrite (skip_sym g identical f e). destruct (skip g identical e f); [ring|].
  assert (E : mfield_loc RO g g quad kern dist ik e f i j = mfield_loc RO g g quad kern dist ik f e j i).
  { unfold mfield_loc. apply sum_sum_swap_ext. intros p q. unfold tmpv0, kval0. rewrite (Hk (xt RO g e p)).
    rewrite (Hd (xt RO g e p)). unfold xt, ys.
    destruct (piola RO g e i (q_u p) (q_v p)) as [[a0 a1] a2]. destruct (piola RO g f j (q_u q) (q_v q)) as [[b0 b1] b2].
    destruct (l2g_point RO g e (q_u p) (q_v p)) as [[x0 x1] x2].
    destruct (l2g_point RO g f (q_u q) (q_v q)) as [[y0 y1] y2].
    unfold dot3, cross3, vsub, vx, vy, vz. cbn [fst snd]. ring. }
  rewrite E. unfold mx_fac. ring.
Qed.

(* hypersingular regular part (any of the three): symmetric kernel incl. swapped normals *)
Theorem ghyp_regular_transpose : forall kap I J,
  (forall x y nx ny, kern x y nx ny = kern y x ny nx) ->
  ent I J (reg_assemble RO g st ss identical Et Es (ghyp_loc g g st ss quad kern kap) (mult_fac RO st ss)) =
  ent J I (reg_assemble RO g ss st identical Es Et (ghyp_loc g g ss st quad kern kap) (mult_fac RO ss st)).
Proof.
  intros kap I J Hk. apply reg_transpose. intros e f i j _ _ _ _.
  unfold masked. rewrite (skip_sym g identical f e). destruct (skip g identical e f); [ring|].
  assert (E : ghyp_loc g g st ss quad kern kap e f i j = ghyp_loc g g ss st quad kern kap f e j i).
  { unfold ghyp_loc. apply sum_sum_swap_ext. intros p q. unfold tmpv, kval. rewrite (Hk (xt RO g e p)).
    unfold xt, ys, curl_prod, normal_prod.
    destruct (scurl RO g st e i) as [[a0 a1] a2]. destruct (scurl RO g ss f j) as [[b0 b1] b2].
    destruct (snormal RO g st e) as [[n0 n1] n2]. destruct (snormal RO g ss f) as [[m0 m1] m2].
    unfold dot3, vx, vy, vz. cbn [fst snd]. ring. }
  rewrite E. unfold mult_fac. ring.
Qed.

End Symmetric.

End Kernel0.
