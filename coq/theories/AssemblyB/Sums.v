(* Lemmas on finite sums over a commutative ring (Section variables + ring_theory hypothesis) and on the
   triplet scatter of Defs.v. *)
From Coq Require Import List Arith Bool Lia Ring Permutation Morphisms Setoid.
From BV Require Import AssemblyB.Defs.
Import ListNotations.

Section Sums.
Context {A : Type} {RO : ops A} {Hring : IsRing RO}.
Notation r0 := (o0 RO).
Notation r1 := (o1 RO).
Notation radd := (oadd RO).
Notation rmul := (omul RO).
Notation rsub := (osub RO).
Notation ropp := (oopp RO).
Add Ring ARing : (@is_ring A RO Hring).

Infix "+" := radd.
Infix "*" := rmul.
Infix "-" := rsub.
Notation "- x" := (ropp x).
Notation sum := (sumf r0 radd).
Notation sumN := (sumn r0 radd).
Notation dl := (delta r0 r1).

Lemma sum_nil : forall X (f : X -> A), sum f [] = r0.
Proof. reflexivity. Qed.

Lemma sum_cons : forall X (f : X -> A) x l, sum f (x :: l) = f x + sum f l.
Proof. reflexivity. Qed.

Lemma sum_ext : forall X (f g : X -> A) l, (forall x, In x l -> f x = g x) -> sum f l = sum g l.
Proof.
  induction l as [|x l IH]; intros H; simpl; [reflexivity|].
  rewrite (H x (or_introl eq_refl)), IH; [reflexivity|]. intros y Hy. apply H. right. exact Hy.
Qed.

Lemma sum_ext_all : forall X (f g : X -> A) l, (forall x, f x = g x) -> sum f l = sum g l.
Proof. intros. apply sum_ext. auto. Qed.

Lemma sum_app : forall X (f : X -> A) l1 l2, sum f (l1 ++ l2) = sum f l1 + sum f l2.
Proof. induction l1 as [|x l IH]; intros; simpl; [ring|]. rewrite IH. ring. Qed.

Lemma sum_zero : forall X (l : list X), sum (fun _ => r0) l = r0.
Proof. induction l as [|x l IH]; simpl; [reflexivity|]. rewrite IH. ring. Qed.

Lemma sum_zero_ext : forall X (f : X -> A) l, (forall x, In x l -> f x = r0) -> sum f l = r0.
Proof. intros. rewrite (sum_ext _ f (fun _ => r0)); auto using sum_zero. Qed.

Lemma sum_add : forall X (f g : X -> A) l, sum (fun x => f x + g x) l = sum f l + sum g l.
Proof. induction l as [|x l IH]; simpl; [ring|]. rewrite IH. ring. Qed.

Lemma sum_sub : forall X (f g : X -> A) l, sum (fun x => f x - g x) l = sum f l - sum g l.
Proof. induction l as [|x l IH]; simpl; [ring|]. rewrite IH. ring. Qed.

Lemma sum_opp : forall X (f : X -> A) l, sum (fun x => - f x) l = - sum f l.
Proof. induction l as [|x l IH]; simpl; [ring|]. rewrite IH. ring. Qed.

Lemma sum_scal_l : forall X (c : A) (f : X -> A) l, sum (fun x => c * f x) l = c * sum f l.
Proof. induction l as [|x l IH]; simpl; [ring|]. rewrite IH. ring. Qed.

Lemma sum_scal_r : forall X (c : A) (f : X -> A) l, sum (fun x => f x * c) l = sum f l * c.
Proof. induction l as [|x l IH]; simpl; [ring|]. rewrite IH. ring. Qed.

Lemma sum_map : forall X Y (g : X -> Y) (f : Y -> A) l, sum f (map g l) = sum (fun x => f (g x)) l.
Proof. induction l as [|x l IH]; simpl; [reflexivity|]. rewrite IH. reflexivity. Qed.

Lemma sum_flat_map : forall X Y (g : X -> list Y) (f : Y -> A) l,
  sum f (flat_map g l) = sum (fun x => sum f (g x)) l.
Proof. induction l as [|x l IH]; simpl; [reflexivity|]. rewrite sum_app, IH. reflexivity. Qed.

Lemma sum_swap : forall X Y (f : X -> Y -> A) l1 l2,
  sum (fun x => sum (fun y => f x y) l2) l1 = sum (fun y => sum (fun x => f x y) l1) l2.
Proof.
  induction l1 as [|x l IH]; intros; simpl.
  - symmetry. apply sum_zero.
  - rewrite IH. rewrite <- sum_add. reflexivity.
Qed.

Lemma sum_perm : forall X (f : X -> A) l1 l2, Permutation l1 l2 -> sum f l1 = sum f l2.
Proof.
  induction 1; simpl; try congruence; ring.
Qed.

Lemma sum_filter : forall X (p : X -> bool) (f : X -> A) l,
  sum f (filter p l) = sum (fun x => if p x then f x else r0) l.
Proof.
  induction l as [|x l IH]; simpl; [reflexivity|].
  destruct (p x); simpl; rewrite IH; ring.
Qed.

Global Instance sum_proper X (l : list X) : Proper (pointwise_relation X eq ==> eq) (fun f => sumf r0 radd f l).
Proof. intros f g H. apply sum_ext_all. exact H. Qed.

Lemma sum_sum_scal : forall X Y (c : A) (f : X -> Y -> A) l1 l2,
  sum (fun x => sum (fun y => c * f x y) l2) l1 = c * sum (fun x => sum (fun y => f x y) l2) l1.
Proof.
  intros. rewrite <- sum_scal_l. apply sum_ext_all. intros. apply sum_scal_l.
Qed.

Lemma sum_sum_add : forall X Y (f g : X -> Y -> A) l1 l2,
  sum (fun x => sum (fun y => f x y + g x y) l2) l1 =
  sum (fun x => sum (fun y => f x y) l2) l1 + sum (fun x => sum (fun y => g x y) l2) l1.
Proof.
  intros. rewrite <- sum_add. apply sum_ext_all. intros. apply sum_add.
Qed.

Lemma sum_sum_ext : forall X Y (f g : X -> Y -> A) l1 l2, (forall x y, f x y = g x y) ->
  sum (fun x => sum (fun y => f x y) l2) l1 = sum (fun x => sum (fun y => g x y) l2) l1.
Proof. intros. apply sum_ext_all. intros. apply sum_ext_all. auto. Qed.

(* partition of a list by a predicate: exact additivity *)
Lemma sum_partition : forall X (p : X -> bool) (f : X -> A) l,
  sum f l = sum f (filter p l) + sum f (filter (fun x => negb (p x)) l).
Proof.
  induction l as [|x l IH]; simpl; [ring|].
  destruct (p x); simpl; rewrite IH; ring.
Qed.

(* delta *)
Lemma dl_same : forall a, dl a a = r1.
Proof. intros. unfold delta. rewrite Nat.eqb_refl. reflexivity. Qed.

Lemma dl_diff : forall a b, a <> b -> dl a b = r0.
Proof. intros. unfold delta. destruct (Nat.eqb_spec a b); [contradiction|reflexivity]. Qed.

Lemma dl_sym : forall a b, dl a b = dl b a.
Proof. intros. unfold delta. rewrite Nat.eqb_sym. reflexivity. Qed.

Lemma sum_delta_notin : forall (a : nat) (f : nat -> A) l, ~ In a l -> sum (fun x => dl x a * f x) l = r0.
Proof.
  intros. apply sum_zero_ext. intros x Hx. rewrite dl_diff; [ring|]. intros ->. contradiction.
Qed.

Lemma sum_delta_l : forall (a : nat) (f : nat -> A) l, NoDup l -> In a l ->
  sum (fun x => dl x a * f x) l = f a.
Proof.
  induction l as [|x l IH]; intros Hnd Hin; [destruct Hin|].
  inversion Hnd as [|? ? Hx Hnd']; subst. simpl. destruct Hin as [->|Hin].
  - rewrite dl_same, sum_delta_notin by assumption. ring.
  - rewrite IH by assumption. rewrite dl_diff; [ring|]. intros ->. contradiction.
Qed.

Lemma sum_delta_seq : forall (a n : nat) (f : nat -> A), a < n ->
  sumN n (fun x => dl x a * f x) = f a.
Proof. intros. unfold sumn. apply sum_delta_l; [apply seq_NoDup|]. apply in_seq. lia. Qed.

Lemma sum_delta_seq' : forall (a n : nat) (f : nat -> A), a < n ->
  sumN n (fun x => dl a x * f x) = f a.
Proof.
  intros. rewrite <- (sum_delta_seq a n f H). unfold sumn. apply sum_ext_all. intros. rewrite dl_sym. reflexivity.
Qed.

Lemma sum_delta_seq_one : forall (a n : nat), a < n -> sumN n (fun x => dl a x) = r1.
Proof.
  intros. transitivity (sumN n (fun x => dl a x * r1)).
  - unfold sumn. apply sum_ext_all. intros. ring.
  - apply (sum_delta_seq' a n (fun _ => r1)). assumption.
Qed.

(* entry of a triplet list, in delta form *)
Lemma entry_delta : forall I J (ts : list (trip A)),
  entry r0 radd I J ts = sum (fun t => dl (t_row t) I * dl (t_col t) J * t_val t) ts.
Proof.
  intros. unfold entry. apply sum_ext_all. intros t. unfold delta.
  destruct (Nat.eqb (t_row t) I), (Nat.eqb (t_col t) J); simpl; ring.
Qed.

Lemma entry_app : forall I J (t1 t2 : list (trip A)),
  entry r0 radd I J (t1 ++ t2) = entry r0 radd I J t1 + entry r0 radd I J t2.
Proof. intros. unfold entry. apply sum_app. Qed.

Lemma entry_nil : forall I J, entry r0 radd I J (@nil (trip A)) = r0.
Proof. reflexivity. Qed.

Lemma entry_flat_map : forall X I J (g : X -> list (trip A)) l,
  entry r0 radd I J (flat_map g l) = sum (fun x => entry r0 radd I J (g x)) l.
Proof. intros. unfold entry. apply sum_flat_map. Qed.

Lemma entry_map : forall X I J (g : X -> trip A) l,
  entry r0 radd I J (map g l) =
  sum (fun x => dl (t_row (g x)) I * dl (t_col (g x)) J * t_val (g x)) l.
Proof. intros. rewrite entry_delta, sum_map. reflexivity. Qed.

Lemma entry_perm : forall I J (t1 t2 : list (trip A)), Permutation t1 t2 ->
  entry r0 radd I J t1 = entry r0 radd I J t2.
Proof. intros. unfold entry. apply sum_perm. assumption. Qed.

(* sparse matvec = dense matvec of the entries *)
Lemma spmv_entry : forall (ts : list (trip A)) (x : nat -> A) n I,
  (forall t, In t ts -> t_col t < n) ->
  spmv r0 radd rmul ts x I = matvec r0 radd rmul n (fun I J => entry r0 radd I J ts) x I.
Proof.
  intros ts x n I Hc. unfold matvec, spmv.
  transitivity (sumN n (fun J => sum (fun t => dl (t_row t) I * dl (t_col t) J * t_val t * x J) ts)).
  - unfold sumn. rewrite sum_swap. apply sum_ext. intros t Ht.
    rewrite (sum_ext_all _ _ (fun J => dl (t_col t) J * (dl (t_row t) I * t_val t * x J))) by (intros; ring).
    pose proof (sum_delta_seq' (t_col t) n (fun J => dl (t_row t) I * t_val t * x J) (Hc t Ht)) as E.
    unfold sumn in E. rewrite E. clear E.
    unfold delta. destruct (Nat.eqb (t_row t) I); ring.
  - unfold sumn. apply sum_ext_all. intros J. rewrite entry_delta, <- sum_scal_r. reflexivity.
Qed.

End Sums.
