(* C06: final statements (closed, all parameters universally quantified) + satisfiability examples. *)
From Coq Require Import List Arith Bool Lia Ring ZArith.
From BV Require Import AssemblyB.Defs AssemblyB.Sums AssemblyB.Pairsum AssemblyB.Model AssemblyB.Decomposition
  AssemblyB.Kernel0.
Import ListNotations.

Section C06.
Context {A : Type} {RO : ops A} {Hring : IsRing RO}.
Notation r0 := (o0 RO).
Notation r1 := (o1 RO).
Notation radd := (oadd RO).
Notation rmul := (omul RO).
Notation rsub := (osub RO).
Notation rinv := (oinv RO).
Add Ring ARing5 : (@is_ring A RO Hring).
Infix "+" := radd.
Infix "*" := rmul.
Infix "-" := rsub.
Notation sumN := (sumn r0 radd).
Notation ent := (entry r0 radd).
Notation geom := (@geom A).
Notation space := (@space A).
Notation Cmat := (Cmat RO).
Notation Nmat := (Nmat RO).
Notation Rmat := (Rmat RO).
Notation Dmat := (Dmat RO).
Notation is_p1 := (is_p1 RO).
Notation kern0 := (kern0 RO).
Notation ghyp_loc := (ghyp_loc RO).
Notation ghyp_sing_val := (ghyp_sing_val RO).
Notation masked := (masked RO).

(* sum_c sum_r sum_s C_c[r,I] * V[r,s] * C'_c[s,J] *)
Definition congr3 (n : nat) (Pm Qm : nat -> nat -> nat -> A) (V : nat -> nat -> A) (I J : nat) : A :=
  sumN 3 (fun c => sumN n (fun r => sumN n (fun s => (Pm c r I * V r s) * Qm c s J))).
Definition congr1 (n : nat) (Pm Qm : nat -> nat -> A) (V : nat -> nat -> A) (I J : nat) : A :=
  sumN n (fun r => sumN n (fun s => (Pm r I * V r s) * Qm s J)).

Lemma congr3_add : forall n Pm Qm V1 V2 I J,
  congr3 n Pm Qm (fun r s => V1 r s + V2 r s) I J = congr3 n Pm Qm V1 I J + congr3 n Pm Qm V2 I J.
Proof.
  intros. unfold congr3. rewrite <- sumN_add. apply sumN_ext. intros c _.
  rewrite <- sumN_add. apply sumN_ext. intros r _. rewrite <- sumN_add. apply sumN_ext. intros s _. ring.
Qed.
Lemma congr1_add : forall n Pm Qm V1 V2 I J,
  congr1 n Pm Qm (fun r s => V1 r s + V2 r s) I J = congr1 n Pm Qm V1 I J + congr1 n Pm Qm V2 I J.
Proof.
  intros. unfold congr1.
  rewrite <- sumN_add. apply sumN_ext. intros r _. rewrite <- sumN_add. apply sumN_ext. intros s _. ring.
Qed.

Lemma congr3_ext : forall n Pm Qm V1 V2 I J, (forall r s, V1 r s = V2 r s) ->
  congr3 n Pm Qm V1 I J = congr3 n Pm Qm V2 I J.
Proof.
  intros. unfold congr3. apply sumN_ext. intros c _. apply sumN_ext. intros r _. apply sumN_ext. intros s _.
  rewrite H. reflexivity.
Qed.
Lemma congr1_ext : forall n Pm Qm V1 V2 I J, (forall r s, V1 r s = V2 r s) ->
  congr1 n Pm Qm V1 I J = congr1 n Pm Qm V2 I J.
Proof.
  intros. unfold congr1. apply sumN_ext. intros r _. apply sumN_ext. intros s _. rewrite H. reflexivity.
Qed.

(* ---------- hypersingular, regular model (any two grids / identical flag) ---------- *)
Theorem hyp_regular_decomposition :
  forall (gt gs : geom) (st ss : space) (quad : list (@qpt A)) (kern : @kernel A) (identical : bool)
         (Et Es : list nat) (nE : nat) (k : A) (I J : nat),
  is_p1 st -> is_p1 ss ->
  (forall e, In e Et -> (e < nE)%nat) -> (forall f, In f Es -> (f < nE)%nat) ->
  let V0 := fun r s => ent r s (scalar_regular RO gt gs (dp0_of RO st) (dp0_of RO ss) quad kern identical Et Es) in
  let V1 := fun r s => ent r s (scalar_regular RO gt gs (dp1_of RO st) (dp1_of RO ss) quad kern identical Et Es) in
  ent I J (helm_hyp_regular RO gt gs st ss quad kern identical k Et Es) =
    congr3 nE (Cmat gt st) (Cmat gs ss) V0 I J - (k * k) * congr3 (3 * nE) (Nmat gt st) (Nmat gs ss) V1 I J
  /\ ent I J (modhelm_hyp_regular RO gt gs st ss quad kern identical k Et Es) =
    congr3 nE (Cmat gt st) (Cmat gs ss) V0 I J + (k * k) * congr3 (3 * nE) (Nmat gt st) (Nmat gs ss) V1 I J
  /\ ent I J (lap_hyp_regular RO gt gs st ss quad kern identical Et Es) =
    congr3 nE (Cmat gt st) (Cmat gs ss) V0 I J.
Proof.
  intros gt gs st ss quad kern identical Et Es nE k I J Hst Hss HEt HEs V0 V1.
  pose proof (ghyp_regular_decomp gt gs st ss quad kern identical Et Es nE Hst Hss HEt HEs) as G.
  unfold helm_hyp_regular, modhelm_hyp_regular, lap_hyp_regular, congr3, V0, V1. repeat split.
  - rewrite (entry_reg_ext gt identical st ss Et Es _ _ (ghyp_loc gt gs st ss quad kern (r0 - k * k)) (mult_fac RO st ss)).
    + rewrite G. ring.
    + intros. unfold masked. rewrite (helm_is_ghyp gt gs st ss quad kern Hst Hss). reflexivity.
  - rewrite (entry_reg_ext gt identical st ss Et Es _ _ (ghyp_loc gt gs st ss quad kern (k * k)) (mult_fac RO st ss)).
    + rewrite G. ring.
    + intros. unfold masked. rewrite (modhelm_is_ghyp gt gs st ss quad kern Hst Hss). reflexivity.
  - rewrite (entry_reg_ext gt identical st ss Et Es _ _ (ghyp_loc gt gs st ss quad kern r0) (mult_fac RO st ss)).
    + rewrite G. ring.
    + intros. unfold masked. rewrite (lap_is_ghyp gt gs st ss quad kern). reflexivity.
Qed.

(* ---------- hypersingular, singular model ---------- *)
Theorem hyp_singular_decomposition :
  forall (g : geom) (st ss : space) (kern : @kernel A) (pairs : list (@spair A)) (nE : nat) (k : A) (I J : nat),
  is_p1 st -> is_p1 ss ->
  (forall pr, In pr pairs -> (sp_e pr < nE)%nat /\ (sp_f pr < nE)%nat) ->
  let V0 := fun r s => ent r s (scalar_singular RO g (dp0_of RO st) (dp0_of RO ss) kern pairs) in
  let V1 := fun r s => ent r s (scalar_singular RO g (dp1_of RO st) (dp1_of RO ss) kern pairs) in
  ent I J (helm_hyp_singular RO g st ss kern k pairs) =
    congr3 nE (Cmat g st) (Cmat g ss) V0 I J - (k * k) * congr3 (3 * nE) (Nmat g st) (Nmat g ss) V1 I J
  /\ ent I J (modhelm_hyp_singular RO g st ss kern k pairs) =
    congr3 nE (Cmat g st) (Cmat g ss) V0 I J + (k * k) * congr3 (3 * nE) (Nmat g st) (Nmat g ss) V1 I J
  /\ ent I J (lap_hyp_singular RO g st ss kern pairs) =
    congr3 nE (Cmat g st) (Cmat g ss) V0 I J.
Proof.
  intros g st ss kern pairs nE k I J Hst Hss Hp V0 V1.
  pose proof (ghyp_singular_decomp g st ss kern pairs nE Hst Hss Hp) as G.
  unfold helm_hyp_singular, modhelm_hyp_singular, lap_hyp_singular, congr3, V0, V1. repeat split.
  - rewrite (entry_sing_ext st ss pairs _ (ghyp_sing_val g st ss kern (r0 - k * k))).
    + rewrite G. ring.
    + intros. apply (helm_sing_is_ghyp g st ss kern Hst Hss).
  - rewrite (entry_sing_ext st ss pairs _ (ghyp_sing_val g st ss kern (k * k))).
    + rewrite G. ring.
    + intros. apply (modhelm_sing_is_ghyp g st ss kern Hst Hss).
  - rewrite (entry_sing_ext st ss pairs _ (ghyp_sing_val g st ss kern r0)).
    + rewrite G. ring.
    + intros. apply (lap_sing_is_ghyp g st ss kern).
Qed.

(* ---------- the dense matrices: regular part over all pairs of the (same) grid ++ singular part ---------- *)

Theorem hyp_dense_decomposition :
  forall (g : geom) (st ss : space) quad (kr ks : @kernel A) (Et Es : list nat) (pairs : list (@spair A))
         (nE : nat) (k : A) (I J : nat),
  is_p1 st -> is_p1 ss ->
  (forall e, In e Et -> (e < nE)%nat) -> (forall f, In f Es -> (f < nE)%nat) ->
  (forall pr, In pr pairs -> (sp_e pr < nE)%nat /\ (sp_f pr < nE)%nat) ->
  let V0 := fun r s => ent r s (scalar_dense RO g (dp0_of RO st) (dp0_of RO ss) quad kr ks Et Es pairs) in
  let V1 := fun r s => ent r s (scalar_dense RO g (dp1_of RO st) (dp1_of RO ss) quad kr ks Et Es pairs) in
  ent I J (helm_hyp_dense RO g st ss quad kr ks Et Es pairs k) =
    congr3 nE (Cmat g st) (Cmat g ss) V0 I J - (k * k) * congr3 (3 * nE) (Nmat g st) (Nmat g ss) V1 I J
  /\ ent I J (modhelm_hyp_dense RO g st ss quad kr ks Et Es pairs k) =
    congr3 nE (Cmat g st) (Cmat g ss) V0 I J + (k * k) * congr3 (3 * nE) (Nmat g st) (Nmat g ss) V1 I J
  /\ ent I J (lap_hyp_dense RO g st ss quad kr ks Et Es pairs) =
    congr3 nE (Cmat g st) (Cmat g ss) V0 I J.
Proof.
  intros g st ss quad kr ks Et Es pairs nE k I J Hst Hss HEt HEs Hp V0 V1.
  destruct (hyp_regular_decomposition g g st ss quad kr true Et Es nE k I J Hst Hss HEt HEs) as [R1 [R2 R3]].
  destruct (hyp_singular_decomposition g st ss ks pairs nE k I J Hst Hss Hp) as [S1 [S2 S3]].
  unfold helm_hyp_dense, modhelm_hyp_dense, lap_hyp_dense, V0, V1, scalar_dense.
  rewrite !entry_app. rewrite R1, R2, R3, S1, S2, S3.
  rewrite (congr3_ext nE (Cmat g st) (Cmat g ss) _ _ I J (fun r s => entry_app r s _ _)).
  rewrite (congr3_ext (3 * nE) (Nmat g st) (Nmat g ss) _ _ I J (fun r s => entry_app r s _ _)).
  rewrite (congr3_add nE (Cmat g st) (Cmat g ss)), (congr3_add (3 * nE) (Nmat g st) (Nmat g ss)).
  repeat split; ring.
Qed.

(* ---------- Maxwell electric field ---------- *)
Theorem efield_regular_decomposition :
  forall (gt gs : geom) (st ss : space) (quad : list (@qpt A)) (kern : @kernel A) (identical : bool)
         (Et Es : list nat) (nE : nat) (mik ik : A) (I J : nat),
  (forall a b : A, rinv (a * b) = rinv a * rinv b) ->
  s_nshape st = 3%nat -> s_nshape ss = 3%nat ->
  (forall e, In e Et -> (e < nE)%nat) -> (forall f, In f Es -> (f < nE)%nat) ->
  let V0 := fun r s => ent r s (scalar_regular RO gt gs (dp0_of RO st) (dp0_of RO ss) quad (kern0 kern) identical Et Es) in
  let V1 := fun r s => ent r s (scalar_regular RO gt gs (dp1_of RO st) (dp1_of RO ss) quad (kern0 kern) identical Et Es) in
  ent I J (efield_regular RO gt gs st ss quad kern identical mik ik Et Es) =
    mik * congr3 (3 * nE) (Rmat gt st) (Rmat gs ss) V1 I J - rinv ik * congr1 nE (Dmat gt st) (Dmat gs ss) V0 I J.
Proof.
  intros. unfold congr3, congr1, V0, V1. apply efield_regular_decomp; assumption.
Qed.

Theorem efield_singular_decomposition :
  forall (g : geom) (st ss : space) (kern : @kernel A) (pairs : list (@spair A)) (nE : nat) (mik ik : A) (I J : nat),
  (forall a b : A, rinv (a * b) = rinv a * rinv b) ->
  s_nshape st = 3%nat -> s_nshape ss = 3%nat ->
  (forall pr, In pr pairs -> (sp_e pr < nE)%nat /\ (sp_f pr < nE)%nat) ->
  let V0 := fun r s => ent r s (scalar_singular RO g (dp0_of RO st) (dp0_of RO ss) (kern0 kern) pairs) in
  let V1 := fun r s => ent r s (scalar_singular RO g (dp1_of RO st) (dp1_of RO ss) (kern0 kern) pairs) in
  ent I J (efield_singular RO g st ss kern mik ik pairs) =
    mik * congr3 (3 * nE) (Rmat g st) (Rmat g ss) V1 I J - rinv ik * congr1 nE (Dmat g st) (Dmat g ss) V0 I J.
Proof.
  intros. unfold congr3, congr1, V0, V1. apply efield_singular_decomp; assumption.
Qed.

Theorem efield_dense_decomposition :
  forall (g : geom) (st ss : space) quad (kr ks : @kernel A) (Et Es : list nat) (pairs : list (@spair A))
         (nE : nat) (mik ik : A) (I J : nat),
  (forall a b : A, rinv (a * b) = rinv a * rinv b) ->
  s_nshape st = 3%nat -> s_nshape ss = 3%nat ->
  (forall e, In e Et -> (e < nE)%nat) -> (forall f, In f Es -> (f < nE)%nat) ->
  (forall pr, In pr pairs -> (sp_e pr < nE)%nat /\ (sp_f pr < nE)%nat) ->
  let V0 := fun r s => ent r s (scalar_dense RO g (dp0_of RO st) (dp0_of RO ss) quad (kern0 kr) (kern0 ks) Et Es pairs) in
  let V1 := fun r s => ent r s (scalar_dense RO g (dp1_of RO st) (dp1_of RO ss) quad (kern0 kr) (kern0 ks) Et Es pairs) in
  ent I J (efield_dense RO g st ss quad kr ks Et Es pairs mik ik) =
    mik * congr3 (3 * nE) (Rmat g st) (Rmat g ss) V1 I J - rinv ik * congr1 nE (Dmat g st) (Dmat g ss) V0 I J.
Proof.
  intros g st ss quad kr ks Et Es pairs nE mik ik I J Hinv Hnt Hns HEt HEs Hp V0 V1.
  pose proof (efield_regular_decomposition g g st ss quad kr true Et Es nE mik ik I J Hinv Hnt Hns HEt HEs) as R.
  pose proof (efield_singular_decomposition g st ss ks pairs nE mik ik I J Hinv Hnt Hns Hp) as S.
  cbv zeta in R, S. unfold efield_dense, V0, V1, scalar_dense. rewrite entry_app, R, S.
  rewrite (congr3_ext (3 * nE) (Rmat g st) (Rmat g ss) _ _ I J (fun r s => entry_app r s _ _)).
  rewrite (congr1_ext nE (Dmat g st) (Dmat g ss) _ _ I J (fun r s => entry_app r s _ _)).
  rewrite congr3_add, congr1_add. ring.
Qed.

(* ---------- constants in the kernel ---------- *)
Theorem hyp_constants_in_kernel :
  (* every local block of the Laplace hypersingular model has zero row and column sums ... *)
  (forall (gt gs : geom) (st ss : space) quad kern e f i,
     sumN 3 (fun j => lap_hyp_loc RO gt gs st ss quad kern e f i j) = r0) /\
  (forall (gt gs : geom) (st ss : space) quad kern e f j,
     sumN 3 (fun i => lap_hyp_loc RO gt gs st ss quad kern e f i j) = r0) /\
  (forall (g : geom) (st ss : space) kern e f pts i,
     sumN 3 (fun j => lap_hyp_sing_val RO g st ss kern e f pts i j) = r0) /\
  (forall (g : geom) (st ss : space) kern e f pts j,
     sumN 3 (fun i => lap_hyp_sing_val RO g st ss kern e f pts i j) = r0) /\
  (* ... hence the assembled matrix maps the constant vector to 0 whenever every local trial dof is a genuine
     dof with multiplier 1 (whole closed grid), exactly *)
  (forall (g : geom) (st ss : space) quad kr ks Et Es pairs n I,
     s_nshape ss = 3%nat ->
     (forall f j, (j < 3)%nat -> s_mult ss f j = r1) ->
     (forall f j, (j < 3)%nat -> (s_l2g ss f j < n)%nat) ->
     matvec r0 radd rmul n (fun I J => ent I J (lap_hyp_dense RO g st ss quad kr ks Et Es pairs)) (fun _ => r1) I = r0).
Proof.
  repeat split.
  - apply lap_hyp_loc_rowsum.
  - apply lap_hyp_loc_colsum.
  - apply lap_hyp_sing_rowsum.
  - apply lap_hyp_sing_colsum.
  - intros. unfold matvec. apply lap_hyp_annihilates_constants; assumption.
Qed.

(* ---------- symmetry of the regular parts ---------- *)
Theorem maxwell_regular_symmetric :
  forall (g : geom) (s : space) (quad : list (@qpt A)) (kern : @kernel A) (identical : bool) (E : list nat)
         (dist : vec3 A -> vec3 A -> A) (mik ik : A) (I J : nat),
  (forall x y, kern x y (vzero r0) (vzero r0) = kern y x (vzero r0) (vzero r0)) ->
  (forall x y, dist x y = dist y x) ->
  ent I J (efield_regular RO g g s s quad kern identical mik ik E E) =
  ent J I (efield_regular RO g g s s quad kern identical mik ik E E) /\
  ent I J (mfield_regular RO g g s s quad kern identical dist ik E E) =
  ent J I (mfield_regular RO g g s s quad kern identical dist ik E E).
Proof.
  intros. split.
  - apply efield_regular_transpose. assumption.
  - apply mfield_regular_transpose; assumption.
Qed.

Theorem hyp_regular_symmetric :
  forall (g : geom) (s : space) (quad : list (@qpt A)) (kern : @kernel A) (identical : bool) (E : list nat)
         (k : A) (I J : nat),
  is_p1 s ->
  (forall x y nx ny, kern x y nx ny = kern y x ny nx) ->
  ent I J (helm_hyp_regular RO g g s s quad kern identical k E E) =
  ent J I (helm_hyp_regular RO g g s s quad kern identical k E E).
Proof.
  intros g s quad kern identical E k I J Hs Hk. unfold helm_hyp_regular.
  rewrite !(entry_reg_ext g identical s s E E (helm_hyp_loc RO g g s s quad kern k) (mult_fac RO s s)
             (ghyp_loc g g s s quad kern (r0 - k * k)) (mult_fac RO s s))
    by (intros; unfold masked; rewrite (helm_is_ghyp g g s s quad kern Hs Hs); reflexivity).
  apply ghyp_regular_transpose. assumption.
Qed.

End C06.

Arguments congr3 {A} RO.
Arguments congr1 {A} RO.

(* ---------- instances: the hypotheses are satisfiable ---------- *)
Definition Zops : ops Z := mk_ops 0%Z 1%Z Z.add Z.mul Z.sub Z.opp (fun _ => 0%Z).
Global Instance Z_is_ring : IsRing Zops.
Proof. exact Zth. Qed.

Example Z_rinv_mul : forall a b : Z, oinv Zops (omul Zops a b) = omul Zops (oinv Zops a) (oinv Zops b).
Proof. reflexivity. Qed.

(* a two-triangle strip with a P1 space: the decomposition hypotheses hold and the identity is not vacuous *)
Definition ex_geom : @geom Z :=
  {| g_corner := fun e => if Nat.eqb e 0 then (0, 0, 0)%Z else (1, 1, 0)%Z;
     g_jac := fun e => if Nat.eqb e 0 then ((1, 0, 0), (0, 1, 0))%Z else ((-1, 0, 0), (0, -1, 0))%Z;
     g_normal := fun _ => (0, 0, 1)%Z;
     g_intel := fun _ => 1%Z;
     g_jit := fun e => if Nat.eqb e 0 then ((1, 0, 0), (0, 1, 0))%Z else ((-1, 0, 0), (0, -1, 0))%Z;
     g_elen := fun _ _ => 1%Z;
     g_verts := fun e => if Nat.eqb e 0 then (0, 1, 2)%nat else (3, 2, 1)%nat |}.
Definition ex_space : @space Z :=
  {| s_nshape := 3; s_l2g := fun e i => match e, i with 0%nat, _ => i | _, 0%nat => 3%nat | _, 1%nat => 2%nat | _, _ => 1%nat end;
     s_mult := fun _ _ => 1%Z; s_nmult := fun _ => 1%Z; s_shape := p1_shape Zops |}.
Definition ex_quad : list (@qpt Z) := [((0, 0), 1); ((1, 0), 2); ((0, 1), 3)]%Z.
Definition ex_kern : @kernel Z := fun x y nx ny => (1 + vx x * vx y + vy x + 2 * vz ny)%Z.

Example C06_hypotheses_satisfiable :
  is_p1 Zops ex_space /\
  (forall e, In e [0; 1]%nat -> (e < 2)%nat) /\
  entry 0%Z Z.add 0 3 (helm_hyp_regular Zops ex_geom ex_geom ex_space ex_space ex_quad ex_kern false 2%Z [0; 1]%nat [0; 1]%nat)
    <> 0%Z.
Proof.
  split; [|split].
  - split; reflexivity.
  - intros e [<-|[<-|[]]]; lia.
  - vm_compute. discriminate.
Qed.
