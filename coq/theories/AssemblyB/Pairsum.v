(* Pair sums: the common algebraic shape of every Galerkin assembler
      M[I,J] = sum_{x in L} sum_{i<nt} sum_{j<ns} [tg (pe x) i = I] [sg (pf x) j = J] val x i j
   (L = all element pairs for the regular part, the adjacent pairs for the singular part), its linearity, and the
   factorisation lemma behind every "operator = sum_c P_c' V Q_c" decomposition. *)
From Coq Require Import List Arith Bool Lia Ring Morphisms Setoid.
From BV Require Import AssemblyB.Defs AssemblyB.Sums.
Import ListNotations.

Section Pairsum.
Context {A : Type} {RO : ops A} {Hring : IsRing RO}.
Notation r0 := (o0 RO).
Notation r1 := (o1 RO).
Notation radd := (oadd RO).
Notation rmul := (omul RO).
Notation rsub := (osub RO).
Notation ropp := (oopp RO).
Add Ring ARing2 : (@is_ring A RO Hring).

Infix "+" := radd.
Infix "*" := rmul.
Infix "-" := rsub.
Notation sum := (sumf r0 radd).
Notation sumN := (sumn r0 radd).
Notation dl := (delta r0 r1).

Definition psum {X : Type} (L : list X) (pe pf : X -> nat) (nt ns : nat) (tg sg : nat -> nat -> nat)
           (val : X -> nat -> nat -> A) (I J : nat) : A :=
  sum (fun x => sumN nt (fun i => sumN ns (fun j =>
        (dl (tg (pe x) i) I * dl (sg (pf x) j) J) * val x i j))) L.

(* element-local ("discontinuous") numbering with n shape functions *)
Definition lnum (n e a : nat) : nat := Nat.add (Nat.mul n e) a.

(* global matrix of a local map: rows = element-local numbering of the inner space, columns = outer dofs *)
Definition Pmat (tg' : nat -> nat -> nat) (n' na' : nat) (P' : nat -> nat -> nat -> A) (r I : nat) : A :=
  sumN n' (fun i => dl (tg' (Nat.div r na') i) I * P' (Nat.div r na') i (Nat.modulo r na')).

Lemma sumN_ext : forall n (f g : nat -> A), (forall i, (i < n)%nat -> f i = g i) -> sumN n f = sumN n g.
Proof. intros. unfold sumn. apply sum_ext. intros x Hx. apply in_seq in Hx. apply H. lia. Qed.

Lemma sumN_swap : forall n m (f : nat -> nat -> A),
  sumN n (fun i => sumN m (fun j => f i j)) = sumN m (fun j => sumN n (fun i => f i j)).
Proof. intros. unfold sumn. apply sum_swap. Qed.

Lemma sumN_add : forall n (f g : nat -> A), sumN n (fun i => f i + g i) = sumN n f + sumN n g.
Proof. intros. unfold sumn. apply sum_add. Qed.

Lemma sumN_scal_l : forall n c (f : nat -> A), sumN n (fun i => c * f i) = c * sumN n f.
Proof. intros. unfold sumn. apply sum_scal_l. Qed.

Lemma sumN_scal_r : forall n c (f : nat -> A), sumN n (fun i => f i * c) = sumN n f * c.
Proof. intros. unfold sumn. apply sum_scal_r. Qed.

Lemma sumN_zero : forall n, sumN n (fun _ => r0) = r0.
Proof. intros. unfold sumn. apply sum_zero. Qed.

Lemma sumN_zero_ext : forall n (f : nat -> A), (forall i, (i < n)%nat -> f i = r0) -> sumN n f = r0.
Proof. intros. rewrite (sumN_ext n f (fun _ => r0)) by assumption. apply sumN_zero. Qed.

Lemma sumN_3 : forall (f : nat -> A), sumN 3 f = f 0%nat + (f 1%nat + f 2%nat).
Proof. intros. unfold sumn. simpl. ring. Qed.

Lemma sumN_1 : forall (f : nat -> A), sumN 1 f = f 0%nat.
Proof. intros. unfold sumn. simpl. ring. Qed.

(* collapse of a delta against a sum over a complete index range *)
Lemma collapse : forall nR na (F : nat -> A) (g : nat -> nat) (Y : nat -> A),
  (forall a, (a < na)%nat -> (g a < nR)%nat) ->
  sumN nR (fun r => F r * sumN na (fun a => dl (g a) r * Y a)) = sumN na (fun a => F (g a) * Y a).
Proof.
  intros nR na F g Y Hg.
  transitivity (sumN nR (fun r => sumN na (fun a => dl (g a) r * (F r * Y a)))).
  - apply sumN_ext. intros r _. rewrite <- sumN_scal_l. apply sumN_ext. intros. ring.
  - rewrite sumN_swap. apply sumN_ext. intros a Ha.
    apply (sum_delta_seq' (g a) nR (fun r => F r * Y a)). auto.
Qed.

(* ---- linearity of psum in the values ---------------------------------------------------------------- *)
Section Lin.
Context {X : Type}.
Variables (L : list X) (pe pf : X -> nat) (nt ns : nat) (tg sg : nat -> nat -> nat).

Lemma psum_ext : forall (v w : X -> nat -> nat -> A) I J,
  (forall x i j, In x L -> (i < nt)%nat -> (j < ns)%nat -> v x i j = w x i j) ->
  psum L pe pf nt ns tg sg v I J = psum L pe pf nt ns tg sg w I J.
Proof.
  intros. unfold psum. apply sum_ext. intros x Hx.
  apply sumN_ext. intros i Hi. apply sumN_ext. intros j Hj. rewrite H; auto.
Qed.

Lemma psum_add : forall (v w : X -> nat -> nat -> A) I J,
  psum L pe pf nt ns tg sg (fun x i j => v x i j + w x i j) I J =
  psum L pe pf nt ns tg sg v I J + psum L pe pf nt ns tg sg w I J.
Proof.
  intros. unfold psum. rewrite <- sum_add.
  apply sum_ext_all. intros x. rewrite <- sumN_add. apply sumN_ext. intros i _.
  rewrite <- sumN_add. apply sumN_ext. intros j _. ring.
Qed.

Lemma psum_scal : forall c (v : X -> nat -> nat -> A) I J,
  psum L pe pf nt ns tg sg (fun x i j => c * v x i j) I J = c * psum L pe pf nt ns tg sg v I J.
Proof.
  intros. unfold psum. rewrite <- sum_scal_l.
  apply sum_ext_all. intros x. rewrite <- sumN_scal_l. apply sumN_ext. intros i _.
  rewrite <- sumN_scal_l. apply sumN_ext. intros j _. ring.
Qed.

Lemma psum_zero : forall I J, psum L pe pf nt ns tg sg (fun _ _ _ => r0) I J = r0.
Proof.
  intros. unfold psum. apply sum_zero_ext. intros x _.
  apply sumN_zero_ext. intros i _. apply sumN_zero_ext. intros. ring.
Qed.

Lemma psum_sum : forall Y (l : list Y) (v : Y -> X -> nat -> nat -> A) I J,
  psum L pe pf nt ns tg sg (fun x i j => sum (fun c => v c x i j) l) I J =
  sum (fun c => psum L pe pf nt ns tg sg (v c) I J) l.
Proof.
  intros Y l v I J. induction l as [|c l IH]; simpl.
  - apply psum_zero.
  - rewrite <- IH. rewrite <- psum_add. reflexivity.
Qed.

Lemma psum_sumN : forall m (v : nat -> X -> nat -> nat -> A) I J,
  psum L pe pf nt ns tg sg (fun x i j => sumN m (fun c => v c x i j)) I J =
  sumN m (fun c => psum L pe pf nt ns tg sg (v c) I J).
Proof. intros. apply (psum_sum nat (seq 0 m)). Qed.

(* transposition *)
Lemma psum_transpose : forall (v : X -> nat -> nat -> A) I J,
  psum L pe pf nt ns tg sg v I J = psum L pf pe ns nt sg tg (fun x j i => v x i j) J I.
Proof.
  intros. unfold psum. apply sum_ext_all. intros x. rewrite sumN_swap.
  apply sumN_ext. intros j _. apply sumN_ext. intros i _. ring.
Qed.

End Lin.

(* ---- the factorisation lemma ---------------------------------------------------------------------- *)

Global Instance sumN_proper n : Proper (pointwise_relation nat eq ==> eq) (sumn r0 radd n).
Proof. intros f g H. apply sumN_ext. intros. apply H. Qed.

Ltac push := repeat (setoid_rewrite <- sumN_scal_l || setoid_rewrite <- sumN_scal_r).

Lemma collapse2 : forall nR nS na nb (F G : nat -> A) (ga gb : nat -> nat) (Xv : nat -> nat -> A),
  (forall a, (a < na)%nat -> (ga a < nR)%nat) -> (forall b, (b < nb)%nat -> (gb b < nS)%nat) ->
  sumN nR (fun r => sumN nS (fun s =>
     (F r * sumN na (fun a => sumN nb (fun b => (dl (ga a) r * dl (gb b) s) * Xv a b))) * G s)) =
  sumN na (fun a => sumN nb (fun b => (F (ga a) * Xv a b) * G (gb b))).
Proof.
  intros nR nS na nb F G ga gb Xv Ha Hb.
  transitivity (sumN nR (fun r => F r * sumN na (fun a => dl (ga a) r *
                  sumN nS (fun s => G s * sumN nb (fun b => dl (gb b) s * Xv a b))))).
  - apply sumN_ext. intros r _. push.
    rewrite sumN_swap. apply sumN_ext. intros a _. apply sumN_ext. intros s _. apply sumN_ext. intros b _. ring.
  - rewrite collapse by assumption. apply sumN_ext. intros a _.
    rewrite collapse by assumption. push. apply sumN_ext. intros b _. ring.
Qed.

Section Factor.
Context {X : Type}.
Variables (L : list X) (pe pf : X -> nat) (nt ns : nat) (tg sg : nat -> nat -> nat).
Variables (na nb nR nS : nat).
Variable P : nat -> nat -> nat -> A.     (* P e i a : test side, element e, shape function i -> local function a *)
Variable Q : nat -> nat -> nat -> A.
Variable Xv : X -> nat -> nat -> A.      (* the inner operator's local block *)

Lemma lnum_div : forall n e a, (a < n)%nat -> Nat.div (lnum n e a) n = e.
Proof. intros. unfold lnum. symmetry. apply (Nat.div_unique _ _ e a); lia. Qed.
Lemma lnum_mod : forall n e a, (a < n)%nat -> Nat.modulo (lnum n e a) n = a.
Proof. intros. unfold lnum. symmetry. apply (Nat.mod_unique _ _ e a); lia. Qed.

Hypothesis HR : forall x a, In x L -> (a < na)%nat -> (lnum na (pe x) a < nR)%nat.
Hypothesis HS : forall x b, In x L -> (b < nb)%nat -> (lnum nb (pf x) b < nS)%nat.

Theorem psum_factor : forall (val : X -> nat -> nat -> A) I J,
  (forall x i j, In x L -> (i < nt)%nat -> (j < ns)%nat ->
     val x i j = sumN na (fun a => sumN nb (fun b => (P (pe x) i a * Xv x a b) * Q (pf x) j b))) ->
  psum L pe pf nt ns tg sg val I J =
  sumN nR (fun r => sumN nS (fun s =>
    (Pmat tg nt na P r I * psum L pe pf na nb (lnum na) (lnum nb) Xv r s) * Pmat sg ns nb Q s J)).
Proof.
  intros val I J Hval.
  assert (Hadd : forall L',
    sumN nR (fun r => sumN nS (fun s =>
      (Pmat tg nt na P r I * psum L' pe pf na nb (lnum na) (lnum nb) Xv r s) * Pmat sg ns nb Q s J)) =
    sum (fun x => sumN nR (fun r => sumN nS (fun s =>
      (Pmat tg nt na P r I * sumN na (fun a => sumN nb (fun b =>
          (dl (lnum na (pe x) a) r * dl (lnum nb (pf x) b) s) * Xv x a b))) * Pmat sg ns nb Q s J))) L').
  { induction L' as [|x L' IH]; simpl.
    - apply sumN_zero_ext. intros r _. apply sumN_zero_ext. intros s _. unfold psum. simpl. ring.
    - rewrite <- IH. rewrite <- sumN_add. apply sumN_ext. intros r _. rewrite <- sumN_add.
      apply sumN_ext. intros s _. unfold psum. simpl. ring. }
  rewrite Hadd. unfold psum. apply sum_ext. intros x Hx.
  rewrite collapse2 by (intros; first [apply HR; assumption | apply HS; assumption]).
  (* Pmat at a local number *)
  assert (HP : forall a, (a < na)%nat ->
     Pmat tg nt na P (lnum na (pe x) a) I = sumN nt (fun i => dl (tg (pe x) i) I * P (pe x) i a)).
  { intros a Ha. unfold Pmat. rewrite lnum_div, lnum_mod by assumption. reflexivity. }
  assert (HQ : forall b, (b < nb)%nat ->
     Pmat sg ns nb Q (lnum nb (pf x) b) J = sumN ns (fun j => dl (sg (pf x) j) J * Q (pf x) j b)).
  { intros b Hb. unfold Pmat. rewrite lnum_div, lnum_mod by assumption. reflexivity. }
  transitivity (sumN nt (fun i => sumN ns (fun j => sumN na (fun a => sumN nb (fun b =>
       (dl (tg (pe x) i) I * dl (sg (pf x) j) J) * ((P (pe x) i a * Xv x a b) * Q (pf x) j b)))))).
  - apply sumN_ext. intros i Hi. apply sumN_ext. intros j Hj. rewrite Hval by assumption. push. reflexivity.
  - symmetry.
    transitivity (sumN na (fun a => sumN nb (fun b =>
       (sumN nt (fun i => dl (tg (pe x) i) I * P (pe x) i a) * Xv x a b) *
        sumN ns (fun j => dl (sg (pf x) j) J * Q (pf x) j b)))).
    + apply sumN_ext. intros a Ha. apply sumN_ext. intros b Hb. rewrite HP, HQ by assumption. reflexivity.
    + push.
      (* order: a b i j (after push: a, b, then j inside i?) -> bring to i j a b *)
      transitivity (sumN na (fun a => sumN nb (fun b => sumN nt (fun i => sumN ns (fun j =>
         (dl (tg (pe x) i) I * dl (sg (pf x) j) J) * ((P (pe x) i a * Xv x a b) * Q (pf x) j b)))))).
      * apply sumN_ext. intros a _. apply sumN_ext. intros b _.
        first [ apply sumN_ext; intros i _; apply sumN_ext; intros j _; ring
              | rewrite sumN_swap; apply sumN_ext; intros i _; apply sumN_ext; intros j _; ring ].
      * transitivity (sumN na (fun a => sumN nt (fun i => sumN nb (fun b => sumN ns (fun j =>
         (dl (tg (pe x) i) I * dl (sg (pf x) j) J) * ((P (pe x) i a * Xv x a b) * Q (pf x) j b)))))).
        { apply sumN_ext. intros a _. apply sumN_swap. }
        rewrite sumN_swap. apply sumN_ext. intros i _.
        transitivity (sumN na (fun a => sumN ns (fun j => sumN nb (fun b =>
         (dl (tg (pe x) i) I * dl (sg (pf x) j) J) * ((P (pe x) i a * Xv x a b) * Q (pf x) j b))))).
        { apply sumN_ext. intros a _. apply sumN_swap. }
        apply sumN_swap.
Qed.

End Factor.
End Pairsum.
