(* Lemmas whose statements are exactly those of props/C02.v, C07.v, C17.v where the proof is more than one
   [exact]: the property files then contain statements only. *)
From Coq Require Import List Arith ZArith Permutation.
From BV Require Import AssemblyB.Defs AssemblyB.Model AssemblyB.PotModel AssemblyB.FmmModel AssemblyB.Decomposition
  AssemblyB.TwoGrids AssemblyB.FmmGlue AssemblyB.C17Thms.
Import ListNotations.

Lemma C02_coefficients_mapped_l :
  forall (A : Type) (RO : ops A) (Hring : IsRing RO) (s : space) (supp : list nat) (c : nat -> A) (e i : nat),
  NoDup supp -> i < s_nshape s ->
  (In e supp -> full_coeffs RO s supp c (s_nshape s * e + i) = omul RO (s_mult s e i) (c (s_l2g s e i))) /\
  (~ In e supp -> full_coeffs RO s supp c (s_nshape s * e + i) = o0 RO).
Proof.
  intros A RO Hring s supp c e i Hnd Hi. split; intros H.
  - exact (full_coeffs_local s supp c e i Hnd H Hi).
  - exact (full_coeffs_outside s supp c e i H Hi).
Qed.

Lemma C02_potential_linear_and_order_independent_l :
  forall (A : Type) (RO : ops A) (Hring : IsRing RO)
         (g : geom) (s : space) (quad : list qpt) (kern : kernel) (supp supp' : list nat) (a b : A)
         (x1 x2 : nat -> A) (pt : vec3 A),
  Permutation supp supp' ->
  scalar_potential RO g s quad kern supp (fun n => oadd RO (omul RO a (x1 n)) (omul RO b (x2 n))) pt =
  oadd RO (omul RO a (scalar_potential RO g s quad kern supp' x1 pt))
          (omul RO b (scalar_potential RO g s quad kern supp' x2 pt)).
Proof.
  intros A RO Hring g s quad kern supp supp' a b x1 x2 pt Hp.
  rewrite (potential_linear g s quad kern supp a b x1 x2 pt).
  rewrite (potential_perm g s quad kern supp supp' x1 pt Hp), (potential_perm g s quad kern supp supp' x2 pt Hp).
  reflexivity.
Qed.

Lemma C02_partial_l :
  forall (A : Type) (RO : ops A) (Hring : IsRing RO)
         (g : geom) (s : space) (quad : list qpt) (kern : kernel) (supp : list nat) (c : nat -> A) (pt : vec3 A),
  NoDup supp ->
  potential_eval RO g s quad kern supp c pt =
  sumf (o0 RO) (oadd RO) (fun e => sumf (o0 RO) (oadd RO) (fun q =>
     omul RO (omul RO (omul RO (q_w q) (g_intel g e))
                      (kern pt (ypt RO g e q) (vzero (o0 RO)) (snormal RO g s e)))
       (sumn (o0 RO) (oadd RO) (s_nshape s) (fun i =>
          omul RO (omul RO (s_mult s e i) (c (s_l2g s e i))) (s_shape s i (q_u q) (q_v q))))) quad) supp
  /\ (forall (inseg : nat -> bool) (x : nat -> A),
      scalar_potential RO g s quad kern supp x pt =
      oadd RO (scalar_potential RO g s quad kern (filter inseg supp) x pt)
              (scalar_potential RO g s quad kern (filter (fun e => negb (inseg e)) supp) x pt)).
Proof.
  intros A RO Hring g s quad kern supp c pt Hnd. split.
  - exact (potential_is_kernel_sum g s quad kern supp c pt Hnd).
  - intros inseg x. exact (potential_additive_partition g s quad kern supp inseg x pt).
Qed.

Lemma C07_two_grid_equals_tested_potential_l :
  forall (A : Type) (RO : ops A) (Hring : IsRing RO)
         (gt gs : geom) (st ss : space) (quad : list qpt) (kern : kernel) (Et Es : list nat) (I J : nat),
  (forall x y n1 n2 ny, kern x y n1 ny = kern x y n2 ny) ->      (* single/double layer: no test normal *)
  NoDup Es ->
  entry (o0 RO) (oadd RO) I J (scalar_regular RO gt gs st ss quad kern false Et Es) =
  sumf (o0 RO) (oadd RO) (fun e => sumf (o0 RO) (oadd RO) (fun p =>
      omul RO (omul RO (omul RO (q_w p) (g_intel gt e)) (test_fun RO st I e p))
              (potential_eval RO gs ss quad kern Es (unit_vec RO J) (xt RO gt e p))) quad) Et.
Proof. intros; apply two_grid_equals_tested_potential; assumption. Qed.

Lemma C07_mfield_l :
  forall (A : Type) (RO : ops A) (Hring : IsRing RO)
         (gt gs : geom) (st ss : space) (quad : list qpt) (kern : kernel) (Et Es : list nat)
         (dist : vec3 A -> vec3 A -> A) (ik : A) (I J : nat),
  s_nshape st = 3 -> s_nshape ss = 3 -> NoDup Es ->
  entry (o0 RO) (oadd RO) I J (mfield_regular RO gt gs st ss quad kern false dist ik Et Es) =
  osub RO (o0 RO) (sumf (o0 RO) (oadd RO) (fun e => sumf (o0 RO) (oadd RO) (fun p =>
      sumn (o0 RO) (oadd RO) 3 (fun i =>
        omul RO (omul RO (omul RO (omul RO (q_w p) (g_intel gt e))
                                  (omul RO (delta (o0 RO) (o1 RO) (s_l2g st e i) I) (s_mult st e i)))
                         (g_elen gt e i))
          (dot3 (oadd RO) (omul RO) (piola RO gt e i (q_u p) (q_v p))
             (mfield_potential RO gs ss quad kern Es dist ik (full_coeffs RO ss Es (unit_vec RO J)) (xt RO gt e p)))))
      quad) Et).
Proof. intros; apply mfield_two_grid_equals_tested_potential; assumption. Qed.

Lemma C07_efield_partial_l :
  forall (A : Type) (RO : ops A) (Hring : IsRing RO)
         (gt gs : geom) (st ss : space) (quad : list qpt) (kern : kernel) (Et Es : list nat)
         (mik ik : A) (I J : nat),
  s_nshape st = 3 -> s_nshape ss = 3 -> NoDup Es ->
  (forall e f i j, efield_loc RO gt gs quad kern mik ik e f i j =
      osub RO (efield_vec_loc RO gt gs quad kern mik e f i j) (efield_div_loc RO gt gs quad kern ik e f i j)) /\
  entry (o0 RO) (oadd RO) I J
    (reg_assemble RO gt st ss false Et Es (efield_vec_loc RO gt gs quad kern mik) (mx_fac RO gt gs st ss)) =
  sumf (o0 RO) (oadd RO) (fun e => sumf (o0 RO) (oadd RO) (fun p =>
      sumn (o0 RO) (oadd RO) 3 (fun i =>
        omul RO (omul RO (omul RO (omul RO (q_w p) (g_intel gt e))
                                  (omul RO (delta (o0 RO) (o1 RO) (s_l2g st e i) I) (s_mult st e i)))
                         (g_elen gt e i))
          (dot3 (oadd RO) (omul RO) (piola RO gt e i (q_u p) (q_v p))
             (efield_potential_vec RO gs ss quad kern Es mik (full_coeffs RO ss Es (unit_vec RO J)) (xt RO gt e p)))))
      quad) Et.
Proof.
  intros A RO Hring gt gs st ss quad kern Et Es mik ik I J Hnt Hns HEs. split.
  - exact (efield_loc_split gt gs quad kern mik ik).
  - exact (efield_vec_two_grid gt gs st ss quad kern Et Es mik Hnt Hns HEs I J).
Qed.

Lemma C17_hypersingular_glue_laplace_modified_l :
  forall (A : Type) (RO : ops A), IsRing RO -> forall (ver : fmm_version),
  forall (G4 : vec3 A -> vec3 A -> nat -> A) (g : geom) (st ss : space) (Et Es : list nat) (nE : nat)
         (quad : list qpt) (nbrs : nat -> list nat) (kr ks : kernel) (pairs : list spair) (n : nat),
  (forall f, In f Es -> f < nE) ->
  (forall e, In e Et -> NoDup (nbrs e)) ->
  (forall e f, In e Et -> In f Es -> memb f (nbrs e) = adjacent (g_verts g e) (g_verts g f)) ->
  (forall f j, In f Es -> j < s_nshape ss -> s_l2g ss f j < n) ->
  (forall (pr : spair) j, In pr pairs -> j < s_nshape ss -> s_l2g ss (sp_f pr) j < n) ->
  slot_exact (slot_pos ver) Et -> slot_exact (slot_pos ver) Es ->
  (forall a b nx ny, kr a b nx ny = G4 a b 0) ->
  is_p1 RO st -> is_p1 RO ss ->
  forall (k : A) (x : nat -> A),
  maps_ok ver Et Es = true ->
  (exists f : nat -> A,
    glue_laplace_hypersingular RO ver G4 g g st ss Et Es nE quad nbrs (lap_hyp_singular RO g st ss ks pairs) x = Some f /\
    forall I, f I = matvec (o0 RO) (oadd RO) (omul RO) n
        (fun I0 J => entry (o0 RO) (oadd RO) I0 J (lap_hyp_dense RO g st ss quad kr ks Et Es pairs)) x I) /\
  (exists f : nat -> A,
    glue_modhelm_hypersingular RO ver G4 g g st ss Et Es nE quad nbrs (modhelm_hyp_singular RO g st ss ks k pairs) k x
      = Some f /\
    forall I, f I = matvec (o0 RO) (oadd RO) (omul RO) n
        (fun I0 J => entry (o0 RO) (oadd RO) I0 J (modhelm_hyp_dense RO g st ss quad kr ks Et Es pairs k)) x I).
Proof.
  intros A RO Hr ver G4 g st ss Et Es nE quad nbrs kr ks pairs n H1 H2 H3 H4 H5 H6 H7 H8 H9 H10 k x Hok. split.
  - exact (glue_laplace_hypersingular_correct ver G4 g st ss Et Es nE quad nbrs kr ks pairs n H1 H2 H3 H4 H5 H6 H7 H8 H9 H10 x Hok).
  - exact (glue_modhelm_hypersingular_correct ver G4 g st ss Et Es nE quad nbrs kr ks pairs n H1 H2 H3 H4 H5 H6 H7 H8 H9 H10 k x Hok).
Qed.

Lemma C17_potential_glue_l :
  forall (A : Type) (RO : ops A), IsRing RO -> forall (ver : fmm_version),
  forall (G4 : vec3 A -> vec3 A -> nat -> A) (gs : geom) (ss : space) (Es : list nat) (nEs : nat)
         (quad : list qpt) (ksl kdl : kernel),
  NoDup Es -> (forall f, In f Es -> f < nEs) -> msp_ok ver Es = true ->
  forall x : nat -> A,
  (forall a b nx ny, ksl a b nx ny = G4 a b 0) ->
  (forall a b nx ny, kdl a b nx ny =
       osub RO (o0 RO) (sumn (o0 RO) (oadd RO) 3 (fun c => omul RO (G4 a b (S c)) (comp ny c)))) ->
  (exists f, glue_pot_single_layer RO ver G4 gs ss Es nEs quad x = Some f /\
             forall pt, f pt = potential_eval RO gs ss quad ksl Es x pt) /\
  (exists f, glue_pot_double_layer RO ver G4 gs ss Es nEs quad x = Some f /\
             forall pt, f pt = potential_eval RO gs ss quad kdl Es x pt).
Proof.
  intros A RO Hr ver G4 gs ss Es nEs quad ksl kdl H1 H2 H3 x Hs Hd. split.
  - exact (glue_pot_single_layer_correct ver G4 gs ss Es nEs quad ksl H1 H2 H3 x Hs).
  - exact (glue_pot_double_layer_correct ver G4 gs ss Es nEs quad kdl H1 H2 H3 x Hd).
Qed.

Lemma C17_point_map_refuted_l :
  forall (A : Type) (RO : ops A) (ver : fmm_version),
  v_msp_store_by_element ver = true ->
  exists supp : list nat, NoDup supp /\ (forall i j, i < j < length supp -> nth i supp 0 < nth j supp 0) /\
    forall G4 (gt gs : geom) (st ss : space) nEs quad nbrs Sing (x : nat -> A),
      glue_single_layer RO ver G4 gt gs st ss supp supp nEs quad nbrs Sing x = None /\
      glue_laplace_hypersingular RO ver G4 gt gs st ss supp supp nEs quad nbrs Sing x = None /\
      glue_pot_single_layer RO ver G4 gs ss supp nEs quad x = None.
Proof. intros A RO ver. exact (@point_map_refuted A RO ver). Qed.

Lemma C07_maxwell_potentials_kernel_sum_l :
  forall (A : Type) (RO : ops A) (Hring : IsRing RO)
         (g : geom) (s : space) (quad : list qpt) (kern : kernel) (supp : list nat)
         (dist : vec3 A -> vec3 A -> A) (ik : A) (c : nat -> A) (pt : vec3 A) (d : nat),
  NoDup supp -> d < 3 ->
  comp (efield_potential RO g s quad kern supp dist ik (full_coeffs RO s supp c) pt) d =
  sumf (o0 RO) (oadd RO) (fun e => sumf (o0 RO) (oadd RO) (fun q =>
     omul RO (kern pt (ypt RO g e q) (vzero (o0 RO)) (vzero (o0 RO)))
       (osub RO (omul RO ik (mx_density RO g s c e q d))
          (omul RO (omul RO (omul RO (comp (vsub (osub RO) pt (ypt RO g e q)) d)
                                     (osub RO (omul RO ik (dist pt (ypt RO g e q))) (o1 RO)))
                            (mx_divdensity RO g s c e q))
                   (oinv RO (omul RO (omul RO ik (dist pt (ypt RO g e q))) (dist pt (ypt RO g e q))))))) quad) supp
  /\
  comp (mfield_potential RO g s quad kern supp dist ik (full_coeffs RO s supp c) pt) d =
  sumf (o0 RO) (oadd RO) (fun e => sumf (o0 RO) (oadd RO) (fun q =>
     comp (cross3 (omul RO) (osub RO) (vsub (osub RO) pt (ypt RO g e q))
        (vscal (omul RO)
           (omul RO (omul RO (kern pt (ypt RO g e q) (vzero (o0 RO)) (vzero (o0 RO)))
                             (osub RO (omul RO ik (dist pt (ypt RO g e q))) (o1 RO)))
                    (oinv RO (omul RO (dist pt (ypt RO g e q)) (dist pt (ypt RO g e q)))))
           (mkv (mx_density RO g s c e q)))) d) quad) supp
  /\
  (forall (x : nat -> A) (inseg : nat -> bool),
     comp (efield_potential RO g s quad kern supp dist ik x pt) d =
     oadd RO (comp (efield_potential RO g s quad kern (filter inseg supp) dist ik x pt) d)
             (comp (efield_potential RO g s quad kern (filter (fun e => negb (inseg e)) supp) dist ik x pt) d) /\
     comp (mfield_potential RO g s quad kern supp dist ik x pt) d =
     oadd RO (comp (mfield_potential RO g s quad kern (filter inseg supp) dist ik x pt) d)
             (comp (mfield_potential RO g s quad kern (filter (fun e => negb (inseg e)) supp) dist ik x pt) d)).
Proof.
  intros A RO Hring g s quad kern supp dist ik c pt d Hnd Hd. split; [|split].
  - exact (efield_potential_is_kernel_sum g s quad kern supp dist Hnd ik c pt d Hd).
  - exact (mfield_potential_is_kernel_sum g s quad kern supp dist Hnd ik c pt d Hd).
  - intros x inseg. split.
    + exact (efield_potential_additive g s quad kern supp dist ik x pt d inseg Hd).
    + exact (mfield_potential_additive g s quad kern supp dist ik x pt d inseg Hd).
Qed.
