(* Hand model (tie H) of the potential assemblers: core/dense_potential_assembler.py (coefficients mapped through
   map_to_full_grid . dof_transformation), default_scalar_potential_kernel, maxwell_efield_potential,
   maxwell_mfield_potential of core/numba_kernels.py, and grid_to_points / map_to_point_cloud of api/grid/grid.py.
   No proofs in this file. *)
From Coq Require Import List Arith Bool.
From BV Require Import AssemblyB.Defs AssemblyB.Model.
Import ListNotations.

Section PotModel.
Context {A : Type}.
Variable RO : ops A.
Notation r0 := (o0 RO).
Notation r1 := (o1 RO).
Notation radd := (oadd RO).
Notation rmul := (omul RO).
Notation rsub := (osub RO).
Notation rinv := (oinv RO).
Infix "+" := radd.
Infix "*" := rmul.
Infix "-" := rsub.
Notation sum := (sumf r0 radd).
Notation sumN := (sumn r0 radd).
Notation V3 := (vec3 A).
Notation geom := (@geom A).
Notation space := (@space A).

(* space.map_to_full_grid as COO triplets: row nshape*e + i, column local2global[e, i], value multiplier[e, i],
   for the support elements (space.py:381-392) *)
Definition map_to_full_grid (s : space) (supp : list nat) : list (trip A) :=
  flat_map (fun e => map (fun i => (Nat.add (Nat.mul (s_nshape s) e) i, s_l2g s e i, s_mult s e i))
                         (seq 0 (s_nshape s))) supp.

(* x_transformed = map_to_full_grid @ (dof_transformation @ x); dof_transformation is a parameter (identity for
   ordinary spaces, the barycentric coefficient matrix otherwise), given as triplets *)
Definition full_coeffs (s : space) (supp : list nat) (c : nat -> A) : nat -> A :=
  spmv r0 radd rmul (map_to_full_grid s supp) c.
Definition full_coeffs_dt (s : space) (supp : list nat) (dt : list (trip A)) (c : nat -> A) : nat -> A :=
  spmv r0 radd rmul (map_to_full_grid s supp) (spmv r0 radd rmul dt c).

(* make_localised_space (api/space/space.py:915-951): the space handed to the potential (and singular) assemblers.
   It inherits the support, the normal multipliers, the shapeset; it numbers its dofs nshape*<position in the
   support>+i with multipliers 1 on the support (0 elsewhere).  The potential kernels read normal multipliers,
   support and shapeset from THIS space. *)
Fixpoint pos_in (supp : list nat) (e : nat) (k : nat) : option nat :=
  match supp with
  | [] => None
  | a :: t => if Nat.eqb a e then Some k else pos_in t e (S k)
  end.
Definition localised_space (s : space) (supp : list nat) : space :=
  {| s_nshape := s_nshape s;
     s_l2g := fun e i => match pos_in supp e 0 with Some p => Nat.add (Nat.mul (s_nshape s) p) i | None => 0%nat end;
     s_mult := fun e i => match pos_in supp e 0 with Some _ => r1 | None => r0 end;
     s_nmult := s_nmult s;
     s_shape := s_shape s |}.

Section Scalar.
Variables (g : geom) (s : space) (quad : list (@qpt A)) (kern : @kernel A) (supp : list nat).

Definition ypt (e : nat) (q : @qpt A) : V3 := l2g_point RO g e (q_u q) (q_v q).

(* tmp[nq*pos + q] = sum_fun J_e * w_q * phi_fun(q) * x[nshape*e + fun] *)
Definition pot_tmp (x : nat -> A) (e : nat) (q : @qpt A) : A :=
  sumN (s_nshape s) (fun i =>
    ((g_intel g e * q_w q) * s_shape s i (q_u q) (q_v q)) * x (Nat.add (Nat.mul (s_nshape s) e) i)).

(* default_scalar_potential_kernel, one kernel component, at one evaluation point; the test normal is the dummy
   zero vector, the trial normals are normals * normal_multipliers (get_normals) *)
Definition scalar_potential (x : nat -> A) (pt : V3) : A :=
  sum (fun e => sum (fun q => kern pt (ypt e q) (vzero r0) (snormal RO g s e) * pot_tmp x e q) quad) supp.

(* DensePotentialAssembler.evaluate for an ordinary space *)
Definition potential_eval (c : nat -> A) (pt : V3) : A := scalar_potential (full_coeffs s supp c) pt.
End Scalar.

(* what the library actually runs: coefficients mapped with the user's space, kernel run on its localised space *)
Definition potential_eval_impl (g : geom) (s : space) (quad : list (@qpt A)) (kern : @kernel A) (supp : list nat)
    (c : nat -> A) (pt : V3) : A :=
  scalar_potential g (localised_space s supp) quad kern supp (full_coeffs s supp c) pt.

Section Maxwell.
Variables (g : geom) (s : space) (quad : list (@qpt A)) (kern : @kernel A) (supp : list nat).
Variable dist : V3 -> V3 -> A.

(* tmp1[:, nq*pos+q] = sum_fun (w_q * x[3e+fun] * len[e,fun]) * piola(e,fun,q) * J_e *)
Definition mx_tmp1 (x : nat -> A) (e : nat) (q : @qpt A) : V3 :=
  mkv (fun c => sumN (s_nshape s) (fun i =>
    (((q_w q * x (Nat.add (Nat.mul (s_nshape s) e) i)) * g_elen g e i)
       * comp (piola RO g e i (q_u q) (q_v q)) c) * g_intel g e)).
(* tmp2[nq*pos+q] = sum_fun 2 * (w_q * x * len) *)
Definition mx_tmp2 (x : nat -> A) (e : nat) (q : @qpt A) : A :=
  sumN (s_nshape s) (fun i => two RO * ((q_w q * x (Nat.add (Nat.mul (s_nshape s) e) i)) * g_elen g e i)).

Definition k0 (pt y : V3) : A := kern pt y (vzero r0) (vzero r0).

(* maxwell_mfield_potential: result += diff x (K * (ik*dist - 1) * tmp / dist^2) *)
Definition mfield_potential (ik : A) (x : nat -> A) (pt : V3) : V3 :=
  mkv (fun c => sum (fun e => sum (fun q =>
    let y := ypt g e q in
    let val := vscal rmul ((k0 pt y * (ik * dist pt y - r1)) * rinv (dist pt y * dist pt y))
                     (mx_tmp1 x e q) in
    comp (cross3 rmul rsub (vsub rsub pt y) val) c) quad) supp).

(* maxwell_efield_potential: sum K * (ik * tmp1[dim] - diff[dim] * (ik*dist - 1) * tmp2 / (ik * dist^2)) *)
Definition efield_potential (ik : A) (x : nat -> A) (pt : V3) : V3 :=
  mkv (fun c => sum (fun e => sum (fun q =>
    let y := ypt g e q in
    k0 pt y * (ik * comp (mx_tmp1 x e q) c
               - ((comp (vsub rsub pt y) c * (ik * dist pt y - r1)) * mx_tmp2 x e q)
                 * rinv ((ik * dist pt y) * dist pt y))) quad) supp).
(* the vector-potential part only (the div / gradient term dropped) *)
Definition efield_potential_vec (ik : A) (x : nat -> A) (pt : V3) : V3 :=
  mkv (fun c => sum (fun e => sum (fun q => k0 pt (ypt g e q) * (ik * comp (mx_tmp1 x e q) c)) quad) supp).
End Maxwell.

(* grid_to_points / map_to_point_cloud: all elements 0..n-1 in order, the rule's points in order *)
Definition grid_to_points (g : geom) (n : nat) (quad : list (@qpt A)) : list V3 :=
  flat_map (fun e => map (fun q => l2g_point RO g e (q_u q) (q_v q)) quad) (seq 0 n).

End PotModel.
