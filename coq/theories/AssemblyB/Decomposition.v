(* C06: the hypersingular and Maxwell electric-field models equal their single-layer decompositions,
   element-pair-wise and globally, for the regular and the singular model; zero row/column sums; symmetry. *)
From Coq Require Import List Arith Bool Lia Ring Morphisms Setoid.
From BV Require Import AssemblyB.Defs AssemblyB.Sums AssemblyB.Pairsum AssemblyB.Model.
Import ListNotations.

Section Decomposition.
Context {A : Type} {RO : ops A} {Hring : IsRing RO}.
Notation r0 := (o0 RO).
Notation r1 := (o1 RO).
Notation radd := (oadd RO).
Notation rmul := (omul RO).
Notation rsub := (osub RO).
Notation ropp := (oopp RO).
Notation rinv := (oinv RO).
Add Ring ARing3 : (@is_ring A RO Hring).

Infix "+" := radd.
Infix "*" := rmul.
Infix "-" := rsub.
Notation sum := (sumf r0 radd).
Notation sumN := (sumn r0 radd).
Notation dl := (delta r0 r1).
Notation geom := (@geom A).
Notation space := (@space A).
Notation ent := (entry r0 radd).
Notation psum := (psum (RO:=RO)).
Notation Pmat := (Pmat (RO:=RO)).

Definition allpairs (Et Es : list nat) : list (nat * nat) := flat_map (fun e => map (pair e) Es) Et.

Lemma in_allpairs : forall Et Es e f, In (e, f) (allpairs Et Es) <-> In e Et /\ In f Es.
Proof.
  intros. unfold allpairs. rewrite in_flat_map. split.
  - intros [x [Hx H]]. apply in_map_iff in H. destruct H as [y [Hy Hin]]. inversion Hy; subst. auto.
  - intros [He Hf]. exists e. split; [assumption|]. apply in_map. assumption.
Qed.

(* ---- entries of the assembled triplets as pair sums ----------------------------------------------- *)
Lemma entry_reg_assemble : forall (gt : geom) (st ss : space) identical Et Es loc fac I J,
  ent I J (reg_assemble RO gt st ss identical Et Es loc fac) =
  psum (allpairs Et Es) fst snd (s_nshape st) (s_nshape ss) (s_l2g st) (s_l2g ss)
       (fun x i j => (if skip gt identical (fst x) (snd x) then r0 else loc (fst x) (snd x) i j)
                     * fac (fst x) (snd x) i j) I J.
Proof.
  intros. unfold reg_assemble, psum, allpairs.
  rewrite entry_flat_map. rewrite sum_flat_map.
  apply sum_ext_all. intros e.
  rewrite entry_flat_map. rewrite sum_map.
  apply sum_ext_all. intros f. simpl.
  rewrite entry_flat_map. unfold sumn. apply sum_ext_all. intros i.
  rewrite entry_map. reflexivity.
Qed.

Definition sp_e (pr : @spair A) : nat := fst (fst pr).
Definition sp_f (pr : @spair A) : nat := snd (fst pr).
Definition sp_pts (pr : @spair A) : list (@spt A) := snd pr.

Lemma entry_sing_assemble : forall (st ss : space) pairs val I J,
  ent I J (sing_assemble RO st ss pairs val) =
  psum pairs sp_e sp_f (s_nshape st) (s_nshape ss) (s_l2g st) (s_l2g ss)
       (fun pr i j => (val (sp_e pr) (sp_f pr) (sp_pts pr) i j * s_mult ss (sp_f pr) j)
                      * s_mult st (sp_e pr) i) I J.
Proof.
  intros. unfold sing_assemble, psum.
  rewrite entry_flat_map. apply sum_ext_all. intros [[e f] pts].
  rewrite entry_flat_map. unfold sumn. apply sum_ext_all. intros i.
  rewrite entry_map. reflexivity.
Qed.


(* ---- generic lifting: a local factorisation of the scattered blocks gives a global congruence ------- *)
Section RegFactor.
Variables (gt : geom) (identical : bool).
Variables (st ss st' ss' : space) (Et Es : list nat).
Variables (loc fac loc' fac' : nat -> nat -> nat -> nat -> A).
Variables (P Q : nat -> nat -> nat -> A) (nE : nat).
Hypothesis Hst' : s_l2g st' = lnum (s_nshape st').
Hypothesis Hss' : s_l2g ss' = lnum (s_nshape ss').
Hypothesis HEt : forall e, In e Et -> (e < nE)%nat.
Hypothesis HEs : forall f, In f Es -> (f < nE)%nat.

Definition masked (l : nat -> nat -> nat -> nat -> A) (e f i j : nat) : A :=
  if skip gt identical e f then r0 else l e f i j.

Lemma reg_factor : forall I J,
  (forall e f i j, In e Et -> In f Es -> (i < s_nshape st)%nat -> (j < s_nshape ss)%nat ->
     masked loc e f i j * fac e f i j =
     sumN (s_nshape st') (fun a => sumN (s_nshape ss') (fun b =>
        (P e i a * (masked loc' e f a b * fac' e f a b)) * Q f j b))) ->
  ent I J (reg_assemble RO gt st ss identical Et Es loc fac) =
  sumN (Nat.mul (s_nshape st') nE) (fun r => sumN (Nat.mul (s_nshape ss') nE) (fun s =>
    (Pmat (s_l2g st) (s_nshape st) (s_nshape st') P r I *
     ent r s (reg_assemble RO gt st' ss' identical Et Es loc' fac')) *
    Pmat (s_l2g ss) (s_nshape ss) (s_nshape ss') Q s J)).
Proof.
  intros I J H. rewrite entry_reg_assemble.
  rewrite (psum_factor (allpairs Et Es) fst snd (s_nshape st) (s_nshape ss) (s_l2g st) (s_l2g ss)
             (s_nshape st') (s_nshape ss') (Nat.mul (s_nshape st') nE) (Nat.mul (s_nshape ss') nE) P Q
             (fun x a b => masked loc' (fst x) (snd x) a b * fac' (fst x) (snd x) a b)).
  - apply sumN_ext. intros r _. apply sumN_ext. intros s _.
    rewrite entry_reg_assemble. rewrite Hst', Hss'. reflexivity.
  - intros [e f] a Hin Ha. apply in_allpairs in Hin. destruct Hin as [He _]. apply HEt in He.
    unfold lnum. simpl. nia.
  - intros [e f] b Hin Hb. apply in_allpairs in Hin. destruct Hin as [_ Hf]. apply HEs in Hf.
    unfold lnum. simpl. nia.
  - intros [e f] i j Hin Hi Hj. apply in_allpairs in Hin. destruct Hin as [He Hf]. simpl.
    apply H; assumption.
Qed.
End RegFactor.


(* ---- linearity of the regular assembly in the local block ------------------------------------------- *)
Section RegLin.
Variables (gt : geom) (identical : bool) (st ss : space) (Et Es : list nat).
Notation RA := (reg_assemble RO gt st ss identical Et Es).

Lemma entry_reg_ext : forall loc1 fac1 loc2 fac2 I J,
  (forall e f i j, In e Et -> In f Es -> (i < s_nshape st)%nat -> (j < s_nshape ss)%nat ->
     masked gt identical loc1 e f i j * fac1 e f i j = masked gt identical loc2 e f i j * fac2 e f i j) ->
  ent I J (RA loc1 fac1) = ent I J (RA loc2 fac2).
Proof.
  intros. rewrite !entry_reg_assemble. apply psum_ext. intros [e f] i j Hin Hi Hj.
  apply in_allpairs in Hin. destruct Hin. simpl. apply H; assumption.
Qed.

Lemma entry_reg_add : forall l1 l2 fac I J,
  ent I J (RA (fun e f i j => l1 e f i j + l2 e f i j) fac) = ent I J (RA l1 fac) + ent I J (RA l2 fac).
Proof.
  intros. rewrite !entry_reg_assemble. rewrite <- psum_add. apply psum_ext. intros [e f] i j _ _ _. simpl.
  destruct (skip gt identical e f); ring.
Qed.

Lemma entry_reg_scal : forall c l fac I J,
  ent I J (RA (fun e f i j => c * l e f i j) fac) = c * ent I J (RA l fac).
Proof.
  intros. rewrite !entry_reg_assemble. rewrite <- psum_scal. apply psum_ext. intros [e f] i j _ _ _. simpl.
  destruct (skip gt identical e f); ring.
Qed.

Lemma entry_reg_sumN : forall m (l : nat -> nat -> nat -> nat -> nat -> A) fac I J,
  ent I J (RA (fun e f i j => sumN m (fun c => l c e f i j)) fac) = sumN m (fun c => ent I J (RA (l c) fac)).
Proof.
  intros. rewrite entry_reg_assemble.
  rewrite (sumN_ext m _ (fun c => psum (allpairs Et Es) fst snd (s_nshape st) (s_nshape ss) (s_l2g st) (s_l2g ss)
       (fun x i j => (if skip gt identical (fst x) (snd x) then r0 else l c (fst x) (snd x) i j)
                     * fac (fst x) (snd x) i j) I J)) by (intros; apply entry_reg_assemble).
  rewrite <- psum_sumN. apply psum_ext. intros [e f] i j _ _ _. simpl.
  destruct (skip gt identical e f).
  - rewrite sumN_zero_ext; [ring|]. intros. ring.
  - rewrite <- sumN_scal_r. reflexivity.
Qed.
End RegLin.


(* ---- the maps C_c (surface curl), N_c (normal weighting) ---------------------------------------------- *)
(* local: P1 shape function i of element e -> the constant function of e / the P1 function a of e *)
Definition curl_P (g : geom) (s : space) (c : nat) (e i a : nat) : A :=
  s_mult s e i * comp (scurl RO g s e i) c.
Definition curl_P_sing (g : geom) (s : space) (c : nat) (e i a : nat) : A :=
  s_mult s e i * comp (scurl_sing RO g s e i) c.
Definition norm_P (g : geom) (s : space) (c : nat) (e i a : nat) : A :=
  (dl i a * s_mult s e i) * comp (snormal RO g s e) c.
(* global: rows = DP0 dofs (elements) resp. DP1 dofs (3e+a), columns = dofs of the P1 space *)
Definition Cmat (g : geom) (s : space) (c r I : nat) : A := Pmat (s_l2g s) 3 1 (curl_P g s c) r I.
Definition Cmat_sing (g : geom) (s : space) (c r I : nat) : A := Pmat (s_l2g s) 3 1 (curl_P_sing g s c) r I.
Definition Nmat (g : geom) (s : space) (c r I : nat) : A := Pmat (s_l2g s) 3 3 (norm_P g s c) r I.

Definition is_p1 (s : space) : Prop :=
  s_nshape s = 3%nat /\ forall i u v, s_shape s i u v = p1_shape RO i u v.

Lemma dot3_sum : forall u v : vec3 A, dot3 radd rmul u v = sumN 3 (fun c => comp u c * comp v c).
Proof. intros [[a b] c] [[d e] f]. rewrite sumN_3. unfold dot3, comp, vx, vy, vz. simpl. ring. Qed.

Lemma scurl_sing_eq : forall g s e i, scurl_sing RO g s e i = scurl RO g s e i.
Proof.
  intros. unfold scurl_sing, scurl, snormal.
  destruct (g_normal g e) as [[n0 n1] n2].
  destruct (m32_apply radd rmul (g_jit g e) (fst (ref_grad RO i)) (snd (ref_grad RO i))) as [[a b] c].
  unfold cross3, vscal, vx, vy, vz. simpl. f_equal; [f_equal|]; ring.
Qed.

(* columns of the reference gradient sum to zero => the three surface curls of an element sum to zero *)
Lemma scurl_sum_zero : forall g s e c,
  (comp (scurl RO g s e 0) c + comp (scurl RO g s e 1) c) + comp (scurl RO g s e 2) c = r0.
Proof.
  intros. unfold scurl, ref_grad. simpl.
  destruct (g_normal g e) as [[n0 n1] n2]. destruct (g_jit g e) as [[[a0 a1] a2] [[b0 b1] b2]].
  destruct c as [|[|c]]; unfold comp, cross3, vscal, m32_apply, vadd, vx, vy, vz; simpl; ring.
Qed.

Section HypRegular.
Variables (gt gs : geom) (st ss : space) (quad : list (@qpt A)) (kern : @kernel A) (identical : bool).
Variables (Et Es : list nat) (nE : nat).
Hypothesis Hst : is_p1 st.
Hypothesis Hss : is_p1 ss.
Hypothesis HEt : forall e, In e Et -> (e < nE)%nat.
Hypothesis HEs : forall f, In f Es -> (f < nE)%nat.

Notation tmp := (tmpv RO gt gs st ss kern).
Notation phi_t i p := (p1_shape RO i (q_u p) (q_v p)).

(* the two single-layer local blocks on the same points *)
Definition S0 (e f : nat) : A := sum (fun p => sum (fun q => tmp e p f q) quad) quad.
Definition S1 (e f i j : nat) : A :=
  sum (fun p => sum (fun q => (tmp e p f q * phi_t j q) * phi_t i p) quad) quad.

Lemma scalar_loc_dp0 : forall e f a b,
  scalar_loc RO gt gs (dp0_of RO st) (dp0_of RO ss) quad kern e f a b = S0 e f.
Proof.
  intros. unfold scalar_loc, S0. apply sum_sum_ext. intros p q. unfold dp0_of, p0_shape. simpl.
  unfold tmpv, kval, snormal. simpl. ring.
Qed.

Lemma scalar_loc_dp1 : forall e f a b,
  scalar_loc RO gt gs (dp1_of RO st) (dp1_of RO ss) quad kern e f a b = S1 e f a b.
Proof.
  intros. unfold scalar_loc, S1. apply sum_sum_ext. intros p q. unfold dp1_of. simpl.
  unfold tmpv, kval, snormal. simpl. ring.
Qed.

(* generic hypersingular local block with coefficient kap in front of the normal term *)
Definition ghyp_loc (kap : A) (e f i j : nat) : A :=
  sum (fun p => sum (fun q =>
    tmp e p f q * (curl_prod RO gt gs st ss e f i j +
                   kap * ((phi_t i p * phi_t j q) * normal_prod RO gt gs st ss e f))) quad) quad.

(* element-pair-wise decomposition *)
Theorem ghyp_loc_decomp : forall kap e f i j,
  ghyp_loc kap e f i j =
  sumN 3 (fun c => (comp (scurl RO gt st e i) c * S0 e f) * comp (scurl RO gs ss f j) c) +
  kap * sumN 3 (fun c => (comp (snormal RO gt st e) c * S1 e f i j) * comp (snormal RO gs ss f) c).
Proof.
  intros. unfold ghyp_loc.
  rewrite (sum_sum_ext _ _ _ (fun p q => curl_prod RO gt gs st ss e f i j * tmp e p f q +
     (kap * normal_prod RO gt gs st ss e f) * ((tmp e p f q * phi_t j q) * phi_t i p))) by (intros; ring).
  rewrite sum_sum_add, !sum_sum_scal. fold (S0 e f). fold (S1 e f i j).
  unfold curl_prod, normal_prod. rewrite !dot3_sum. rewrite !sumN_3. ring.
Qed.

Lemma helm_is_ghyp : forall k e f i j,
  helm_hyp_loc RO gt gs st ss quad kern k e f i j = ghyp_loc (r0 - k * k) e f i j.
Proof.
  intros. destruct Hst as [_ Ht], Hss as [_ Hs]. unfold helm_hyp_loc, ghyp_loc.
  apply sum_sum_ext. intros p q. rewrite Ht, Hs. ring.
Qed.
Lemma modhelm_is_ghyp : forall w e f i j,
  modhelm_hyp_loc RO gt gs st ss quad kern w e f i j = ghyp_loc (w * w) e f i j.
Proof.
  intros. destruct Hst as [_ Ht], Hss as [_ Hs]. unfold modhelm_hyp_loc, ghyp_loc.
  apply sum_sum_ext. intros p q. rewrite Ht, Hs. ring.
Qed.
Lemma lap_is_ghyp : forall e f i j,
  lap_hyp_loc RO gt gs st ss quad kern e f i j = ghyp_loc r0 e f i j.
Proof.
  intros. unfold lap_hyp_loc, ghyp_loc. apply sum_sum_ext. intros p q. ring.
Qed.

Notation V0 := (scalar_regular RO gt gs (dp0_of RO st) (dp0_of RO ss) quad kern identical Et Es).
Notation V1 := (scalar_regular RO gt gs (dp1_of RO st) (dp1_of RO ss) quad kern identical Et Es).
Notation RA := (reg_assemble RO gt st ss identical Et Es).
Notation mf := (mult_fac RO st ss).

Lemma curl_term_global : forall c I J,
  ent I J (RA (fun e f i j => (comp (scurl RO gt st e i) c * S0 e f) * comp (scurl RO gs ss f j) c) mf) =
  sumN nE (fun r => sumN nE (fun s => (Cmat gt st c r I * ent r s V0) * Cmat gs ss c s J)).
Proof.
  intros. destruct Hst as [Hnt _], Hss as [Hns _].
  rewrite (reg_factor gt identical st ss (dp0_of RO st) (dp0_of RO ss) Et Es _ mf
             (scalar_loc RO gt gs (dp0_of RO st) (dp0_of RO ss) quad kern)
             (mult_fac RO (dp0_of RO st) (dp0_of RO ss))
             (curl_P gt st c) (curl_P gs ss c) nE); try assumption; try reflexivity.
  - simpl. rewrite Hnt, Hns, !Nat.add_0_r. reflexivity.
  - intros e f i j _ _ _ _. simpl. rewrite !sumN_1. unfold masked, mult_fac, curl_P. simpl.
    rewrite scalar_loc_dp0. destruct (skip gt identical e f); ring.
Qed.

Lemma normal_term_global : forall c I J,
  ent I J (RA (fun e f i j => (comp (snormal RO gt st e) c * S1 e f i j) * comp (snormal RO gs ss f) c) mf) =
  sumN (3 * nE) (fun r => sumN (3 * nE) (fun s => (Nmat gt st c r I * ent r s V1) * Nmat gs ss c s J)).
Proof.
  intros. destruct Hst as [Hnt _], Hss as [Hns _].
  rewrite (reg_factor gt identical st ss (dp1_of RO st) (dp1_of RO ss) Et Es _ mf
             (scalar_loc RO gt gs (dp1_of RO st) (dp1_of RO ss) quad kern)
             (mult_fac RO (dp1_of RO st) (dp1_of RO ss))
             (norm_P gt st c) (norm_P gs ss c) nE); try assumption; try reflexivity.
  - simpl s_nshape. rewrite Hnt, Hns. reflexivity.
  - intros e f i j _ _ Hi Hj. rewrite Hnt in Hi. rewrite Hns in Hj. simpl s_nshape.
    unfold masked, mult_fac, norm_P. simpl s_mult.
    rewrite (sumN_ext 3 _ (fun a => sumN 3 (fun b =>
       (dl i a * dl j b) * (((s_mult st e i * comp (snormal RO gt st e) c) *
        ((if skip gt identical e f then r0 else S1 e f a b))) * (s_mult ss f j * comp (snormal RO gs ss f) c))))).
    2:{ intros a _. apply sumN_ext. intros b _. rewrite scalar_loc_dp1. ring. }
    destruct i as [|[|[|i]]]; try lia; destruct j as [|[|[|j]]]; try lia;
      rewrite !sumN_3; unfold delta; simpl; destruct (skip gt identical e f); ring.
Qed.

Theorem ghyp_regular_decomp : forall kap I J,
  ent I J (RA (ghyp_loc kap) mf) =
  sumN 3 (fun c => sumN nE (fun r => sumN nE (fun s => (Cmat gt st c r I * ent r s V0) * Cmat gs ss c s J))) +
  kap * sumN 3 (fun c => sumN (3 * nE) (fun r => sumN (3 * nE) (fun s =>
                    (Nmat gt st c r I * ent r s V1) * Nmat gs ss c s J))).
Proof.
  intros.
  rewrite (entry_reg_ext gt identical st ss Et Es (ghyp_loc kap) mf
    (fun e f i j =>
       sumN 3 (fun c => (comp (scurl RO gt st e i) c * S0 e f) * comp (scurl RO gs ss f j) c) +
       kap * sumN 3 (fun c => (comp (snormal RO gt st e) c * S1 e f i j) * comp (snormal RO gs ss f) c)) mf).
  2:{ intros. unfold masked. rewrite ghyp_loc_decomp. reflexivity. }
  rewrite entry_reg_add, entry_reg_scal, !entry_reg_sumN.
  f_equal; [|f_equal]; apply sumN_ext; intros c _; [apply curl_term_global | apply normal_term_global].
Qed.

End HypRegular.


(* ---- singular part: generic lifting and linearity --------------------------------------------------- *)
Section SingFactor.
Variables (st ss st' ss' : space) (pairs : list (@spair A)).
Variables (val val' : nat -> nat -> list (@spt A) -> nat -> nat -> A).
Variables (P Q : nat -> nat -> nat -> A) (nE : nat).
Hypothesis Hst' : s_l2g st' = lnum (s_nshape st').
Hypothesis Hss' : s_l2g ss' = lnum (s_nshape ss').
Hypothesis Hpairs : forall pr, In pr pairs -> (sp_e pr < nE)%nat /\ (sp_f pr < nE)%nat.

Lemma sing_factor : forall I J,
  (forall pr i j, In pr pairs -> (i < s_nshape st)%nat -> (j < s_nshape ss)%nat ->
     (val (sp_e pr) (sp_f pr) (sp_pts pr) i j * s_mult ss (sp_f pr) j) * s_mult st (sp_e pr) i =
     sumN (s_nshape st') (fun a => sumN (s_nshape ss') (fun b =>
        (P (sp_e pr) i a *
          ((val' (sp_e pr) (sp_f pr) (sp_pts pr) a b * s_mult ss' (sp_f pr) b) * s_mult st' (sp_e pr) a))
        * Q (sp_f pr) j b))) ->
  ent I J (sing_assemble RO st ss pairs val) =
  sumN (Nat.mul (s_nshape st') nE) (fun r => sumN (Nat.mul (s_nshape ss') nE) (fun s =>
    (Pmat (s_l2g st) (s_nshape st) (s_nshape st') P r I * ent r s (sing_assemble RO st' ss' pairs val')) *
    Pmat (s_l2g ss) (s_nshape ss) (s_nshape ss') Q s J)).
Proof.
  intros I J H. rewrite entry_sing_assemble.
  rewrite (psum_factor pairs sp_e sp_f (s_nshape st) (s_nshape ss) (s_l2g st) (s_l2g ss)
             (s_nshape st') (s_nshape ss') (Nat.mul (s_nshape st') nE) (Nat.mul (s_nshape ss') nE) P Q
             (fun pr a b => (val' (sp_e pr) (sp_f pr) (sp_pts pr) a b * s_mult ss' (sp_f pr) b)
                            * s_mult st' (sp_e pr) a)).
  - apply sumN_ext. intros r _. apply sumN_ext. intros s _.
    rewrite entry_sing_assemble. rewrite Hst', Hss'. reflexivity.
  - intros pr a Hin Ha. apply Hpairs in Hin. unfold lnum. nia.
  - intros pr b Hin Hb. apply Hpairs in Hin. unfold lnum. nia.
  - intros pr i j Hin Hi Hj. apply H; assumption.
Qed.
End SingFactor.

Section SingLin.
Variables (st ss : space) (pairs : list (@spair A)).
Notation SA := (sing_assemble RO st ss pairs).

Lemma entry_sing_ext : forall v1 v2 I J,
  (forall pr i j, In pr pairs -> (i < s_nshape st)%nat -> (j < s_nshape ss)%nat ->
     v1 (sp_e pr) (sp_f pr) (sp_pts pr) i j = v2 (sp_e pr) (sp_f pr) (sp_pts pr) i j) ->
  ent I J (SA v1) = ent I J (SA v2).
Proof.
  intros. rewrite !entry_sing_assemble. apply psum_ext. intros pr i j Hin Hi Hj. rewrite H; auto.
Qed.

Lemma entry_sing_add : forall v1 v2 I J,
  ent I J (SA (fun e f pts i j => v1 e f pts i j + v2 e f pts i j)) = ent I J (SA v1) + ent I J (SA v2).
Proof.
  intros. rewrite !entry_sing_assemble. rewrite <- psum_add. apply psum_ext. intros. ring.
Qed.

Lemma entry_sing_scal : forall c v I J,
  ent I J (SA (fun e f pts i j => c * v e f pts i j)) = c * ent I J (SA v).
Proof.
  intros. rewrite !entry_sing_assemble. rewrite <- psum_scal. apply psum_ext. intros. ring.
Qed.

Lemma entry_sing_sumN : forall m (v : nat -> nat -> nat -> list (@spt A) -> nat -> nat -> A) I J,
  ent I J (SA (fun e f pts i j => sumN m (fun c => v c e f pts i j))) = sumN m (fun c => ent I J (SA (v c))).
Proof.
  intros. rewrite entry_sing_assemble.
  rewrite (sumN_ext m _ (fun c => psum pairs sp_e sp_f (s_nshape st) (s_nshape ss) (s_l2g st) (s_l2g ss)
       (fun pr i j => (v c (sp_e pr) (sp_f pr) (sp_pts pr) i j * s_mult ss (sp_f pr) j)
                      * s_mult st (sp_e pr) i) I J)) by (intros; apply entry_sing_assemble).
  rewrite <- psum_sumN. apply psum_ext. intros. rewrite <- !sumN_scal_r. reflexivity.
Qed.
End SingLin.

Section HypSingular.
Variables (g : geom) (st ss : space) (kern : @kernel A) (pairs : list (@spair A)) (nE : nat).
Hypothesis Hst : is_p1 st.
Hypothesis Hss : is_p1 ss.
Hypothesis Hpairs : forall pr, In pr pairs -> (sp_e pr < nE)%nat /\ (sp_f pr < nE)%nat.

Notation kv := (skval RO g st ss kern).
Notation pt_t i x := (p1_shape RO i (fst (sp_t x)) (snd (sp_t x))).
Notation pt_s j x := (p1_shape RO j (fst (sp_s x)) (snd (sp_s x))).

Definition SS0 (e f : nat) (pts : list (@spt A)) : A := sum (fun x => kv e f x * sp_w x) pts * jj RO g e f.
Definition SS1 (e f : nat) (pts : list (@spt A)) (i j : nat) : A :=
  sum (fun x => ((kv e f x * sp_w x) * pt_t i x) * pt_s j x) pts * jj RO g e f.

Lemma scalar_sing_dp0 : forall e f pts a b,
  scalar_sing_val RO g (dp0_of RO st) (dp0_of RO ss) kern e f pts a b = SS0 e f pts.
Proof.
  intros. unfold scalar_sing_val, SS0. f_equal. apply sum_ext_all. intros x.
  unfold phit, phis, skval, snormal, dp0_of, p0_shape. simpl. ring.
Qed.
Lemma scalar_sing_dp1 : forall e f pts a b,
  scalar_sing_val RO g (dp1_of RO st) (dp1_of RO ss) kern e f pts a b = SS1 e f pts a b.
Proof.
  intros. unfold scalar_sing_val, SS1. f_equal.
Qed.

Definition ghyp_sing_val (kap : A) (e f : nat) (pts : list (@spt A)) (i j : nat) : A :=
  sum (fun x => (kv e f x * (curl_prod_s RO g st ss e f i j +
        kap * ((pt_t i x * pt_s j x) * normal_prod_s RO g st ss e f))) * sp_w x) pts * jj RO g e f.

Theorem ghyp_sing_decomp : forall kap e f pts i j,
  ghyp_sing_val kap e f pts i j =
  sumN 3 (fun c => (comp (scurl RO g st e i) c * SS0 e f pts) * comp (scurl RO g ss f j) c) +
  kap * sumN 3 (fun c => (comp (snormal RO g st e) c * SS1 e f pts i j) * comp (snormal RO g ss f) c).
Proof.
  intros. unfold ghyp_sing_val, SS0, SS1.
  rewrite (sum_ext_all _ _ (fun x => curl_prod_s RO g st ss e f i j * (kv e f x * sp_w x) +
      (kap * normal_prod_s RO g st ss e f) * (((kv e f x * sp_w x) * pt_t i x) * pt_s j x))) by (intros; ring).
  rewrite sum_add, !sum_scal_l.
  unfold curl_prod_s, normal_prod_s. rewrite !scurl_sing_eq. rewrite !dot3_sum. rewrite !sumN_3. ring.
Qed.

Lemma helm_sing_is_ghyp : forall k e f pts i j,
  helm_hyp_sing_val RO g st ss kern k e f pts i j = ghyp_sing_val (r0 - k * k) e f pts i j.
Proof.
  intros. destruct Hst as [_ Ht], Hss as [_ Hs]. unfold helm_hyp_sing_val, ghyp_sing_val. f_equal.
  apply sum_ext_all. intros x. unfold phit, phis. rewrite Ht, Hs. ring.
Qed.
Lemma modhelm_sing_is_ghyp : forall w e f pts i j,
  modhelm_hyp_sing_val RO g st ss kern w e f pts i j = ghyp_sing_val (w * w) e f pts i j.
Proof.
  intros. destruct Hst as [_ Ht], Hss as [_ Hs]. unfold modhelm_hyp_sing_val, ghyp_sing_val. f_equal.
  apply sum_ext_all. intros x. unfold phit, phis. rewrite Ht, Hs. ring.
Qed.
Lemma lap_sing_is_ghyp : forall e f pts i j,
  lap_hyp_sing_val RO g st ss kern e f pts i j = ghyp_sing_val r0 e f pts i j.
Proof.
  intros. unfold lap_hyp_sing_val, ghyp_sing_val.
  rewrite (sum_ext_all _ (fun x => (kv e f x * (curl_prod_s RO g st ss e f i j + r0 * _)) * sp_w x)
             (fun x => curl_prod_s RO g st ss e f i j * (kv e f x * sp_w x))) by (intros; ring).
  rewrite sum_scal_l. ring.
Qed.

Notation SV0 := (scalar_singular RO g (dp0_of RO st) (dp0_of RO ss) kern pairs).
Notation SV1 := (scalar_singular RO g (dp1_of RO st) (dp1_of RO ss) kern pairs).
Notation SA := (sing_assemble RO st ss pairs).

Lemma curl_term_sing : forall c I J,
  ent I J (SA (fun e f pts i j => (comp (scurl RO g st e i) c * SS0 e f pts) * comp (scurl RO g ss f j) c)) =
  sumN nE (fun r => sumN nE (fun s => (Cmat g st c r I * ent r s SV0) * Cmat g ss c s J)).
Proof.
  intros. destruct Hst as [Hnt _], Hss as [Hns _].
  rewrite (sing_factor st ss (dp0_of RO st) (dp0_of RO ss) pairs _
             (scalar_sing_val RO g (dp0_of RO st) (dp0_of RO ss) kern)
             (curl_P g st c) (curl_P g ss c) nE); try assumption; try reflexivity.
  - simpl. rewrite Hnt, Hns, !Nat.add_0_r. reflexivity.
  - intros pr i j _ _ _. simpl. rewrite !sumN_1. unfold curl_P. simpl.
    rewrite scalar_sing_dp0. ring.
Qed.

Lemma normal_term_sing : forall c I J,
  ent I J (SA (fun e f pts i j =>
                 (comp (snormal RO g st e) c * SS1 e f pts i j) * comp (snormal RO g ss f) c)) =
  sumN (3 * nE) (fun r => sumN (3 * nE) (fun s => (Nmat g st c r I * ent r s SV1) * Nmat g ss c s J)).
Proof.
  intros. destruct Hst as [Hnt _], Hss as [Hns _].
  rewrite (sing_factor st ss (dp1_of RO st) (dp1_of RO ss) pairs _
             (scalar_sing_val RO g (dp1_of RO st) (dp1_of RO ss) kern)
             (norm_P g st c) (norm_P g ss c) nE); try assumption; try reflexivity.
  - simpl s_nshape. rewrite Hnt, Hns. reflexivity.
  - intros pr i j _ Hi Hj. rewrite Hnt in Hi. rewrite Hns in Hj. simpl s_nshape.
    unfold norm_P. simpl s_mult.
    rewrite (sumN_ext 3 _ (fun a => sumN 3 (fun b =>
       (dl i a * dl j b) * (((s_mult st (sp_e pr) i * comp (snormal RO g st (sp_e pr)) c) *
        SS1 (sp_e pr) (sp_f pr) (sp_pts pr) a b) * (s_mult ss (sp_f pr) j * comp (snormal RO g ss (sp_f pr)) c))))).
    2:{ intros a _. apply sumN_ext. intros b _. rewrite scalar_sing_dp1. ring. }
    destruct i as [|[|[|i]]]; try lia; destruct j as [|[|[|j]]]; try lia;
      rewrite !sumN_3; unfold delta; simpl; ring.
Qed.

Theorem ghyp_singular_decomp : forall kap I J,
  ent I J (SA (ghyp_sing_val kap)) =
  sumN 3 (fun c => sumN nE (fun r => sumN nE (fun s => (Cmat g st c r I * ent r s SV0) * Cmat g ss c s J))) +
  kap * sumN 3 (fun c => sumN (3 * nE) (fun r => sumN (3 * nE) (fun s =>
                    (Nmat g st c r I * ent r s SV1) * Nmat g ss c s J))).
Proof.
  intros.
  rewrite (entry_sing_ext st ss pairs (ghyp_sing_val kap)
    (fun e f pts i j =>
       sumN 3 (fun c => (comp (scurl RO g st e i) c * SS0 e f pts) * comp (scurl RO g ss f j) c) +
       kap * sumN 3 (fun c => (comp (snormal RO g st e) c * SS1 e f pts i j) * comp (snormal RO g ss f) c))).
  2:{ intros. apply ghyp_sing_decomp. }
  rewrite entry_sing_add, entry_sing_scal, !entry_sing_sumN.
  f_equal; [|f_equal]; apply sumN_ext; intros c _; [apply curl_term_sing | apply normal_term_sing].
Qed.

End HypSingular.


(* ---- Maxwell electric field ----------------------------------------------------------------------------- *)
(* reference vertices of the triangle *)
Definition vu (a : nat) : A := match a with 1%nat => r1 | _ => r0 end.
Definition vv (a : nat) : A := match a with 2%nat => r1 | _ => r0 end.
(* value of the Piola-transformed RWG shape function i of element e at vertex a, component c *)
Definition pv (g : geom) (e i a c : nat) : A := comp (piola RO g e i (vu a) (vv a)) c.

(* RWG functions are affine on each element: nodal P1 expansion (exact) *)
Lemma piola_affine : forall g e i u v c,
  comp (piola RO g e i u v) c = sumN 3 (fun a => p1_shape RO a u v * pv g e i a c).
Proof.
  intros. rewrite sumN_3. unfold pv, piola, rwg_ref, p1_shape, vu, vv.
  destruct (g_jac g e) as [[[a0 a1] a2] [[b0 b1] b2]].
  destruct i as [|[|i]]; destruct c as [|[|c]];
    unfold comp, vscal, m32_apply, vadd, vx, vy, vz; simpl; ring.
Qed.

Lemma sum_sum_sumN2 : forall X Y (l1 : list X) (l2 : list Y) n m (cf : nat -> nat -> A)
    (F : X -> Y -> nat -> nat -> A),
  sum (fun p => sum (fun q => sumN n (fun a => sumN m (fun b => cf a b * F p q a b))) l2) l1 =
  sumN n (fun a => sumN m (fun b => cf a b * sum (fun p => sum (fun q => F p q a b) l2) l1)).
Proof.
  intros.
  transitivity (sum (fun p => sumN n (fun a => sumN m (fun b => sum (fun q => cf a b * F p q a b) l2))) l1).
  { apply sum_ext_all. intros p. unfold sumn. rewrite sum_swap. apply sum_ext_all. intros a. apply sum_swap. }
  unfold sumn. rewrite sum_swap. apply sum_ext_all. intros a. rewrite sum_swap. apply sum_ext_all. intros b.
  rewrite <- sum_sum_scal. reflexivity.
Qed.

Section Efield.
Hypothesis Hinv : forall a b : A, rinv (a * b) = rinv a * rinv b.

(* local maps: RWG function i of element e -> component c in the nodal P1 basis (R), divergence (D) *)
Definition rwg_P (g : geom) (s : space) (c : nat) (e i a : nat) : A :=
  (s_mult s e i * g_elen g e i) * pv g e i a c.
Definition div_P (g : geom) (s : space) (e i a : nat) : A :=
  ((two RO * g_elen g e i) * s_mult s e i) * rinv (g_intel g e).
Definition Rmat (g : geom) (s : space) (c r I : nat) : A := Pmat (s_l2g s) 3 3 (rwg_P g s c) r I.
Definition Dmat (g : geom) (s : space) (r I : nat) : A := Pmat (s_l2g s) 3 1 (div_P g s) r I.

(* the scalar kernel the Maxwell assemblers see: called without normals *)
Definition kern0 (k : @kernel A) : @kernel A := fun x y _ _ => k x y (vzero r0) (vzero r0).

Lemma dot_piola : forall gt gs e f i j u v u' v',
  dot3 radd rmul (piola RO gt e i u v) (piola RO gs f j u' v') =
  sumN 3 (fun a => sumN 3 (fun b =>
     sumN 3 (fun c => pv gt e i a c * pv gs f j b c) * (p1_shape RO a u v * p1_shape RO b u' v'))).
Proof.
  intros. rewrite dot3_sum. rewrite !sumN_3. rewrite !piola_affine. rewrite !sumN_3. ring.
Qed.

Section EfieldRegular.
Variables (gt gs : geom) (st ss : space) (quad : list (@qpt A)) (kern : @kernel A) (identical : bool).
Variables (Et Es : list nat) (nE : nat) (mik ik : A).
Hypothesis Hnt : s_nshape st = 3%nat.
Hypothesis Hns : s_nshape ss = 3%nat.
Hypothesis HEt : forall e, In e Et -> (e < nE)%nat.
Hypothesis HEs : forall f, In f Es -> (f < nE)%nat.

Notation tmp0 := (tmpv0 RO gt gs kern).
Notation phi i p := (p1_shape RO i (q_u p) (q_v p)).
Definition M0 (e f : nat) : A := sum (fun p => sum (fun q => tmp0 e p f q) quad) quad.
Definition M1 (e f a b : nat) : A :=
  sum (fun p => sum (fun q => (tmp0 e p f q * phi b q) * phi a p) quad) quad.

Lemma scalar_loc_dp0_k0 : forall e f a b,
  scalar_loc RO gt gs (dp0_of RO st) (dp0_of RO ss) quad (kern0 kern) e f a b = M0 e f.
Proof.
  intros. unfold scalar_loc, M0. apply sum_sum_ext. intros p q. unfold dp0_of, p0_shape. simpl.
  unfold tmpv, tmpv0, kval, kval0, kern0. ring.
Qed.
Lemma scalar_loc_dp1_k0 : forall e f a b,
  scalar_loc RO gt gs (dp1_of RO st) (dp1_of RO ss) quad (kern0 kern) e f a b = M1 e f a b.
Proof.
  intros. unfold scalar_loc, M1. apply sum_sum_ext. intros p q. unfold dp1_of. simpl.
  unfold tmpv, tmpv0, kval, kval0, kern0. ring.
Qed.

Theorem efield_loc_decomp : forall e f i j,
  efield_loc RO gt gs quad kern mik ik e f i j =
  mik * sumN 3 (fun c => sumN 3 (fun a => sumN 3 (fun b => (pv gt e i a c * M1 e f a b) * pv gs f j b c)))
  - rinv ik * (((two RO * rinv (g_intel gt e)) * M0 e f) * (two RO * rinv (g_intel gs f))).
Proof.
  intros. unfold efield_loc.
  rewrite (sum_sum_ext _ _ _ (fun p q =>
     sumN 3 (fun a => sumN 3 (fun b => (mik * sumN 3 (fun c => pv gt e i a c * pv gs f j b c)) *
                                        ((tmp0 e p f q * phi b q) * phi a p)))
     + (r0 - (four RO * rinv (g_intel gt e * g_intel gs f)) * rinv ik) * tmp0 e p f q)).
  2:{ intros p q. rewrite dot_piola. rewrite !sumN_3. ring. }
  rewrite sum_sum_add, sum_sum_scal, sum_sum_sumN2. fold (M0 e f).
  rewrite Hinv. unfold four, two.
  rewrite (sumN_ext 3 (fun a => sumN 3 (fun b => _ * sum _ quad))
            (fun a => sumN 3 (fun b => (mik * sumN 3 (fun c => pv gt e i a c * pv gs f j b c)) * M1 e f a b)))
    by (intros; reflexivity).
  rewrite !sumN_3. ring.
Qed.

Notation V0 := (scalar_regular RO gt gs (dp0_of RO st) (dp0_of RO ss) quad (kern0 kern) identical Et Es).
Notation V1 := (scalar_regular RO gt gs (dp1_of RO st) (dp1_of RO ss) quad (kern0 kern) identical Et Es).
Notation RA := (reg_assemble RO gt st ss identical Et Es).
Notation mxf := (mx_fac RO gt gs st ss).

Lemma rwg_term_global : forall c I J,
  ent I J (RA (fun e f i j => sumN 3 (fun a => sumN 3 (fun b => (pv gt e i a c * M1 e f a b) * pv gs f j b c))) mxf) =
  sumN (3 * nE) (fun r => sumN (3 * nE) (fun s => (Rmat gt st c r I * ent r s V1) * Rmat gs ss c s J)).
Proof.
  intros.
  rewrite (reg_factor gt identical st ss (dp1_of RO st) (dp1_of RO ss) Et Es _ mxf
             (scalar_loc RO gt gs (dp1_of RO st) (dp1_of RO ss) quad (kern0 kern))
             (mult_fac RO (dp1_of RO st) (dp1_of RO ss))
             (rwg_P gt st c) (rwg_P gs ss c) nE); try assumption; try reflexivity.
  - simpl s_nshape. rewrite Hnt, Hns. reflexivity.
  - intros e f i j _ _ _ _. simpl s_nshape. unfold masked, mult_fac, mx_fac, rwg_P. simpl s_mult.
    destruct (skip gt identical e f).
    + rewrite sumN_zero_ext; [ring|]. intros a _. apply sumN_zero_ext. intros b _. ring.
    + rewrite !sumN_3.
      change (scalar_loc RO gt gs (dp1_of RO st) (dp1_of RO ss) quad (kern0 kern) e f) with (M1 e f). ring.
Qed.

Lemma div_term_global : forall I J,
  ent I J (RA (fun e f i j => ((two RO * rinv (g_intel gt e)) * M0 e f) * (two RO * rinv (g_intel gs f))) mxf) =
  sumN nE (fun r => sumN nE (fun s => (Dmat gt st r I * ent r s V0) * Dmat gs ss s J)).
Proof.
  intros.
  rewrite (reg_factor gt identical st ss (dp0_of RO st) (dp0_of RO ss) Et Es _ mxf
             (scalar_loc RO gt gs (dp0_of RO st) (dp0_of RO ss) quad (kern0 kern))
             (mult_fac RO (dp0_of RO st) (dp0_of RO ss))
             (div_P gt st) (div_P gs ss) nE); try assumption; try reflexivity.
  - simpl. rewrite Hnt, Hns, !Nat.add_0_r. reflexivity.
  - intros e f i j _ _ _ _. simpl. rewrite !sumN_1. unfold masked, mult_fac, mx_fac, div_P. simpl.
    rewrite scalar_loc_dp0_k0. destruct (skip gt identical e f); ring.
Qed.

Theorem efield_regular_decomp : forall I J,
  ent I J (efield_regular RO gt gs st ss quad kern identical mik ik Et Es) =
  mik * sumN 3 (fun c => sumN (3 * nE) (fun r => sumN (3 * nE) (fun s =>
                  (Rmat gt st c r I * ent r s V1) * Rmat gs ss c s J)))
  - rinv ik * sumN nE (fun r => sumN nE (fun s => (Dmat gt st r I * ent r s V0) * Dmat gs ss s J)).
Proof.
  intros. unfold efield_regular.
  rewrite (entry_reg_ext gt identical st ss Et Es _ mxf
    (fun e f i j =>
       mik * sumN 3 (fun c => sumN 3 (fun a => sumN 3 (fun b => (pv gt e i a c * M1 e f a b) * pv gs f j b c)))
       + (r0 - rinv ik) * (((two RO * rinv (g_intel gt e)) * M0 e f) * (two RO * rinv (g_intel gs f)))) mxf).
  2:{ intros. unfold masked. rewrite efield_loc_decomp. destruct (skip gt identical e f); ring. }
  rewrite entry_reg_add, !entry_reg_scal, entry_reg_sumN, div_term_global.
  rewrite (sumN_ext 3 _ _ (fun c _ => rwg_term_global c I J)). ring.
Qed.

End EfieldRegular.

Section EfieldSingular.
Variables (g : geom) (st ss : space) (kern : @kernel A) (pairs : list (@spair A)) (nE : nat) (mik ik : A).
Hypothesis Hnt : s_nshape st = 3%nat.
Hypothesis Hns : s_nshape ss = 3%nat.
Hypothesis Hpairs : forall pr, In pr pairs -> (sp_e pr < nE)%nat /\ (sp_f pr < nE)%nat.

Notation kv0 := (skval0 RO g kern).
Notation pt_t i x := (p1_shape RO i (fst (sp_t x)) (snd (sp_t x))).
Notation pt_s j x := (p1_shape RO j (fst (sp_s x)) (snd (sp_s x))).

Definition MS0 (e f : nat) (pts : list (@spt A)) : A := sum (fun x => kv0 e f x * sp_w x) pts * jj RO g e f.
Definition MS1 (e f : nat) (pts : list (@spt A)) (a b : nat) : A :=
  sum (fun x => ((kv0 e f x * sp_w x) * pt_t a x) * pt_s b x) pts * jj RO g e f.

Theorem efield_sing_decomp : forall e f pts i j,
  efield_sing_val RO g kern mik ik e f pts i j =
  (g_elen g e i * g_elen g f j) *
  (mik * sumN 3 (fun c => sumN 3 (fun a => sumN 3 (fun b => (pv g e i a c * MS1 e f pts a b) * pv g f j b c)))
   - rinv ik * (((two RO * rinv (g_intel g e)) * MS0 e f pts) * (two RO * rinv (g_intel g f)))).
Proof.
  intros. unfold efield_sing_val, MS0.
  rewrite (sum_ext_all _ _ (fun x =>
     sumN 3 (fun a => sumN 3 (fun b =>
        (((g_elen g e i * g_elen g f j) * mik) * sumN 3 (fun c => pv g e i a c * pv g f j b c)) *
        (((kv0 e f x * sp_w x) * pt_t a x) * pt_s b x)))
     + ((g_elen g e i * g_elen g f j) * (r0 - four RO * rinv ((ik * g_intel g e) * g_intel g f)))
       * (kv0 e f x * sp_w x))).
  2:{ intros x. unfold piola_t, piola_s. rewrite dot_piola. rewrite !sumN_3. ring. }
  rewrite sum_add, sum_scal_l.
  assert (Hs : forall (cf : nat -> nat -> A) (F : @spt A -> nat -> nat -> A),
     sum (fun x => sumN 3 (fun a => sumN 3 (fun b => cf a b * F x a b))) pts =
     sumN 3 (fun a => sumN 3 (fun b => cf a b * sum (fun x => F x a b) pts))).
  { intros. unfold sumn. rewrite sum_swap. apply sum_ext_all. intros a. rewrite sum_swap.
    apply sum_ext_all. intros b. apply sum_scal_l. }
  rewrite Hs. rewrite !Hinv. unfold MS1, four, two. rewrite !sumN_3. ring.
Qed.

Notation SV0 := (scalar_singular RO g (dp0_of RO st) (dp0_of RO ss) (kern0 kern) pairs).
Notation SV1 := (scalar_singular RO g (dp1_of RO st) (dp1_of RO ss) (kern0 kern) pairs).
Notation SA := (sing_assemble RO st ss pairs).

Lemma rwg_term_sing : forall c I J,
  ent I J (SA (fun e f pts i j => (g_elen g e i * g_elen g f j) *
      sumN 3 (fun a => sumN 3 (fun b => (pv g e i a c * MS1 e f pts a b) * pv g f j b c)))) =
  sumN (3 * nE) (fun r => sumN (3 * nE) (fun s => (Rmat g st c r I * ent r s SV1) * Rmat g ss c s J)).
Proof.
  intros.
  rewrite (sing_factor st ss (dp1_of RO st) (dp1_of RO ss) pairs _
             (scalar_sing_val RO g (dp1_of RO st) (dp1_of RO ss) (kern0 kern))
             (rwg_P g st c) (rwg_P g ss c) nE); try assumption; try reflexivity.
  - simpl s_nshape. rewrite Hnt, Hns. reflexivity.
  - intros pr i j _ _ _. simpl s_nshape. unfold rwg_P. simpl s_mult. rewrite !sumN_3.
    change (scalar_sing_val RO g (dp1_of RO st) (dp1_of RO ss) (kern0 kern) (sp_e pr) (sp_f pr) (sp_pts pr))
      with (MS1 (sp_e pr) (sp_f pr) (sp_pts pr)). ring.
Qed.

Lemma div_term_sing : forall I J,
  ent I J (SA (fun e f pts i j => (g_elen g e i * g_elen g f j) *
      (((two RO * rinv (g_intel g e)) * MS0 e f pts) * (two RO * rinv (g_intel g f))))) =
  sumN nE (fun r => sumN nE (fun s => (Dmat g st r I * ent r s SV0) * Dmat g ss s J)).
Proof.
  intros.
  rewrite (sing_factor st ss (dp0_of RO st) (dp0_of RO ss) pairs _
             (scalar_sing_val RO g (dp0_of RO st) (dp0_of RO ss) (kern0 kern))
             (div_P g st) (div_P g ss) nE); try assumption; try reflexivity.
  - simpl. rewrite Hnt, Hns, !Nat.add_0_r. reflexivity.
  - intros pr i j _ _ _. simpl. rewrite !sumN_1. unfold div_P. simpl.
    assert (E : scalar_sing_val RO g (dp0_of RO st) (dp0_of RO ss) (kern0 kern) (sp_e pr) (sp_f pr) (sp_pts pr) 0 0
                = MS0 (sp_e pr) (sp_f pr) (sp_pts pr)).
    { unfold scalar_sing_val, MS0. f_equal. apply sum_ext_all. intros x.
      unfold phit, phis, skval, skval0, kern0, dp0_of, p0_shape. simpl. ring. }
    rewrite E. ring.
Qed.

Theorem efield_singular_decomp : forall I J,
  ent I J (efield_singular RO g st ss kern mik ik pairs) =
  mik * sumN 3 (fun c => sumN (3 * nE) (fun r => sumN (3 * nE) (fun s =>
                  (Rmat g st c r I * ent r s SV1) * Rmat g ss c s J)))
  - rinv ik * sumN nE (fun r => sumN nE (fun s => (Dmat g st r I * ent r s SV0) * Dmat g ss s J)).
Proof.
  intros. unfold efield_singular.
  rewrite (entry_sing_ext st ss pairs _
    (fun e f pts i j =>
       mik * sumN 3 (fun c => (g_elen g e i * g_elen g f j) *
                sumN 3 (fun a => sumN 3 (fun b => (pv g e i a c * MS1 e f pts a b) * pv g f j b c)))
       + (r0 - rinv ik) * ((g_elen g e i * g_elen g f j) *
            (((two RO * rinv (g_intel g e)) * MS0 e f pts) * (two RO * rinv (g_intel g f)))))).
  2:{ intros. rewrite efield_sing_decomp. rewrite sumN_scal_l. ring. }
  rewrite entry_sing_add, !entry_sing_scal, entry_sing_sumN, div_term_sing.
  rewrite (sumN_ext 3 _ _ (fun c _ => rwg_term_sing c I J)). ring.
Qed.

End EfieldSingular.
End Efield.

End Decomposition.

Arguments masked {A} RO.
Arguments curl_P {A} RO.
Arguments curl_P_sing {A} RO.
Arguments norm_P {A} RO.
Arguments Cmat {A} RO.
Arguments Cmat_sing {A} RO.
Arguments Nmat {A} RO.
Arguments is_p1 {A} RO.
Arguments S0 {A} RO.
Arguments S1 {A} RO.
Arguments ghyp_loc {A} RO.
Arguments SS0 {A} RO.
Arguments SS1 {A} RO.
Arguments ghyp_sing_val {A} RO.
Arguments vu {A} RO.
Arguments vv {A} RO.
Arguments pv {A} RO.
Arguments rwg_P {A} RO.
Arguments div_P {A} RO.
Arguments Rmat {A} RO.
Arguments Dmat {A} RO.
Arguments kern0 {A} RO.
Arguments M0 {A} RO.
Arguments M1 {A} RO.
Arguments MS0 {A} RO.
Arguments MS1 {A} RO.
