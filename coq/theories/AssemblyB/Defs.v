(* AssemblyB base definitions (no proofs): finite sums over a commutative ring given by its operations,
   triplet scatter (COO accumulation, the model of `result[r, c] += v` / scipy coo->csr duplicate summation),
   3-vectors.  Everything is parametric in the carrier and its operations so that the same definitions are
   evaluated over exact rationals (correspondence) and reasoned about over any commutative ring (proofs). *)
From Coq Require Import List Arith Bool Ring_theory.
Import ListNotations.

Section Defs.
Variable A : Type.
Variables (r0 r1 : A) (radd rmul rsub : A -> A -> A) (ropp : A -> A).

Fixpoint sumf {X : Type} (f : X -> A) (l : list X) : A :=
  match l with
  | [] => r0
  | x :: t => radd (f x) (sumf f t)
  end.

Definition sumn (n : nat) (f : nat -> A) : A := sumf f (seq 0 n).

Definition delta (a b : nat) : A := if Nat.eqb a b then r1 else r0.

(* COO triplets *)
Local Notation trip := (nat * nat * A)%type.
Definition t_row (t : trip) : nat := fst (fst t).
Definition t_col (t : trip) : nat := snd (fst t).
Definition t_val (t : trip) : A := snd t.

Definition entry (I J : nat) (ts : list trip) : A :=
  sumf (fun t => if Nat.eqb (t_row t) I && Nat.eqb (t_col t) J then t_val t else r0) ts.

(* dense view of a triplet list and products with vectors (vectors are functions nat -> A) *)
Definition matvec (ncols : nat) (M : nat -> nat -> A) (x : nat -> A) (I : nat) : A :=
  sumn ncols (fun J => rmul (M I J) (x J)).

(* sparse matvec directly on the triplets: (T x)[I] = sum over triplets with row I *)
Definition spmv (ts : list trip) (x : nat -> A) (I : nat) : A :=
  sumf (fun t => if Nat.eqb (t_row t) I then rmul (t_val t) (x (t_col t)) else r0) ts.
(* transposed product: (T' y)[J] *)
Definition spmv_t (ts : list trip) (y : nat -> A) (J : nat) : A :=
  sumf (fun t => if Nat.eqb (t_col t) J then rmul (t_val t) (y (t_row t)) else r0) ts.

(* 3-vectors *)
Definition vec3 : Type := (A * A * A)%type.
Definition vx (v : vec3) : A := fst (fst v).
Definition vy (v : vec3) : A := snd (fst v).
Definition vz (v : vec3) : A := snd v.
Definition comp (v : vec3) (c : nat) : A :=
  match c with 0 => vx v | 1 => vy v | _ => vz v end.
Definition mkv (f : nat -> A) : vec3 := (f 0, f 1, f 2).
Definition vadd (u v : vec3) : vec3 := (radd (vx u) (vx v), radd (vy u) (vy v), radd (vz u) (vz v)).
Definition vsub (u v : vec3) : vec3 := (rsub (vx u) (vx v), rsub (vy u) (vy v), rsub (vz u) (vz v)).
Definition vscal (a : A) (v : vec3) : vec3 := (rmul a (vx v), rmul a (vy v), rmul a (vz v)).
Definition dot3 (u v : vec3) : A :=
  radd (radd (rmul (vx u) (vx v)) (rmul (vy u) (vy v))) (rmul (vz u) (vz v)).
Definition cross3 (u v : vec3) : vec3 :=
  (rsub (rmul (vy u) (vz v)) (rmul (vz u) (vy v)),
   rsub (rmul (vz u) (vx v)) (rmul (vx u) (vz v)),
   rsub (rmul (vx u) (vy v)) (rmul (vy u) (vx v))).
Definition vzero : vec3 := (r0, r0, r0).

(* a 3x2 matrix given by its two columns, applied to a reference vector (u, v) *)
Definition mat32 : Type := (vec3 * vec3)%type.
Definition m32_apply (M : mat32) (u v : A) : vec3 := vadd (vscal u (fst M)) (vscal v (snd M)).

End Defs.

(* the operations of the coefficient ring, packaged (models take one [ops] argument) *)
Record ops (A : Type) : Type := mk_ops {
  o0 : A; o1 : A; oadd : A -> A -> A; omul : A -> A -> A; osub : A -> A -> A; oopp : A -> A; oinv : A -> A }.
Arguments o0 {A} o. Arguments o1 {A} o. Arguments oadd {A} o. Arguments omul {A} o.
Arguments osub {A} o. Arguments oopp {A} o. Arguments oinv {A} o.
Arguments mk_ops {A}.

Class IsRing {A : Type} (RO : ops A) : Prop :=
  is_ring : ring_theory (o0 RO) (o1 RO) (oadd RO) (omul RO) (osub RO) (oopp RO) (@eq A).

Notation trip A := (nat * nat * A)%type (only parsing).

Arguments sumf {A} r0 radd {X} f l.
Arguments sumn {A} r0 radd n f.
Arguments delta {A} r0 r1 a b.
Arguments entry {A} r0 radd I J ts.
Arguments t_row {A} t.
Arguments t_col {A} t.
Arguments t_val {A} t.
Arguments matvec {A} r0 radd rmul ncols M x I.
Arguments spmv {A} r0 radd rmul ts x I.
Arguments spmv_t {A} r0 radd rmul ts y J.
Arguments vx {A} v.
Arguments vy {A} v.
Arguments vz {A} v.
Arguments comp {A} v c.
Arguments mkv {A} f.
Arguments vadd {A} radd u v.
Arguments vsub {A} rsub u v.
Arguments vscal {A} rmul a v.
Arguments dot3 {A} radd rmul u v.
Arguments cross3 {A} rmul rsub u v.
Arguments vzero {A} r0.
Arguments m32_apply {A} radd rmul M u v.
