(* Correspondence support for the AssemblyB models (C06, C07, C17, C02): exact complex-rational carrier on
   Bignums BigQ, surrogate kernels given by coefficient tables (the harness builds the same polynomial as a
   numba function), builders of geometry/space records from lists, and the comparison of model output with
   what the implementation returned (exact rationals of its doubles).  No proofs. *)
From Coq Require Import List Arith Bool ZArith.
From Bignums Require Import BigZ BigQ.
From BV Require Import AssemblyB.Defs AssemblyB.Model AssemblyB.PotModel.
Import ListNotations.

(* ---- exact dyadic numbers m * 2^e and complex pairs of them ------------------------------------------ *)
(* Every input (doubles of the implementation, surrogate coefficients) is dyadic; +, -, * are exact and need no
   gcd.  1/x and sqrt x are rounded (relative error < 2^-200): they only occur where the implementation itself
   divides / takes square roots in floating point, and the comparison tolerance is 1e-11. *)
Definition dy : Type := (bigZ * bigZ)%type.
Definition dy0 : dy := (0%bigZ, 0%bigZ).
Definition dy1 : dy := (1%bigZ, 0%bigZ).
Definition dy_add (a b : dy) : dy :=
  let (ma, ea) := a in let (mb, eb) := b in
  match BigZ.compare ea eb with
  | Gt => (BigZ.add (BigZ.shiftl ma (BigZ.sub ea eb)) mb, eb)
  | _ => (BigZ.add ma (BigZ.shiftl mb (BigZ.sub eb ea)), ea)
  end.
Definition dy_opp (a : dy) : dy := (BigZ.opp (fst a), snd a).
Definition dy_sub (a b : dy) : dy := dy_add a (dy_opp b).
Definition dy_mul (a b : dy) : dy := (BigZ.mul (fst a) (fst b), BigZ.add (snd a) (snd b)).
Definition dy_is_zero (a : dy) : bool := match BigZ.compare (fst a) 0 with Eq => true | _ => false end.
Definition dy_inv (a : dy) : dy :=
  let (m, e) := a in
  if dy_is_zero a then dy0 else
  let p := BigZ.add (BigZ.log2 (BigZ.abs m)) 256 in
  (BigZ.div (BigZ.shiftl 1 p) m, BigZ.opp (BigZ.add e p)).
Definition dy_sqrt (a : dy) : dy :=
  let (m, e) := a in
  let r := BigZ.modulo e 2 in
  let m' := BigZ.shiftl m (BigZ.add r 512) in
  (BigZ.sqrt m', BigZ.sub (BigZ.div (BigZ.sub e r) 2) 256).
(* a <= b *)
Definition dy_leb (a b : dy) : bool :=
  match BigZ.compare (fst (dy_sub a b)) 0 with Gt => false | _ => true end.

Definition CQ : Type := (dy * dy)%type.
Definition cq0 : CQ := (dy0, dy0).
Definition cq1 : CQ := (dy1, dy0).
Definition cq_i : CQ := (dy0, dy1).
Definition cq_add (a b : CQ) : CQ := (dy_add (fst a) (fst b), dy_add (snd a) (snd b)).
Definition cq_sub (a b : CQ) : CQ := (dy_sub (fst a) (fst b), dy_sub (snd a) (snd b)).
Definition cq_opp (a : CQ) : CQ := (dy_opp (fst a), dy_opp (snd a)).
Definition cq_mul (a b : CQ) : CQ :=
  if dy_is_zero (snd a) && dy_is_zero (snd b) then (dy_mul (fst a) (fst b), dy0) else
  (dy_sub (dy_mul (fst a) (fst b)) (dy_mul (snd a) (snd b)),
   dy_add (dy_mul (fst a) (snd b)) (dy_mul (snd a) (fst b))).
Definition cq_inv (a : CQ) : CQ :=
  let n := dy_add (dy_mul (fst a) (fst a)) (dy_mul (snd a) (snd a)) in
  let i := dy_inv n in
  (dy_mul (fst a) i, dy_opp (dy_mul (snd a) i)).
Definition CQops : ops CQ := mk_ops cq0 cq1 cq_add cq_mul cq_sub cq_opp cq_inv.
Definition cq_of (q : dy) : CQ := (q, dy0).
Definition mkd (m e : Z) : dy := (BigZ.of_Z m, BigZ.of_Z e).

Definition cq_dist (x y : vec3 CQ) : CQ :=
  let d0 := dy_sub (fst (vx x)) (fst (vx y)) in
  let d1 := dy_sub (fst (vy x)) (fst (vy y)) in
  let d2 := dy_sub (fst (vz x)) (fst (vz y)) in
  cq_of (dy_sqrt (dy_add (dy_add (dy_mul d0 d0) (dy_mul d1 d1)) (dy_mul d2 d2))).

(* ---- builders --------------------------------------------------------------------------------------- *)
Section Build.
Context {A : Type} (z : A).
Definition zv : vec3 A := (z, z, z).
Definition nthA (l : list A) (n : nat) : A := nth n l z.
Definition mk_geom (corner : list (vec3 A)) (jac : list (mat32 A)) (normal : list (vec3 A)) (intel : list A)
    (jit : list (mat32 A)) (elen : list (list A)) (verts : list (nat * nat * nat)) : @geom A :=
  {| g_corner := fun e => nth e corner zv;
     g_jac := fun e => nth e jac (zv, zv);
     g_normal := fun e => nth e normal zv;
     g_intel := fun e => nth e intel z;
     g_jit := fun e => nth e jit (zv, zv);
     g_elen := fun e i => nth i (nth e elen []) z;
     g_verts := fun e => nth e verts (0, 0, 0)%nat |}.
End Build.

(* kind: 0 = constant shapeset, otherwise P1 shapeset (RWG spaces never evaluate s_shape in the models) *)
Definition mk_space {A} (RO : ops A) (nshape : nat) (l2g : list (list nat)) (mult : list (list A)) (nmult : list A)
    (kind : nat) : @space A :=
  {| s_nshape := nshape;
     s_l2g := fun e i => nth i (nth e l2g []) 0%nat;
     s_mult := fun e i => nth i (nth e mult []) (o0 RO);
     s_nmult := fun e => nth e nmult (o0 RO);
     s_shape := match kind with 0%nat => p0_shape RO | _ => p1_shape RO end |}.

(* ---- surrogate kernel ------------------------------------------------------------------------------ *)
(* K(x,y,nx,ny) = c0 + ux.x + uy.y + x.(M y) + nx.(N ny) + (p.ny + r.nx) * d.(x - y) *)
Record surr (A : Type) : Type := mk_surr {
  k_c0 : A; k_ux : vec3 A; k_uy : vec3 A; k_M : vec3 A * vec3 A * vec3 A; k_N : vec3 A * vec3 A * vec3 A;
  k_p : vec3 A; k_r : vec3 A; k_d : vec3 A }.
Arguments mk_surr {A}. Arguments k_c0 {A}. Arguments k_ux {A}. Arguments k_uy {A}. Arguments k_M {A}.
Arguments k_N {A}. Arguments k_p {A}. Arguments k_r {A}. Arguments k_d {A}.

Definition surr_kernel {A} (RO : ops A) (s : surr A) : @kernel A := fun x y nx ny =>
  let add := oadd RO in let mul := omul RO in
  let dot := dot3 add mul in
  let mv (M : vec3 A * vec3 A * vec3 A) (v : vec3 A) : vec3 A :=
      (dot (fst (fst M)) v, dot (snd (fst M)) v, dot (snd M) v) in
  add (add (add (add (add (k_c0 s) (dot (k_ux s) x)) (dot (k_uy s) y)) (dot x (mv (k_M s) y)))
           (dot nx (mv (k_N s) ny)))
      (mul (add (dot (k_p s) ny) (dot (k_r s) nx)) (dot (k_d s) (vsub (osub RO) x y))).

(* ---- comparison -------------------------------------------------------------------------------------- *)
Definition dy_close (tol a b : dy) : bool :=
  let d := dy_sub a b in dy_leb d tol && dy_leb (dy_opp d) tol.
Definition cq_close (tol : dy) (a b : CQ) : bool := dy_close tol (fst a) (fst b) && dy_close tol (snd a) (snd b).

Fixpoint failing_idx {X Y} (ok : X -> Y -> bool) (n : nat) (l1 : list X) (l2 : list Y) : list nat :=
  match l1, l2 with
  | [], [] => []
  | a :: t1, b :: t2 => if ok a b then failing_idx ok (S n) t1 t2 else n :: failing_idx ok (S n) t1 t2
  | _, _ => [n; 9999%nat]      (* length mismatch *)
  end.

(* all entries of a triplet list, row major *)
Definition dense_entries {A} (RO : ops A) (nr nc : nat) (ts : list (trip A)) : list A :=
  flat_map (fun I => map (fun J => entry (o0 RO) (oadd RO) I J ts) (seq 0 nc)) (seq 0 nr).

Definition cmp_dense (tol : dy) (nr nc : nat) (ts : list (trip CQ)) (impl : list CQ) : list nat :=
  failing_idx (cq_close tol) 0 (dense_entries CQops nr nc ts) impl.
Definition cmp_list (tol : dy) (model impl : list CQ) : list nat := failing_idx (cq_close tol) 0 model impl.

(* number of model entries that are not exactly zero (evidence: non-trivial outputs) *)
Definition count_nonzero (l : list CQ) : nat :=
  length (filter (fun a => negb (dy_is_zero (fst a) && dy_is_zero (snd a))) l).

(* make_localised_space: tables of the implementation's localised space against the model *)
Definition nat_lists_eqb (a b : list (list nat)) : bool :=
  Nat.eqb (length a) (length b) &&
  forallb (fun p => Nat.eqb (length (fst p)) (length (snd p)) &&
                    forallb (fun q => Nat.eqb (fst q) (snd q)) (combine (fst p) (snd p))) (combine a b).
Definition cq_eqb (a b : CQ) : bool := dy_is_zero (dy_sub (fst a) (fst b)) && dy_is_zero (dy_sub (snd a) (snd b)).
Definition localised_ok (s : @space CQ) (supp : list nat) (nE : nat)
    (l2g_impl : list (list nat)) (mult_impl : list (list CQ)) (nmult_impl : list CQ) (supp_impl : list nat) : bool :=
  let ls := localised_space CQops s supp in
  let ns := s_nshape s in
  nat_lists_eqb (map (fun e => map (fun i => s_l2g ls e i) (seq 0 ns)) (seq 0 nE)) l2g_impl &&
  forallb (fun e => forallb (fun i => cq_eqb (s_mult ls e i) (nth i (nth e mult_impl []) cq0)) (seq 0 ns)) (seq 0 nE) &&
  forallb (fun e => cq_eqb (s_nmult ls e) (nth e nmult_impl cq0)) (seq 0 nE) &&
  nat_lists_eqb [supp] [supp_impl].
