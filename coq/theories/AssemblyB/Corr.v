(* Correspondence support for the AssemblyB models (C06, C07, C17, C02): exact complex-rational carrier on
   Bignums BigQ, surrogate kernels given by coefficient tables (the harness builds the same polynomial as a
   numba function), builders of geometry/space records from lists, and the comparison of model output with
   what the implementation returned (exact rationals of its doubles).  No proofs. *)
From Coq Require Import List Arith Bool ZArith.
From Bignums Require Import BigZ BigQ.
From BV Require Import AssemblyB.Defs AssemblyB.Model.
Import ListNotations.

(* ---- complex rationals ---------------------------------------------------------------------------- *)
Definition CQ : Type := (bigQ * bigQ)%type.
Definition cq0 : CQ := (0%bigQ, 0%bigQ).
Definition cq1 : CQ := (1%bigQ, 0%bigQ).
Definition cq_add (a b : CQ) : CQ := (BigQ.add_norm (fst a) (fst b), BigQ.add_norm (snd a) (snd b)).
Definition cq_sub (a b : CQ) : CQ := (BigQ.sub_norm (fst a) (fst b), BigQ.sub_norm (snd a) (snd b)).
Definition cq_opp (a : CQ) : CQ := (BigQ.opp (fst a), BigQ.opp (snd a)).
Definition cq_mul (a b : CQ) : CQ :=
  (BigQ.sub_norm (BigQ.mul_norm (fst a) (fst b)) (BigQ.mul_norm (snd a) (snd b)),
   BigQ.add_norm (BigQ.mul_norm (fst a) (snd b)) (BigQ.mul_norm (snd a) (fst b))).
Definition cq_inv (a : CQ) : CQ :=
  let n := BigQ.add_norm (BigQ.mul_norm (fst a) (fst a)) (BigQ.mul_norm (snd a) (snd a)) in
  let i := BigQ.inv_norm n in
  (BigQ.mul_norm (fst a) i, BigQ.opp (BigQ.mul_norm (snd a) i)).
Definition CQops : ops CQ := mk_ops cq0 cq1 cq_add cq_mul cq_sub cq_opp cq_inv.
Definition cq_of (q : bigQ) : CQ := (q, 0%bigQ).

(* square root of a non-negative rational to relative accuracy 1e-30 (floor integer square root) *)
Definition bq_sqrt (q : bigQ) : bigQ :=
  match BigQ.red q with
  | BigQ.Qz z => let s := (10 ^ 30)%bigZ in
      BigQ.red (BigQ.Qq (BigZ.sqrt (z * s * s)) (BigN.of_N (Z.to_N (BigZ.to_Z s))))
  | BigQ.Qq n d =>
      let s := (10 ^ 30)%bigZ in
      let dz := BigZ.Pos d in
      BigQ.red (BigQ.Qq (BigZ.sqrt (n * dz * s * s)) (BigN.mul d (BigN.of_N (Z.to_N (BigZ.to_Z s)))))
  end.
Definition cq_dist (x y : vec3 CQ) : CQ :=
  let d0 := BigQ.sub_norm (fst (vx x)) (fst (vx y)) in
  let d1 := BigQ.sub_norm (fst (vy x)) (fst (vy y)) in
  let d2 := BigQ.sub_norm (fst (vz x)) (fst (vz y)) in
  cq_of (bq_sqrt (BigQ.add_norm (BigQ.add_norm (BigQ.mul_norm d0 d0) (BigQ.mul_norm d1 d1)) (BigQ.mul_norm d2 d2))).

(* ---- builders --------------------------------------------------------------------------------------- *)
Section Build.
Context {A : Type} (z : A).
Definition zv : vec3 A := (z, z, z).
Definition nthA (l : list A) (n : nat) : A := nth n l z.
Definition mk_geom (corner : list (vec3 A)) (jac : list (mat32 A)) (normal : list (vec3 A)) (intel : list A)
    (jit : list (mat32 A)) (elen : list (list A)) (verts : list (nat * nat * nat)) : @geom A :=
  {| g_corner := fun e => nth e corner zv;
     g_jac := fun e => nth e jac (zv, zv);
     g_normal := fun e => nth e normal zv;
     g_intel := fun e => nth e intel z;
     g_jit := fun e => nth e jit (zv, zv);
     g_elen := fun e i => nth i (nth e elen []) z;
     g_verts := fun e => nth e verts (0, 0, 0)%nat |}.
End Build.

(* kind: 0 = constant shapeset, otherwise P1 shapeset (RWG spaces never evaluate s_shape in the models) *)
Definition mk_space {A} (RO : ops A) (nshape : nat) (l2g : list (list nat)) (mult : list (list A)) (nmult : list A)
    (kind : nat) : @space A :=
  {| s_nshape := nshape;
     s_l2g := fun e i => nth i (nth e l2g []) 0%nat;
     s_mult := fun e i => nth i (nth e mult []) (o0 RO);
     s_nmult := fun e => nth e nmult (o0 RO);
     s_shape := match kind with 0%nat => p0_shape RO | _ => p1_shape RO end |}.

(* ---- surrogate kernel ------------------------------------------------------------------------------ *)
(* K(x,y,nx,ny) = c0 + ux.x + uy.y + x.(M y) + nx.(N ny) + (p.ny + r.nx) * d.(x - y) *)
Record surr (A : Type) : Type := mk_surr {
  k_c0 : A; k_ux : vec3 A; k_uy : vec3 A; k_M : vec3 A * vec3 A * vec3 A; k_N : vec3 A * vec3 A * vec3 A;
  k_p : vec3 A; k_r : vec3 A; k_d : vec3 A }.
Arguments mk_surr {A}. Arguments k_c0 {A}. Arguments k_ux {A}. Arguments k_uy {A}. Arguments k_M {A}.
Arguments k_N {A}. Arguments k_p {A}. Arguments k_r {A}. Arguments k_d {A}.

Definition surr_kernel {A} (RO : ops A) (s : surr A) : @kernel A := fun x y nx ny =>
  let add := oadd RO in let mul := omul RO in
  let dot := dot3 add mul in
  let mv (M : vec3 A * vec3 A * vec3 A) (v : vec3 A) : vec3 A :=
      (dot (fst (fst M)) v, dot (snd (fst M)) v, dot (snd M) v) in
  add (add (add (add (add (k_c0 s) (dot (k_ux s) x)) (dot (k_uy s) y)) (dot x (mv (k_M s) y)))
           (dot nx (mv (k_N s) ny)))
      (mul (add (dot (k_p s) ny) (dot (k_r s) nx)) (dot (k_d s) (vsub (osub RO) x y))).

(* ---- comparison -------------------------------------------------------------------------------------- *)
Definition bq_close (tol a b : bigQ) : bool :=
  let d := BigQ.sub_norm a b in
  match BigQ.compare d tol with Gt => false | _ =>
    match BigQ.compare (BigQ.opp d) tol with Gt => false | _ => true end end.
Definition cq_close (tol : bigQ) (a b : CQ) : bool := bq_close tol (fst a) (fst b) && bq_close tol (snd a) (snd b).

Fixpoint failing_idx {X Y} (ok : X -> Y -> bool) (n : nat) (l1 : list X) (l2 : list Y) : list nat :=
  match l1, l2 with
  | [], [] => []
  | a :: t1, b :: t2 => if ok a b then failing_idx ok (S n) t1 t2 else n :: failing_idx ok (S n) t1 t2
  | _, _ => [n; 999999%nat]      (* length mismatch *)
  end.

(* all entries of a triplet list, row major *)
Definition dense_entries {A} (RO : ops A) (nr nc : nat) (ts : list (trip A)) : list A :=
  flat_map (fun I => map (fun J => entry (o0 RO) (oadd RO) I J ts) (seq 0 nc)) (seq 0 nr).

Definition cmp_dense (tol : bigQ) (nr nc : nat) (ts : list (trip CQ)) (impl : list CQ) : list nat :=
  failing_idx (cq_close tol) 0 (dense_entries CQops nr nc ts) impl.
Definition cmp_list (tol : bigQ) (model impl : list CQ) : list nat := failing_idx (cq_close tol) 0 model impl.

(* number of model entries that are not exactly zero (evidence: non-trivial outputs) *)
Definition count_nonzero (l : list CQ) : nat :=
  length (filter (fun a => negb (match BigQ.compare (fst a) 0 with Eq => true | _ => false end &&
                                 match BigQ.compare (snd a) 0 with Eq => true | _ => false end)) l).
