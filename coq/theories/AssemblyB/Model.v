(* Hand model (tie H) of the dense boundary assemblers of bempp_cl/core/numba_kernels.py:
     default_scalar_regular_kernel / default_scalar_singular_kernel,
     {laplace,helmholtz,modified_helmholtz}_hypersingular_{regular,singular},
     maxwell_efield_regular_assembler / maxwell_efield_singular,
     maxwell_mfield_regular_assembler / maxwell_mfield_singular,
   and of the glue in core/dense_assembler.py (regular part over colour groups + singular part scattered through
   local2global / multipliers).
   Parameters: the coefficient ring (operations only), geometry data of the grid(s) (what GridData holds),
   the quadrature rule(s), the kernel function.  No proofs in this file. *)
From Coq Require Import List Arith Bool.
From BV Require Import AssemblyB.Defs.
Import ListNotations.

Section Model.
Context {A : Type}.
Variable RO : ops A.
Notation r0 := (o0 RO).
Notation r1 := (o1 RO).
Notation radd := (oadd RO).
Notation rmul := (omul RO).
Notation rsub := (osub RO).
Notation ropp := (oopp RO).
Notation rinv := (oinv RO).

Infix "+" := radd.
Infix "*" := rmul.
Infix "-" := rsub.
Notation sum := (sumf r0 radd).
Notation sumN := (sumn r0 radd).
Notation V3 := (vec3 A).
Notation dot := (dot3 radd rmul).
Notation cross := (cross3 rmul rsub).
Notation scal := (vscal rmul).

Definition two : A := r1 + r1.
Definition four : A := two + two.

(* ---- data ------------------------------------------------------------------------------------------ *)
(* GridData fields used by the assemblers, per element *)
Record geom : Type := {
  g_corner : nat -> V3;                (* vertices[:, elements[0, e]] *)
  g_jac : nat -> mat32 A;              (* jacobians[e] : the two columns *)
  g_normal : nat -> V3;                (* normals[e] *)
  g_intel : nat -> A;                  (* integration_elements[e] *)
  g_jit : nat -> mat32 A;              (* jac_inv_trans[e] : the two columns *)
  g_elen : nat -> nat -> A;            (* get_edge_lengths(grid_data, .)[e, i] (a Euclidean norm: parameter) *)
  g_verts : nat -> (nat * nat * nat)   (* elements[:, e] *)
}.

(* the part of a function space the assemblers read *)
Record space : Type := {
  s_nshape : nat;
  s_l2g : nat -> nat -> nat;           (* local2global[e, i] *)
  s_mult : nat -> nat -> A;            (* local_multipliers[e, i] *)
  s_nmult : nat -> A;                  (* normal_multipliers[e] *)
  s_shape : nat -> A -> A -> A         (* shapeset.evaluate(local)[0, i, .] *)
}.

Definition qpt : Type := (A * A * A)%type.      (* (u, v, weight) *)
Definition q_u (q : qpt) : A := fst (fst q).
Definition q_v (q : qpt) : A := snd (fst q).
Definition q_w (q : qpt) : A := snd q.

Definition kernel : Type := V3 -> V3 -> V3 -> V3 -> A.   (* test point, trial point, test normal, trial normal *)

(* shapesets (api/space/shapesets.py) *)
Definition p0_shape (i : nat) (u v : A) : A := r1.
Definition p1_shape (i : nat) (u v : A) : A :=
  match i with 0%nat => (r1 - u) - v | 1%nat => u | _ => v end.
(* _rwg0_shapeset_evaluate: function i, reference components (a, b) *)
Definition rwg_ref (i : nat) (u v : A) : A * A :=
  match i with 0%nat => (u, v - r1) | 1%nat => (u - r1, v) | _ => (u, v) end.
(* reference_gradient = [[-1, 1, 0], [-1, 0, 1]]: column i *)
Definition ref_grad (i : nat) : A * A :=
  match i with 0%nat => (r0 - r1, r0 - r1) | 1%nat => (r1, r0) | _ => (r0, r1) end.

(* ---- geometry helpers ------------------------------------------------------------------------------- *)
Definition l2g_point (g : geom) (e : nat) (u v : A) : V3 :=
  vadd radd (g_corner g e) (m32_apply radd rmul (g_jac g e) u v).

Definition snormal (g : geom) (s : space) (e : nat) : V3 := scal (s_nmult s e) (g_normal g e).

(* elements_adjacent *)
Definition adjacent (a b : nat * nat * nat) : bool :=
  let '(a0, a1, a2) := a in let '(b0, b1, b2) := b in
  Nat.eqb a0 b0 || Nat.eqb a0 b1 || Nat.eqb a0 b2 ||
  Nat.eqb a1 b0 || Nat.eqb a1 b1 || Nat.eqb a1 b2 ||
  Nat.eqb a2 b0 || Nat.eqb a2 b1 || Nat.eqb a2 b2.

(* surface curl of P1 shape function i on element e, times the normal multiplier:
   cross(normals[e], jac_inv_trans[e] @ reference_gradient[:, i]) * normal_multipliers[e] *)
Definition scurl (g : geom) (s : space) (e i : nat) : V3 :=
  scal (s_nmult s e)
       (cross (g_normal g e) (m32_apply radd rmul (g_jit g e) (fst (ref_grad i)) (snd (ref_grad i)))).
(* singular variant: cross(normals[e] * normal_multipliers[e], gradient) *)
Definition scurl_sing (g : geom) (s : space) (e i : nat) : V3 :=
  cross (snormal g s e) (m32_apply radd rmul (g_jit g e) (fst (ref_grad i)) (snd (ref_grad i))).

(* get_piola_transform: (jacobians[e] @ vals[:, i, point]) / integration_elements[e] *)
Definition piola (g : geom) (e i : nat) (u v : A) : V3 :=
  scal (rinv (g_intel g e)) (m32_apply radd rmul (g_jac g e) (fst (rwg_ref i u v)) (snd (rwg_ref i u v))).

(* ---- regular assemblers ----------------------------------------------------------------------------- *)
Section Regular.
Variables (gt gs : geom) (st ss : space) (quad : list qpt) (kern : kernel) (identical : bool).

Definition xt (e : nat) (p : qpt) : V3 := l2g_point gt e (q_u p) (q_v p).
Definition ys (f : nat) (q : qpt) : V3 := l2g_point gs f (q_u q) (q_v q).

Definition kval (e : nat) (p : qpt) (f : nat) (q : qpt) : A :=
  kern (xt e p) (ys f q) (snormal gt st e) (snormal gs ss f).

(* tmp[index] = kernel_values[index] * (local_factors[index] * quad_weights[test_point_index]) *)
Definition tmpv (e : nat) (p : qpt) (f : nat) (q : qpt) : A :=
  kval e p f q * (((q_w q * g_intel gs f) * g_intel gt e) * q_w p).

Definition skip (e f : nat) : bool := identical && adjacent (g_verts gt e) (g_verts gt f).

(* generic regular assembly loop: the local block [loc e f i j] is accumulated only for non-skipped pairs, the
   (zero or accumulated) block is then scattered with the factor [fac e f i j] *)
Definition reg_assemble (Et Es : list nat) (loc fac : nat -> nat -> nat -> nat -> A) : list (trip A) :=
  flat_map (fun e =>
    flat_map (fun f =>
      flat_map (fun i =>
        map (fun j => (s_l2g st e i, s_l2g ss f j, (if skip e f then r0 else loc e f i j) * fac e f i j))
            (seq 0 (s_nshape ss)))
        (seq 0 (s_nshape st))) Es) Et.

Definition mult_fac (e f i j : nat) : A := s_mult st e i * s_mult ss f j.

(* default_scalar_regular_kernel *)
Definition scalar_loc (e f i j : nat) : A :=
  sum (fun p => sum (fun q =>
    (tmpv e p f q * s_shape ss j (q_u q) (q_v q)) * s_shape st i (q_u p) (q_v p)) quad) quad.
Definition scalar_regular (Et Es : list nat) : list (trip A) := reg_assemble Et Es scalar_loc mult_fac.

(* hypersingular regular kernels *)
Definition curl_prod (e f i j : nat) : A := dot (scurl gt st e i) (scurl gs ss f j).
Definition normal_prod (e f : nat) : A := dot (snormal gt st e) (snormal gs ss f).

Definition lap_hyp_loc (e f i j : nat) : A :=
  sum (fun p => sum (fun q => tmpv e p f q * curl_prod e f i j) quad) quad.
(* helmholtz: curl_product - k*k*phi_i(p)*phi_j(q)*normal_prod ; modified: + w*w*... *)
Definition helm_hyp_loc (k : A) (e f i j : nat) : A :=
  sum (fun p => sum (fun q =>
    tmpv e p f q * (curl_prod e f i j -
       (((k * k) * s_shape st i (q_u p) (q_v p)) * s_shape ss j (q_u q) (q_v q)) * normal_prod e f)) quad) quad.
Definition modhelm_hyp_loc (w : A) (e f i j : nat) : A :=
  sum (fun p => sum (fun q =>
    tmpv e p f q * (curl_prod e f i j +
       (((w * w) * s_shape st i (q_u p) (q_v p)) * s_shape ss j (q_u q) (q_v q)) * normal_prod e f)) quad) quad.
Definition lap_hyp_regular Et Es := reg_assemble Et Es lap_hyp_loc mult_fac.
Definition helm_hyp_regular k Et Es := reg_assemble Et Es (helm_hyp_loc k) mult_fac.
Definition modhelm_hyp_regular w Et Es := reg_assemble Et Es (modhelm_hyp_loc w) mult_fac.

(* Maxwell: kernel called with no normals *)
Definition kval0 (e : nat) (p : qpt) (f : nat) (q : qpt) : A :=
  kern (xt e p) (ys f q) (vzero r0) (vzero r0).
Definition tmpv0 (e : nat) (p : qpt) (f : nat) (q : qpt) : A :=
  kval0 e p f q * (((q_w q * g_intel gs f) * g_intel gt e) * q_w p).
Definition mx_fac (e f i j : nat) : A :=
  ((s_mult st e i * s_mult ss f j) * g_elen gt e i) * g_elen gs f j.

(* electric field: tmp * (-1j*k * <test_basis, trial_basis> - divergence_product / (1j*k)),
   divergence_product = 4 / (J_e * J_f).  mik models -1j*wavenumber, ik models 1j*wavenumber. *)
Definition efield_loc (mik ik : A) (e f i j : nat) : A :=
  sum (fun p => sum (fun q =>
    tmpv0 e p f q *
      (mik * dot (piola gt e i (q_u p) (q_v p)) (piola gs f j (q_u q) (q_v q))
       - (four * rinv (g_intel gt e * g_intel gs f)) * rinv ik)) quad) quad.
Definition efield_regular mik ik Et Es := reg_assemble Et Es (efield_loc mik ik) mx_fac.

(* magnetic field: tmp * diff . cross(test_basis, trial_basis) * (1j*k*dist - 1) / dist^2 ; dist is a parameter
   (Euclidean distance of the two points) *)
Variable dist : V3 -> V3 -> A.
Definition mfield_loc (ik : A) (e f i j : nat) : A :=
  sum (fun p => sum (fun q =>
    tmpv0 e p f q *
      ((dot (vsub rsub (xt e p) (ys f q))
            (cross (piola gt e i (q_u p) (q_v p)) (piola gs f j (q_u q) (q_v q)))
        * (ik * dist (xt e p) (ys f q) - r1))
       * rinv (dist (xt e p) (ys f q) * dist (xt e p) (ys f q)))) quad) quad.
Definition mfield_regular ik Et Es := reg_assemble Et Es (mfield_loc ik) mx_fac.

End Regular.

(* ---- singular assemblers ------------------------------------------------------------------------------ *)
(* one singular pair: test element, trial element, its rule: list of ((tu,tv),(su,sv),w) *)
Definition spt : Type := ((A * A) * (A * A) * A)%type.
Definition sp_t (x : spt) : A * A := fst (fst x).
Definition sp_s (x : spt) : A * A := snd (fst x).
Definition sp_w (x : spt) : A := snd x.
Definition spair : Type := (nat * nat * list spt)%type.

Section Singular.
Variables (g : geom) (st ss : space) (kern : kernel).

Definition sxt (e : nat) (x : spt) : V3 := l2g_point g e (fst (sp_t x)) (snd (sp_t x)).
Definition sys (f : nat) (x : spt) : V3 := l2g_point g f (fst (sp_s x)) (snd (sp_s x)).
Definition skval (e f : nat) (x : spt) : A := kern (sxt e x) (sys f x) (snormal g st e) (snormal g ss f).
Definition skval0 (e f : nat) (x : spt) : A := kern (sxt e x) (sys f x) (vzero r0) (vzero r0).
Definition phit (i : nat) (x : spt) : A := s_shape st i (fst (sp_t x)) (snd (sp_t x)).
Definition phis (j : nat) (x : spt) : A := s_shape ss j (fst (sp_s x)) (snd (sp_s x)).

(* generic: values of the singular kernel for pair number idx at [nt*ns*idx + i*ns + j], then
   dense_assembler scatters them: rows = test_l2g[...], cols = trial_l2g[...], values * trial_mult * test_mult *)
Definition sing_assemble (pairs : list spair) (val : nat -> nat -> list spt -> nat -> nat -> A) : list (trip A) :=
  flat_map (fun pr => let '(e, f, pts) := pr in
    flat_map (fun i =>
      map (fun j => (s_l2g st e i, s_l2g ss f j, (val e f pts i j * s_mult ss f j) * s_mult st e i))
          (seq 0 (s_nshape ss)))
      (seq 0 (s_nshape st))) pairs.

Definition jj (e f : nat) : A := g_intel g e * g_intel g f.

Definition scalar_sing_val (e f : nat) (pts : list spt) (i j : nat) : A :=
  sum (fun x => ((skval e f x * sp_w x) * phit i x) * phis j x) pts * jj e f.
Definition scalar_singular pairs := sing_assemble pairs scalar_sing_val.

Definition curl_prod_s (e f i j : nat) : A := dot (scurl_sing g st e i) (scurl_sing g ss f j).
Definition normal_prod_s (e f : nat) : A := dot (snormal g st e) (snormal g ss f).

Definition lap_hyp_sing_val (e f : nat) (pts : list spt) (i j : nat) : A :=
  sum (fun x => skval e f x * sp_w x) pts * (jj e f * curl_prod_s e f i j).
Definition helm_hyp_sing_val (k : A) (e f : nat) (pts : list spt) (i j : nat) : A :=
  sum (fun x => (skval e f x *
      (curl_prod_s e f i j - (((k * k) * phit i x) * phis j x) * normal_prod_s e f)) * sp_w x) pts * jj e f.
Definition modhelm_hyp_sing_val (w : A) (e f : nat) (pts : list spt) (i j : nat) : A :=
  sum (fun x => (skval e f x *
      (curl_prod_s e f i j + (((w * w) * phit i x) * phis j x) * normal_prod_s e f)) * sp_w x) pts * jj e f.
Definition lap_hyp_singular pairs := sing_assemble pairs lap_hyp_sing_val.
Definition helm_hyp_singular k pairs := sing_assemble pairs (helm_hyp_sing_val k).
Definition modhelm_hyp_singular w pairs := sing_assemble pairs (modhelm_hyp_sing_val w).

Definition piola_t (e i : nat) (x : spt) : V3 := piola g e i (fst (sp_t x)) (snd (sp_t x)).
Definition piola_s (f j : nat) (x : spt) : V3 := piola g f j (fst (sp_s x)) (snd (sp_s x)).

(* kernel * (-1j*k*<.,.> - 4/(1j*k*J_e*J_f)) * w * len_t * len_s ; then *= J_e*J_f *)
Definition efield_sing_val (mik ik : A) (e f : nat) (pts : list spt) (i j : nat) : A :=
  sum (fun x => (((skval0 e f x *
      (mik * dot (piola_t e i x) (piola_s f j x) - four * rinv ((ik * g_intel g e) * g_intel g f)))
      * sp_w x) * g_elen g e i) * g_elen g f j) pts * jj e f.
Definition efield_singular mik ik pairs := sing_assemble pairs (efield_sing_val mik ik).

Variable dist : V3 -> V3 -> A.
Definition mfield_sing_val (ik : A) (e f : nat) (pts : list spt) (i j : nat) : A :=
  sum (fun x => (((((skval0 e f x * (ik * dist (sxt e x) (sys f x) - r1))
      * rinv (dist (sxt e x) (sys f x) * dist (sxt e x) (sys f x)))
      * dot (vsub rsub (sxt e x) (sys f x)) (cross (piola_t e i x) (piola_s f j x)))
      * sp_w x) * g_elen g e i) * g_elen g f j) pts * jj e f.
Definition mfield_singular ik pairs := sing_assemble pairs (mfield_sing_val ik).

End Singular.

(* ---- dense_assembler.py: regular part over all pairs of the (same) grid ++ singular part --------------- *)
Section Dense.
Variables (g : geom) (st ss : space) (quad : list qpt) (kr ks : kernel) (Et Es : list nat) (pairs : list spair).
Definition scalar_dense := scalar_regular g g st ss quad kr true Et Es ++ scalar_singular g st ss ks pairs.
Definition lap_hyp_dense := lap_hyp_regular g g st ss quad kr true Et Es ++ lap_hyp_singular g st ss ks pairs.
Definition helm_hyp_dense (k : A) :=
  helm_hyp_regular g g st ss quad kr true k Et Es ++ helm_hyp_singular g st ss ks k pairs.
Definition modhelm_hyp_dense (k : A) :=
  modhelm_hyp_regular g g st ss quad kr true k Et Es ++ modhelm_hyp_singular g st ss ks k pairs.
Definition efield_dense (mik ik : A) :=
  efield_regular g g st ss quad kr true mik ik Et Es ++ efield_singular g st ss ks mik ik pairs.
Definition mfield_dense (dist : V3 -> V3 -> A) (ik : A) :=
  mfield_regular g g st ss quad kr true dist ik Et Es ++ mfield_singular g st ss ks dist ik pairs.
End Dense.

(* ---- the spaces the decompositions refer to --------------------------------------------------------- *)
(* DP0 / DP1 on the same grid with the same normal multipliers: element-local numbering, multipliers 1 *)
Definition dp0_of (s : space) : space :=
  {| s_nshape := 1%nat; s_l2g := fun e a => Nat.add (Nat.mul 1 e) a; s_mult := fun _ _ => r1; s_nmult := s_nmult s; s_shape := p0_shape |}.
Definition dp1_of (s : space) : space :=
  {| s_nshape := 3%nat; s_l2g := fun e i => Nat.add (Nat.mul 3 e) i; s_mult := fun _ _ => r1; s_nmult := s_nmult s;
     s_shape := p1_shape |}.

End Model.
