(* C17: the FMM glue model equals the dense model (given the exact evaluator, neighbour lists = adjacency, and
   supports for which the point maps are what they are meant to be); refutations for non-prefix supports. *)
From Coq Require Import List Arith Bool Lia Ring Morphisms Setoid.
From BV Require Import AssemblyB.Defs AssemblyB.Sums AssemblyB.Pairsum AssemblyB.Model AssemblyB.FmmModel
  AssemblyB.Decomposition.
Import ListNotations.

Section FmmGlue.
Context {A : Type} {RO : ops A} {Hring : IsRing RO}.
Variable ver : fmm_version.
Notation r0 := (o0 RO).
Notation r1 := (o1 RO).
Notation radd := (oadd RO).
Notation rmul := (omul RO).
Notation rsub := (osub RO).
Notation ropp := (oopp RO).
Notation rinv := (oinv RO).
Add Ring ARing7 : (@is_ring A RO Hring).
Infix "+" := radd.
Infix "*" := rmul.
Infix "-" := rsub.
Notation sum := (sumf r0 radd).
Notation sumN := (sumn r0 radd).
Notation dl := (delta r0 r1).
Notation geom := (@geom A).
Notation space := (@space A).
Notation qpt := (@qpt A).
Notation ent := (entry r0 radd).
Notation V3 := (vec3 A).

(* ---- lists ------------------------------------------------------------------------------------------ *)
Definition memb (f : nat) (l : list nat) : bool := existsb (Nat.eqb f) l.

Lemma memb_In : forall f l, memb f l = true <-> In f l.
Proof.
  intros. unfold memb. rewrite existsb_exists. split.
  - intros [x [Hx E]]. apply Nat.eqb_eq in E. subst. assumption.
  - intros H. exists f. split; [assumption|apply Nat.eqb_refl].
Qed.

Lemma sum_delta_mem : forall (f : nat) (H : nat -> A) l, NoDup l ->
  sum (fun se => dl f se * H se) l = if memb f l then H f else r0.
Proof.
  intros f H l Hnd. destruct (memb f l) eqn:E.
  - apply memb_In in E.
    rewrite (sum_ext_all _ _ (fun se => dl se f * H se)) by (intros; rewrite dl_sym; reflexivity).
    apply sum_delta_l; assumption.
  - apply sum_zero_ext. intros se Hse. rewrite dl_diff; [ring|]. intros ->.
    apply memb_In in Hse. congruence.
Qed.

Lemma enum_snd : forall l, map snd (enum l) = l.
Proof.
  intros l. unfold enum.
  assert (G : forall s, map snd (combine (seq s (length l)) l) = l).
  { induction l as [|a l IH]; intros s; simpl; [reflexivity|]. rewrite IH. reflexivity. }
  apply G.
Qed.

Lemma sum_enum : forall (F : nat -> A) l, sum (fun pe => F (snd pe)) (enum l) = sum F l.
Proof. intros. rewrite <- (enum_snd l) at 2. rewrite sum_map. reflexivity. Qed.

(* slot functions that address the element itself on a support *)
Definition slot_exact (slot : nat -> nat -> nat) (supp : list nat) : Prop :=
  forall pe, In pe (enum supp) -> slot (fst pe) (snd pe) = snd pe.

Lemma slot_elem_exact : forall supp, slot_exact slot_elem supp.
Proof. intros supp pe _. reflexivity. Qed.

Lemma enum_seq : forall n pe, In pe (enum (seq 0 n)) -> fst pe = snd pe.
Proof.
  intros n pe. unfold enum. rewrite seq_length.
  assert (G : forall s k pe, In pe (combine (seq s k) (seq s k)) -> fst pe = snd pe).
  { intros s k. revert s. induction k as [|k IH]; intros s pe0 H; simpl in H; [destruct H|].
    destruct H as [<-|H]; [reflexivity|]. apply (IH (S s)). assumption. }
  apply G.
Qed.

(* for a support that is a prefix of the element list, position = element *)
Lemma slot_pos_exact_prefix : forall n, slot_exact (slot_pos ver) (seq 0 n).
Proof.
  intros n pe H. unfold slot_pos. destruct (v_transform_by_position ver); [|reflexivity].
  apply enum_seq in H. assumption.
Qed.

(* the repaired indexing addresses the element on every support *)
Lemma slot_pos_exact_fixed : forall supp, v_transform_by_position ver = false -> slot_exact (slot_pos ver) supp.
Proof. intros supp Hv pe _. unfold slot_pos. rewrite Hv. reflexivity. Qed.
Lemma msp_ok_fixed : forall supp, v_msp_store_by_element ver = false -> msp_ok ver supp = true.
Proof. intros supp Hv. unfold msp_ok. rewrite Hv. reflexivity. Qed.

Lemma msp_ok_prefix : forall n, msp_ok ver (seq 0 n) = true.
Proof.
  intros n. unfold msp_ok. destruct (v_msp_store_by_element ver); [|reflexivity].
  apply forallb_forall. intros e He. apply in_seq in He.
  rewrite seq_length. apply Nat.ltb_lt. lia.
Qed.

(* ---- the core bilinear identity ---------------------------------------------------------------------- *)
Section Bilinear.
Variable G4 : V3 -> V3 -> nat -> A.
Variables (gt gs : geom) (st ss : space) (Et Es : list nat) (nEs : nat) (quad : list qpt).
Variable nbrs : nat -> list nat.
Variable msk : nat -> nat -> bool.
Variables (slt sls : nat -> nat -> nat).
Hypothesis Hslt : slot_exact slt Et.
Hypothesis Hsls : slot_exact sls Es.
Hypothesis HEs : NoDup Es.
Hypothesis HEs_lt : forall f, In f Es -> (f < nEs)%nat.
Hypothesis Hnb_nodup : forall e, In e Et -> NoDup (nbrs e).
Hypothesis Hnb : forall e f, In e Et -> In f Es -> memb f (nbrs e) = msk e f.

Notation fmm := (fmm_eval RO G4 gt gs nEs quad nbrs).
Notation Gv e p f q c := (G4 (gpt RO gt e p) (gpt RO gs f q) c).

Definition src_elem (vs : nat -> nat -> qpt -> A) (x : nat -> A) (f : nat) (q : qpt) : A :=
  sumN (s_nshape ss) (fun j => vs f j q * (s_mult ss f j * x (s_l2g ss f j))).

Lemma to_points_exact : forall vs x se sp,
  to_points RO sls ss Es vs x se sp = sum (fun f => dl f se * src_elem vs x f sp) Es.
Proof.
  intros. unfold to_points. rewrite <- (sum_enum (fun f => dl f se * src_elem vs x f sp)).
  apply sum_ext. intros pe Hpe. rewrite (Hsls pe Hpe). unfold delta, src_elem.
  destruct (Nat.eqb (snd pe) se); ring.
Qed.

Lemma per_slot : forall vs x e p c (L : list nat),
  sum (fun se => sum (fun sp => Gv e p se sp c * to_points RO sls ss Es vs x se sp) quad) L =
  sum (fun f => sum (fun se => dl f se * sum (fun sp => Gv e p se sp c * src_elem vs x f sp) quad) L) Es.
Proof.
  intros.
  transitivity (sum (fun se => sum (fun f => dl f se * sum (fun sp => Gv e p se sp c * src_elem vs x f sp) quad) Es) L).
  - apply sum_ext_all. intros se.
    transitivity (sum (fun sp => sum (fun f => dl f se * (Gv e p se sp c * src_elem vs x f sp)) Es) quad).
    + apply sum_ext_all. intros sp. rewrite to_points_exact. rewrite <- sum_scal_l. apply sum_ext_all. intros. ring.
    + rewrite sum_swap. apply sum_ext_all. intros f. rewrite <- sum_scal_l. reflexivity.
  - apply sum_swap.
Qed.

Lemma fmm_exact : forall vs x e p c, In e Et ->
  fmm (to_points RO sls ss Es vs x) e p c =
  sum (fun f => if msk e f then r0 else sum (fun q => Gv e p f q c * src_elem vs x f q) quad) Es.
Proof.
  intros vs x e p c He. unfold fmm_eval.
  assert (E1 : sum (fun se => sum (fun sp => Gv e p se sp c * to_points RO sls ss Es vs x se sp) quad) (seq 0 nEs) =
               sum (fun f => sum (fun q => Gv e p f q c * src_elem vs x f q) quad) Es).
  { rewrite (per_slot vs x e p c (seq 0 nEs)).
    apply sum_ext. intros f Hf.
    pose proof (sum_delta_seq' f nEs (fun se => sum (fun sp => Gv e p se sp c * src_elem vs x f sp) quad)
                  (HEs_lt f Hf)) as E. unfold sumn in E. exact E. }
  assert (E2 : sum (fun se => sum (fun sp => Gv e p se sp c * to_points RO sls ss Es vs x se sp) quad) (nbrs e) =
               sum (fun f => if msk e f then sum (fun q => Gv e p f q c * src_elem vs x f q) quad else r0) Es).
  { rewrite (per_slot vs x e p c (nbrs e)).
    apply sum_ext. intros f Hf.
    rewrite (sum_delta_mem f (fun se => sum (fun sp => Gv e p se sp c * src_elem vs x f sp) quad) (nbrs e)
               (Hnb_nodup e He)).
    rewrite (Hnb e f He Hf). reflexivity. }
  rewrite E1, E2. rewrite <- sum_sub. apply sum_ext_all. intros f. destruct (msk e f); ring.
Qed.

(* what the glue computes for one component of the evaluator, in element-pair form *)
Definition bil (vt vs : nat -> nat -> qpt -> A) (c : nat) (x : nat -> A) (I : nat) : A :=
  sum (fun e => sum (fun f => sumN (s_nshape st) (fun i => sumN (s_nshape ss) (fun j =>
    dl (s_l2g st e i) I *
    (((if msk e f then r0 else sum (fun p => sum (fun q => (vt e i p * Gv e p f q c) * vs f j q) quad) quad)
      * (s_mult st e i * s_mult ss f j)) * x (s_l2g ss f j))))) Es) Et.

Theorem fmm_bilinear : forall vt vs c x I,
  from_points RO slt st Et quad vt (fun e p => fmm (to_points RO sls ss Es vs x) e p c) I = bil vt vs c x I.
Proof.
  intros vt vs c x I. unfold from_points, bil.
  rewrite <- (sum_enum (fun e => sum (fun f => sumN (s_nshape st) (fun i => sumN (s_nshape ss) (fun j =>
    dl (s_l2g st e i) I *
    (((if msk e f then r0 else sum (fun p => sum (fun q => (vt e i p * Gv e p f q c) * vs f j q) quad) quad)
      * (s_mult st e i * s_mult ss f j)) * x (s_l2g ss f j))))) Es)).
  apply sum_ext. intros pe Hpe. rewrite (Hslt pe Hpe).
  assert (He : In (snd pe) Et). { rewrite <- (enum_snd Et). apply in_map. assumption. }
  set (e := snd pe) in *.
  unfold sumn. rewrite sum_swap. apply sum_ext_all. intros i.
  transitivity (dl (s_l2g st e i) I * (s_mult st e i *
      sum (fun p => vt e i p * fmm (to_points RO sls ss Es vs x) e p c) quad)).
  { unfold delta. destruct (Nat.eqb (s_l2g st e i) I); ring. }
  rewrite (sum_ext_all _ _ (fun p => vt e i p *
     sum (fun f => if msk e f then r0 else sum (fun q => Gv e p f q c * src_elem vs x f q) quad) Es))
    by (intros p; rewrite fmm_exact by assumption; reflexivity).
  (* p f q j  ->  f j p q *)
  transitivity (sum (fun f => sum (fun p => dl (s_l2g st e i) I * (s_mult st e i *
      (vt e i p * (if msk e f then r0 else sum (fun q => Gv e p f q c * src_elem vs x f q) quad)))) quad) Es).
  { rewrite <- sum_scal_l, <- sum_scal_l. rewrite sum_swap. apply sum_ext_all. intros p.
    rewrite <- !sum_scal_l. apply sum_ext_all. intros f. ring. }
  apply sum_ext_all. intros f. destruct (msk e f).
  - rewrite sum_zero_ext by (intros; ring). symmetry. apply sum_zero_ext. intros. ring.
  - transitivity (sum (fun p => sum (fun q => sum (fun j =>
        dl (s_l2g st e i) I * ((((vt e i p * Gv e p f q c) * vs f j q) * (s_mult st e i * s_mult ss f j))
                               * x (s_l2g ss f j))) (seq 0 (s_nshape ss))) quad) quad).
    + apply sum_ext_all. intros p. rewrite <- !sum_scal_l. apply sum_ext_all. intros q.
      unfold src_elem, sumn. rewrite <- !sum_scal_l. apply sum_ext_all. intros j. ring.
    + transitivity (sum (fun p => sum (fun j => sum (fun q =>
        dl (s_l2g st e i) I * ((((vt e i p * Gv e p f q c) * vs f j q) * (s_mult st e i * s_mult ss f j))
                               * x (s_l2g ss f j))) quad) (seq 0 (s_nshape ss))) quad).
      { apply sum_ext_all. intros p. apply sum_swap. }
      rewrite sum_swap. apply sum_ext_all. intros j.
      rewrite <- sum_scal_r, <- sum_scal_r, <- sum_scal_l. apply sum_ext_all. intros p.
      rewrite <- sum_scal_r, <- sum_scal_r, <- sum_scal_l. apply sum_ext_all. intros q. ring.
Qed.

End Bilinear.


(* ---- dense matvec in element-pair form ----------------------------------------------------------------- *)
Notation psum := (psum (RO:=RO)).

Lemma psum_matvec : forall X (L : list X) pe pf nt ns tg sg (val : X -> nat -> nat -> A) n (x : nat -> A) I,
  (forall y j, In y L -> (j < ns)%nat -> (sg (pf y) j < n)%nat) ->
  sumN n (fun J => psum L pe pf nt ns tg sg val I J * x J) =
  sum (fun y => sumN nt (fun i => sumN ns (fun j => dl (tg (pe y) i) I * (val y i j * x (sg (pf y) j))))) L.
Proof.
  intros X L pe pf nt ns tg sg val n x I Hsg. unfold Pairsum.psum.
  transitivity (sum (fun y => sumN n (fun J => sumN nt (fun i => sumN ns (fun j =>
      ((dl (tg (pe y) i) I * dl (sg (pf y) j) J) * val y i j) * x J)))) L).
  { transitivity (sum (fun J => sum (fun y => sumN nt (fun i => sumN ns (fun j =>
      ((dl (tg (pe y) i) I * dl (sg (pf y) j) J) * val y i j) * x J))) L) (seq 0 n)).
    - unfold sumn at 1. apply sum_ext_all. intros J. rewrite <- sum_scal_r. apply sum_ext_all. intros y.
      rewrite <- sumN_scal_r. apply sumN_ext. intros i _. rewrite <- sumN_scal_r. reflexivity.
    - unfold sumn at 1. apply sum_swap. }
  apply sum_ext. intros y Hy.
  rewrite sumN_swap. apply sumN_ext. intros i _. rewrite sumN_swap. apply sumN_ext. intros j Hj.
  rewrite (sumN_ext n _ (fun J => dl (sg (pf y) j) J * (dl (tg (pe y) i) I * (val y i j * x J)))) by (intros; ring).
  unfold sumn.
  apply (sum_delta_seq' (sg (pf y) j) n (fun J => dl (tg (pe y) i) I * (val y i j * x J))). auto.
Qed.

Lemma reg_matvec : forall (g : geom) (st ss : space) identical Et Es loc fac n (x : nat -> A) I,
  (forall f j, In f Es -> (j < s_nshape ss)%nat -> (s_l2g ss f j < n)%nat) ->
  matvec r0 radd rmul n (fun I J => ent I J (reg_assemble RO g st ss identical Et Es loc fac)) x I =
  sum (fun e => sum (fun f => sumN (s_nshape st) (fun i => sumN (s_nshape ss) (fun j =>
    dl (s_l2g st e i) I * (((if skip g identical e f then r0 else loc e f i j) * fac e f i j) * x (s_l2g ss f j)))))
    Es) Et.
Proof.
  intros g st ss identical Et Es loc fac n x I Hn. unfold matvec.
  rewrite (sumN_ext n _ (fun J => psum (allpairs Et Es) fst snd (s_nshape st) (s_nshape ss) (s_l2g st) (s_l2g ss)
       (fun y i j => (if skip g identical (fst y) (snd y) then r0 else loc (fst y) (snd y) i j)
                     * fac (fst y) (snd y) i j) I J * x J))
    by (intros; rewrite entry_reg_assemble; reflexivity).
  rewrite psum_matvec.
  - unfold allpairs. rewrite sum_flat_map. apply sum_ext_all. intros e. rewrite sum_map. reflexivity.
  - intros [e f] j Hin Hj. apply in_allpairs in Hin. destruct Hin as [_ Hf]. simpl. apply Hn; assumption.
Qed.

(* spmv of a triplet list = matvec of its entries; the dense matrix is regular ++ singular *)
Lemma dense_matvec_split : forall (reg sing : list (trip A)) n (x : nat -> A) I,
  (forall t, In t sing -> (t_col t < n)%nat) ->
  matvec r0 radd rmul n (fun I J => ent I J (reg ++ sing)) x I =
  matvec r0 radd rmul n (fun I J => ent I J reg) x I + spmv r0 radd rmul sing x I.
Proof.
  intros reg sing n x I Hc. rewrite (spmv_entry sing x n I Hc). unfold matvec.
  rewrite <- sumN_add. apply sumN_ext. intros J _. rewrite entry_app. ring.
Qed.

Lemma sing_cols : forall (st ss : space) pairs val n,
  (forall pr j, In pr pairs -> (j < s_nshape ss)%nat -> (s_l2g ss (sp_f pr) j < n)%nat) ->
  forall t, In t (sing_assemble RO st ss pairs val) -> (t_col t < n)%nat.
Proof.
  intros st ss pairs val n H t Ht. unfold sing_assemble in Ht. apply in_flat_map in Ht.
  destruct Ht as [[[e f] pts] [Hpr Ht]]. apply in_flat_map in Ht. destruct Ht as [i [_ Ht]].
  apply in_map_iff in Ht. destruct Ht as [j [<- Hj]]. apply in_seq in Hj. unfold t_col. simpl.
  apply (H (e, f, pts) j Hpr). lia.
Qed.

Lemma sumN_opp_sum : forall m (F : nat -> A), sumN m (fun c => r0 - F c) = r0 - sumN m F.
Proof. intros. unfold sumn. induction (seq 0 m) as [|c l IH]; simpl; [ring|]. rewrite IH. ring. Qed.
Lemma sum_opp1 : forall X (F : X -> A) l, sum (fun a => r0 - F a) l = r0 - sum F l.
Proof. intros. induction l as [|a l IH]; simpl; [ring|]. rewrite IH. ring. Qed.
Lemma sum_sum_opp : forall X Y (F : X -> Y -> A) l1 l2,
  sum (fun a => sum (fun b => r0 - F a b) l2) l1 = r0 - sum (fun a => sum (fun b => F a b) l2) l1.
Proof.
  intros. induction l1 as [|a l IH]; simpl; [ring|]. rewrite IH.
  assert (E : sum (fun b => r0 - F a b) l2 = r0 - sum (fun b => F a b) l2).
  { clear IH. induction l2 as [|b l2 IH]; simpl; [ring|]. rewrite IH. ring. }
  rewrite E. ring.
Qed.

(* ---- scaling / linearity of the point maps ---------------------------------------------------------- *)
Lemma to_points_scale : forall (sls : nat -> nat -> nat) (ss : space) Es (h : nat -> A) vs x se sp,
  slot_exact sls Es ->
  h se * to_points RO sls ss Es vs x se sp = to_points RO sls ss Es (fun f j q => h f * vs f j q) x se sp.
Proof.
  intros sls ss Es h vs x se sp Hs. rewrite !(to_points_exact ss Es sls Hs). rewrite <- sum_scal_l.
  apply sum_ext_all. intros f. unfold src_elem. unfold delta. destruct (Nat.eqb_spec f se) as [->|].
  - rewrite <- !sumN_scal_l. apply sumN_ext. intros j _. ring.
  - ring.
Qed.

Lemma fmm_eval_ext : forall G4 (gt gs : geom) nEs quad nbrs (v v' : pvec) e p c,
  (forall se sp, v se sp = v' se sp) ->
  fmm_eval RO G4 gt gs nEs quad nbrs v e p c = fmm_eval RO G4 gt gs nEs quad nbrs v' e p c.
Proof.
  intros. unfold fmm_eval. f_equal; apply sum_sum_ext; intros; rewrite H; reflexivity.
Qed.

Lemma from_points_ext : forall slt (st : space) Et quad vt (r r' : pvec) I,
  (forall e q, r e q = r' e q) ->
  from_points RO slt st Et quad vt r I = from_points RO slt st Et quad vt r' I.
Proof.
  intros. unfold from_points. apply sum_ext_all. intros pe. apply sumN_ext. intros i _.
  destruct (Nat.eqb (s_l2g st (snd pe) i) I); [|reflexivity]. f_equal. apply sum_ext_all. intros q.
  rewrite H. reflexivity.
Qed.

Lemma from_points_add : forall slt (st : space) Et quad vt (ra rb : pvec) I,
  from_points RO slt st Et quad vt (fun e q => ra e q + rb e q) I =
  from_points RO slt st Et quad vt ra I + from_points RO slt st Et quad vt rb I.
Proof.
  intros. unfold from_points. rewrite <- sum_add. apply sum_ext_all. intros pe.
  rewrite <- sumN_add. apply sumN_ext. intros i _.
  destruct (Nat.eqb (s_l2g st (snd pe) i) I); [|ring].
  rewrite <- sum_scal_l, <- sum_scal_l, <- sum_scal_l, <- sum_add. apply sum_ext_all. intros q. ring.
Qed.

Lemma from_points_scal : forall slt (st : space) Et quad vt (a : A) (r : pvec) I,
  from_points RO slt st Et quad vt (fun e q => a * r e q) I = a * from_points RO slt st Et quad vt r I.
Proof.
  intros. unfold from_points. rewrite <- sum_scal_l. apply sum_ext_all. intros pe.
  rewrite <- sumN_scal_l. apply sumN_ext. intros i _.
  destruct (Nat.eqb (s_l2g st (snd pe) i) I); [|ring].
  rewrite <- !sum_scal_l. apply sum_ext_all. intros q. ring.
Qed.

Lemma from_points_zero : forall slt (st : space) Et quad vt I,
  from_points RO slt st Et quad vt (fun _ _ => r0) I = r0.
Proof.
  intros. unfold from_points. apply sum_zero_ext. intros pe _. apply sumN_zero_ext. intros i _.
  destruct (Nat.eqb (s_l2g st (snd pe) i) I); [|reflexivity].
  rewrite sum_zero_ext; [ring|]. intros. ring.
Qed.

Lemma from_points_sumN : forall slt (st : space) Et quad vt m (r : nat -> pvec) I,
  from_points RO slt st Et quad vt (fun e q => sumN m (fun c => r c e q)) I =
  sumN m (fun c => from_points RO slt st Et quad vt (r c) I).
Proof.
  intros. unfold sumn. induction (seq 0 m) as [|c l IH]; simpl.
  - apply from_points_zero.
  - rewrite <- IH. rewrite <- from_points_add. reflexivity.
Qed.

Lemma from_points_scale : forall slt (st : space) Et quad vt (h : nat -> A) (r : pvec) I,
  slot_exact slt Et ->
  from_points RO slt st Et quad vt (fun e q => h e * r e q) I =
  from_points RO slt st Et quad (fun e i q => h e * vt e i q) r I.
Proof.
  intros slt st Et quad vt h r I Hs. unfold from_points. apply sum_ext. intros pe Hpe. rewrite (Hs pe Hpe).
  apply sumN_ext. intros i _. destruct (Nat.eqb (s_l2g st (snd pe) i) I); [|reflexivity].
  f_equal. apply sum_ext_all. intros q. ring.
Qed.

(* ---- scalar operators ------------------------------------------------------------------------------- *)
Section ScalarGlue.
Variable G4 : V3 -> V3 -> nat -> A.
Variables (g : geom) (st ss : space) (Et Es : list nat) (nE : nat) (quad : list qpt).
Variable nbrs : nat -> list nat.
Variables (kr ks : @kernel A) (pairs : list (@spair A)) (n : nat).
Hypothesis HEs : NoDup Es.
Hypothesis HEs_lt : forall f, In f Es -> (f < nE)%nat.
Hypothesis Hnb_nodup : forall e, In e Et -> NoDup (nbrs e).
(* element_neighbors = elements_adjacent (grid topology, C11) *)
Hypothesis Hnb : forall e f, In e Et -> In f Es -> memb f (nbrs e) = adjacent (g_verts g e) (g_verts g f).
Hypothesis Hcols : forall f j, In f Es -> (j < s_nshape ss)%nat -> (s_l2g ss f j < n)%nat.
Hypothesis Hpcols : forall pr j, In pr pairs -> (j < s_nshape ss)%nat -> (s_l2g ss (sp_f pr) j < n)%nat.
Hypothesis Hok : maps_ok ver Et Es = true.

Notation Sing := (scalar_singular RO g st ss ks pairs).
Notation Dense := (scalar_dense RO g st ss quad kr ks Et Es pairs).

Lemma skip_true : forall e f, skip g true e f = adjacent (g_verts g e) (g_verts g f).
Proof. reflexivity. Qed.

(* single layer: the dense kernel is component 0 of the evaluator's kernel *)
Theorem glue_single_layer_correct : forall x,
  (forall a b nx ny, kr a b nx ny = G4 a b 0%nat) ->
  exists f, glue_single_layer RO ver G4 g g st ss Et Es nE quad nbrs Sing x = Some f /\
            forall I, f I = matvec r0 radd rmul n (fun I J => ent I J Dense) x I.
Proof.
  intros x Hk. unfold glue_single_layer. rewrite Hok. eexists. split; [reflexivity|]. intros I.
  unfold scalar_dense. rewrite dense_matvec_split by (apply sing_cols; assumption).
  unfold sing_part. f_equal. unfold trg_map, src_map, fmm.
  rewrite (fmm_bilinear G4 g g st ss Et Es nE quad nbrs (fun e f => adjacent (g_verts g e) (g_verts g f))
             slot_elem slot_elem (slot_elem_exact Et) (slot_elem_exact Es) HEs_lt Hnb_nodup Hnb).
  unfold scalar_regular. rewrite reg_matvec by assumption. unfold bil.
  apply sum_ext_all; intros e. apply sum_ext_all; intros f. apply sumN_ext; intros i _. apply sumN_ext; intros j _.
  rewrite skip_true. destruct (adjacent (g_verts g e) (g_verts g f)); [ring|].
  unfold scalar_loc, mult_fac. f_equal. f_equal. f_equal. apply sum_sum_ext. intros p q.
  unfold tmpv, kval, msp_val, gpt, xt, ys. rewrite Hk. ring.
Qed.

(* double layer: dense kernel = - grad_x G . n_y  (= dG/dn_y) *)
Theorem glue_double_layer_correct : forall x,
  (forall a b nx ny, kr a b nx ny = r0 - sumN 3 (fun c => G4 a b (S c) * comp ny c)) ->
  exists f, glue_double_layer RO ver G4 g g st ss Et Es nE quad nbrs Sing x = Some f /\
            forall I, f I = matvec r0 radd rmul n (fun I J => ent I J Dense) x I.
Proof.
  intros x Hk. unfold glue_double_layer. rewrite Hok. eexists. split; [reflexivity|]. intros I.
  unfold scalar_dense. rewrite dense_matvec_split by (apply sing_cols; assumption).
  unfold sing_part. f_equal. unfold trg_map, src_map, fmm.
  transitivity (r0 - sumN 3 (fun c =>
     bil G4 g g st ss Et Es quad (fun e f => adjacent (g_verts g e) (g_verts g f))
         (msp_val RO g st) (fun f j q => comp (snormal RO g ss f) c * msp_val RO g ss f j q) (S c) x I)).
  { rewrite (from_points_ext _ _ _ _ _ _
       (fun e q => (r0 - r1) * sumN 3 (fun c =>
          fmm_eval RO G4 g g nE quad nbrs
            (to_points RO slot_elem ss Es (fun f j q0 => comp (snormal RO g ss f) c * msp_val RO g ss f j q0) x) e q (S c))))
      by (intros e q; rewrite <- sumN_scal_l;
          transitivity (r0 - sumN 3 (fun c => fmm_eval RO G4 g g nE quad nbrs
            (to_points RO slot_elem ss Es (fun f j q0 => comp (snormal RO g ss f) c * msp_val RO g ss f j q0) x) e q (S c)));
          [f_equal; apply sumN_ext; intros c _; apply fmm_eval_ext; intros se sp;
           apply (to_points_scale slot_elem ss Es (fun f => comp (snormal RO g ss f) c)); apply slot_elem_exact
          | rewrite sumN_scal_l; ring]).
    rewrite from_points_scal, from_points_sumN.
    rewrite (sumN_ext 3 _ (fun c => bil G4 g g st ss Et Es quad (fun e f => adjacent (g_verts g e) (g_verts g f))
         (msp_val RO g st) (fun f j q => comp (snormal RO g ss f) c * msp_val RO g ss f j q) (S c) x I)).
    - ring.
    - intros c _.
      apply (fmm_bilinear G4 g g st ss Et Es nE quad nbrs (fun e f => adjacent (g_verts g e) (g_verts g f))
             slot_elem slot_elem (slot_elem_exact Et) (slot_elem_exact Es) HEs_lt Hnb_nodup Hnb). }
  unfold scalar_regular. rewrite reg_matvec by assumption. unfold bil.
  transitivity (r0 - sum (fun e => sum (fun f => sumN (s_nshape st) (fun i => sumN (s_nshape ss) (fun j =>
     sumN 3 (fun c =>
       dl (s_l2g st e i) I *
       (((if adjacent (g_verts g e) (g_verts g f) then r0
          else sum (fun p => sum (fun q => (msp_val RO g st e i p * G4 (gpt RO g e p) (gpt RO g f q) (S c)) *
                    (comp (snormal RO g ss f) c * msp_val RO g ss f j q)) quad) quad)
         * (s_mult st e i * s_mult ss f j)) * x (s_l2g ss f j)))))) Es) Et).
  { f_equal. unfold sumn. rewrite sum_swap. apply sum_ext_all; intros e. rewrite sum_swap. apply sum_ext_all; intros f.
    rewrite sum_swap. apply sum_ext_all; intros i. rewrite sum_swap. reflexivity. }
  rewrite <- sum_opp1. apply sum_ext_all; intros e. rewrite <- sum_opp1. apply sum_ext_all; intros f.
  rewrite <- sumN_opp_sum. apply sumN_ext; intros i _. rewrite <- sumN_opp_sum. apply sumN_ext; intros j _.
  rewrite skip_true. destruct (adjacent (g_verts g e) (g_verts g f)).
  - rewrite sumN_zero_ext; [ring|]. intros. ring.
  - unfold scalar_loc, mult_fac.
    transitivity (dl (s_l2g st e i) I * (((r0 - sumN 3 (fun c =>
         sum (fun p => sum (fun q => (msp_val RO g st e i p * G4 (gpt RO g e p) (gpt RO g f q) (S c)) *
                    (comp (snormal RO g ss f) c * msp_val RO g ss f j q)) quad) quad))
         * (s_mult st e i * s_mult ss f j)) * x (s_l2g ss f j))).
    + rewrite !sumN_3. ring.
    + f_equal. f_equal. f_equal.
      transitivity (sum (fun p => sum (fun q => r0 - sumN 3 (fun c =>
          (msp_val RO g st e i p * G4 (gpt RO g e p) (gpt RO g f q) (S c)) *
                    (comp (snormal RO g ss f) c * msp_val RO g ss f j q))) quad) quad).
      * rewrite sum_sum_opp. f_equal. unfold sumn. rewrite sum_swap. apply sum_ext_all; intros p.
        rewrite sum_swap. reflexivity.
      * apply sum_sum_ext. intros p q. unfold tmpv, kval, msp_val, gpt, xt, ys. rewrite Hk. rewrite !sumN_3. ring.
Qed.

(* adjoint double layer: dense kernel = grad_x G . n_x *)
Theorem glue_adjoint_double_layer_correct : forall x,
  (forall a b nx ny, kr a b nx ny = sumN 3 (fun c => G4 a b (S c) * comp nx c)) ->
  exists f, glue_adjoint_double_layer RO ver G4 g g st ss Et Es nE quad nbrs Sing x = Some f /\
            forall I, f I = matvec r0 radd rmul n (fun I J => ent I J Dense) x I.
Proof.
  intros x Hk. unfold glue_adjoint_double_layer. rewrite Hok. eexists. split; [reflexivity|]. intros I.
  unfold scalar_dense. rewrite dense_matvec_split by (apply sing_cols; assumption).
  unfold sing_part. f_equal. unfold trg_map, src_map, fmm.
  transitivity (sumN 3 (fun c =>
     bil G4 g g st ss Et Es quad (fun e f => adjacent (g_verts g e) (g_verts g f))
         (fun e i p => comp (snormal RO g st e) c * msp_val RO g st e i p) (msp_val RO g ss) (S c) x I)).
  { rewrite from_points_sumN. apply sumN_ext. intros c _.
    rewrite (from_points_ext _ _ _ _ _ _
       (fun e q => comp (snormal RO g st e) c *
          fmm_eval RO G4 g g nE quad nbrs (to_points RO slot_elem ss Es (msp_val RO g ss) x) e q (S c)))
      by (intros; ring).
    rewrite (from_points_scale slot_elem st Et quad (msp_val RO g st) (fun e => comp (snormal RO g st e) c) _ I
               (slot_elem_exact Et)).
    apply (fmm_bilinear G4 g g st ss Et Es nE quad nbrs (fun e f => adjacent (g_verts g e) (g_verts g f))
             slot_elem slot_elem (slot_elem_exact Et) (slot_elem_exact Es) HEs_lt Hnb_nodup Hnb). }
  unfold scalar_regular. rewrite reg_matvec by assumption. unfold bil.
  transitivity (sum (fun e => sum (fun f => sumN (s_nshape st) (fun i => sumN (s_nshape ss) (fun j =>
     sumN 3 (fun c =>
       dl (s_l2g st e i) I *
       (((if adjacent (g_verts g e) (g_verts g f) then r0
          else sum (fun p => sum (fun q => ((comp (snormal RO g st e) c * msp_val RO g st e i p) *
                    G4 (gpt RO g e p) (gpt RO g f q) (S c)) * msp_val RO g ss f j q) quad) quad)
         * (s_mult st e i * s_mult ss f j)) * x (s_l2g ss f j)))))) Es) Et).
  { unfold sumn. rewrite sum_swap. apply sum_ext_all; intros e. rewrite sum_swap. apply sum_ext_all; intros f.
    rewrite sum_swap. apply sum_ext_all; intros i. rewrite sum_swap. reflexivity. }
  apply sum_ext_all; intros e. apply sum_ext_all; intros f. apply sumN_ext; intros i _. apply sumN_ext; intros j _.
  rewrite skip_true. destruct (adjacent (g_verts g e) (g_verts g f)).
  - rewrite sumN_zero_ext; [ring|]. intros. ring.
  - unfold scalar_loc, mult_fac.
    transitivity (dl (s_l2g st e i) I * (((sumN 3 (fun c =>
         sum (fun p => sum (fun q => ((comp (snormal RO g st e) c * msp_val RO g st e i p) *
                    G4 (gpt RO g e p) (gpt RO g f q) (S c)) * msp_val RO g ss f j q) quad) quad))
         * (s_mult st e i * s_mult ss f j)) * x (s_l2g ss f j))).
    + rewrite !sumN_3. ring.
    + f_equal. f_equal. f_equal.
      transitivity (sum (fun p => sum (fun q => sumN 3 (fun c =>
          ((comp (snormal RO g st e) c * msp_val RO g st e i p) *
                    G4 (gpt RO g e p) (gpt RO g f q) (S c)) * msp_val RO g ss f j q)) quad) quad).
      * unfold sumn. rewrite sum_swap. apply sum_ext_all; intros p. rewrite sum_swap. reflexivity.
      * apply sum_sum_ext. intros p q. unfold tmpv, kval, msp_val, gpt, xt, ys. rewrite Hk. rewrite !sumN_3. ring.
Qed.

End ScalarGlue.


(* ---- linear combinations of evaluator passes --------------------------------------------------------- *)
Section Comb.
Variable G4 : V3 -> V3 -> nat -> A.
Variables (gt gs : geom) (st ss : space) (Et Es : list nat) (quad : list qpt) (msk : nat -> nat -> bool).
Notation Gv e p f q c := (G4 (gpt RO gt e p) (gpt RO gs f q) c).
Notation bil := (bil G4 gt gs st ss Et Es quad msk).

(* one pass: coefficient, target-side entries, source-side entries, evaluator component *)
Definition pass : Type := (A * (nat -> nat -> qpt -> A) * (nat -> nat -> qpt -> A) * nat)%type.
Definition p_coef (t : pass) : A := fst (fst (fst t)).
Definition p_vt (t : pass) := snd (fst (fst t)).
Definition p_vs (t : pass) := snd (fst t).
Definition p_c (t : pass) : nat := snd t.

Definition comb_integrand (L : list pass) (e f i j : nat) : A :=
  sum (fun p => sum (fun q => sum (fun t =>
      p_coef t * ((p_vt t e i p * Gv e p f q (p_c t)) * p_vs t f j q)) L) quad) quad.

Lemma comb_cons : forall t L e f i j,
  comb_integrand (t :: L) e f i j =
  p_coef t * sum (fun p => sum (fun q => (p_vt t e i p * Gv e p f q (p_c t)) * p_vs t f j q) quad) quad
  + comb_integrand L e f i j.
Proof.
  intros. unfold comb_integrand. simpl. rewrite <- sum_sum_scal, <- sum_sum_add. reflexivity.
Qed.

Lemma bil_comb : forall (L : list pass) x I,
  sum (fun t => p_coef t * bil (p_vt t) (p_vs t) (p_c t) x I) L =
  sum (fun e => sum (fun f => sumN (s_nshape st) (fun i => sumN (s_nshape ss) (fun j =>
    dl (s_l2g st e i) I *
    (((if msk e f then r0 else comb_integrand L e f i j) * (s_mult st e i * s_mult ss f j)) * x (s_l2g ss f j)))))
    Es) Et.
Proof.
  intros L x I. induction L as [|t L IH].
  - simpl. symmetry. apply sum_zero_ext. intros e _. apply sum_zero_ext. intros f _.
    apply sumN_zero_ext. intros i _. apply sumN_zero_ext. intros j _.
    unfold comb_integrand. simpl. destruct (msk e f); [ring|].
    rewrite (sum_zero_ext _ _ quad); [ring|]. intros p _. apply sum_zero_ext. intros. reflexivity.
  - simpl. rewrite IH. unfold FmmGlue.bil.
    rewrite <- sum_scal_l, <- sum_add. apply sum_ext_all; intros e.
    rewrite <- sum_scal_l, <- sum_add. apply sum_ext_all; intros f.
    rewrite <- sumN_scal_l, <- sumN_add. apply sumN_ext; intros i _.
    rewrite <- sumN_scal_l, <- sumN_add. apply sumN_ext; intros j _.
    destruct (msk e f); [ring|]. rewrite comb_cons. ring.
Qed.
End Comb.

(* ---- Maxwell and hypersingular glue (supports on which position = element) -------------------------- *)
Section VectorGlue.
Variable G4 : V3 -> V3 -> nat -> A.
Variables (g : geom) (st ss : space) (Et Es : list nat) (nE : nat) (quad : list qpt).
Variable nbrs : nat -> list nat.
Variables (kr ks : @kernel A) (pairs : list (@spair A)) (n : nat).
Hypothesis HEs_lt : forall f, In f Es -> (f < nE)%nat.
Hypothesis Hnb_nodup : forall e, In e Et -> NoDup (nbrs e).
Hypothesis Hnb : forall e f, In e Et -> In f Es -> memb f (nbrs e) = adjacent (g_verts g e) (g_verts g f).
Hypothesis Hcols : forall f j, In f Es -> (j < s_nshape ss)%nat -> (s_l2g ss f j < n)%nat.
Hypothesis Hpcols : forall pr j, In pr pairs -> (j < s_nshape ss)%nat -> (s_l2g ss (sp_f pr) j < n)%nat.
(* the transforms address point slots by position in support_elements: exact only if position = element *)
Hypothesis Hpos_t : slot_exact (slot_pos ver) Et.
Hypothesis Hpos_s : slot_exact (slot_pos ver) Es.
Hypothesis Hk : forall a b nx ny, kr a b nx ny = G4 a b 0%nat.

Notation adj := (fun e f => adjacent (g_verts g e) (g_verts g f)).
Notation BIL slt sls := (fmm_bilinear G4 g g st ss Et Es nE quad nbrs adj slt sls).

Section Efield.
Variables (mik ik : A).
Hypothesis Hinv : forall a b : A, rinv (a * b) = rinv a * rinv b.
Hypothesis HJt : forall e, In e Et -> g_intel g e * rinv (g_intel g e) = r1.
Hypothesis HJs : forall f, In f Es -> g_intel g f * rinv (g_intel g f) = r1.

Theorem glue_efield_correct : forall x I,
  glue_efield RO ver G4 g g st ss Et Es nE quad nbrs (efield_singular RO g st ss ks mik ik pairs) mik ik x I =
  matvec r0 radd rmul n (fun I J => ent I J (efield_dense RO g st ss quad kr ks Et Es pairs mik ik)) x I.
Proof.
  intros x I. unfold glue_efield, efield_dense.
  rewrite dense_matvec_split by (apply sing_cols; assumption).
  unfold sing_part. f_equal. unfold from_rwg, to_rwg, fmm.
  rewrite (sumN_ext 3 _ (fun c => bil G4 g g st ss Et Es quad adj (rwg_val RO g c) (rwg_val RO g c) 0%nat x I))
    by (intros c _; apply (BIL (slot_pos ver) (slot_pos ver) Hpos_t Hpos_s HEs_lt Hnb_nodup Hnb)).
  rewrite (BIL (slot_pos ver) (slot_pos ver) Hpos_t Hpos_s HEs_lt Hnb_nodup Hnb).
  pose (L := [(mik, rwg_val RO g 0, rwg_val RO g 0, 0%nat); (mik, rwg_val RO g 1, rwg_val RO g 1, 0%nat);
              (mik, rwg_val RO g 2, rwg_val RO g 2, 0%nat);
              (r0 - rinv ik, div_val RO g, div_val RO g, 0%nat)] : list pass).
  transitivity (sum (fun t => p_coef t * bil G4 g g st ss Et Es quad adj (p_vt t) (p_vs t) (p_c t) x I) L).
  { unfold L. simpl. unfold p_coef, p_vt, p_vs, p_c. simpl. rewrite sumN_3. ring. }
  rewrite bil_comb. unfold efield_regular. rewrite reg_matvec by assumption.
  apply sum_ext; intros e He. apply sum_ext; intros f Hf. apply sumN_ext; intros i _. apply sumN_ext; intros j _.
  rewrite skip_true. destruct (adjacent (g_verts g e) (g_verts g f)); [ring|].
  assert (E : comb_integrand G4 g g quad L e f i j * (s_mult st e i * s_mult ss f j) =
              efield_loc RO g g quad kr mik ik e f i j * mx_fac RO g g st ss e f i j).
  { unfold comb_integrand, efield_loc, mx_fac. rewrite <- !sum_scal_r. apply sum_ext_all; intros p.
    rewrite <- !sum_scal_r. apply sum_ext_all; intros q. unfold L. simpl.
    unfold p_coef, p_vt, p_vs, p_c. simpl. unfold tmpv0, kval0, rwg_val, div_val, gpt, xt, ys. rewrite Hk.
    rewrite Hinv. rewrite dot3_sum, !sumN_3.
    pose proof (HJt e He) as J1. pose proof (HJs f Hf) as J2.
    set (Je := g_intel g e) in *. set (Jf := g_intel g f) in *. set (ie := rinv Je) in *. set (jf := rinv Jf) in *.
    unfold four, two.
    transitivity (((((s_mult st e i * s_mult ss f j) * g_elen g e i) * g_elen g f j) *
       (G4 (l2g_point RO g e (q_u p) (q_v p)) (l2g_point RO g f (q_u q) (q_v q)) 0%nat * ((q_w q * q_w p)))) *
       (mik * (((comp (piola RO g e i (q_u p) (q_v p)) 0 * comp (piola RO g f j (q_u q) (q_v q)) 0 +
                 (comp (piola RO g e i (q_u p) (q_v p)) 1 * comp (piola RO g f j (q_u q) (q_v q)) 1 +
                  comp (piola RO g e i (q_u p) (q_v p)) 2 * comp (piola RO g f j (q_u q) (q_v q)) 2))) * (Je * Jf))
        - ((r1 + r1 + (r1 + r1)) * rinv ik) * ((Je * ie) * (Jf * jf)))).
    - rewrite J1, J2. ring.
    - ring. }
  rewrite <- E. ring.
Qed.
End Efield.


Section Mfield.
Variables (ik : A) (dist : V3 -> V3 -> A).
(* the evaluator's gradient components are the analytic gradient of its value: grad_x G = G (ik r - 1)/r^2 (x - y) *)
Hypothesis Hgrad : forall a b d, (d < 3)%nat ->
  G4 a b (S d) = ((G4 a b 0%nat * (ik * dist a b - r1)) * rinv (dist a b * dist a b)) * comp (vsub rsub a b) d.

Lemma from_points_sub : forall slt (s : space) E qd vt (ra rb : pvec) I,
  from_points RO slt s E qd vt (fun e q => ra e q - rb e q) I =
  from_points RO slt s E qd vt ra I - from_points RO slt s E qd vt rb I.
Proof.
  intros.
  rewrite (from_points_ext slt s E qd vt _ (fun e q => ra e q + (r0 - r1) * rb e q)) by (intros; ring).
  rewrite from_points_add, from_points_scal. ring.
Qed.

Theorem glue_mfield_correct : forall x I,
  glue_mfield RO ver G4 g g st ss Et Es nE quad nbrs (mfield_singular RO g st ss ks dist ik pairs) x I =
  matvec r0 radd rmul n (fun I J => ent I J (mfield_dense RO g st ss quad kr ks Et Es pairs dist ik)) x I.
Proof.
  intros x I. unfold glue_mfield, mfield_dense.
  rewrite dense_matvec_split by (apply sing_cols; assumption).
  unfold sing_part. f_equal. unfold from_rwg, fmm.
  pose (m1 := r0 - r1).
  pose (L := [(m1, rwg_val RO g 0, rwg_val RO g 2, 2%nat); (r1, rwg_val RO g 0, rwg_val RO g 1, 3%nat);
              (m1, rwg_val RO g 1, rwg_val RO g 0, 3%nat); (r1, rwg_val RO g 1, rwg_val RO g 2, 1%nat);
              (m1, rwg_val RO g 2, rwg_val RO g 1, 1%nat); (r1, rwg_val RO g 2, rwg_val RO g 0, 2%nat)] : list pass).
  transitivity (sum (fun t => p_coef t * bil G4 g g st ss Et Es quad adj (p_vt t) (p_vs t) (p_c t) x I) L).
  { rewrite sumN_3. unfold mf_curl, mf_vals, to_rwg, fmm. rewrite !from_points_sub.
    rewrite !(BIL (slot_pos ver) (slot_pos ver) Hpos_t Hpos_s HEs_lt Hnb_nodup Hnb).
    unfold L, m1. simpl. unfold p_coef, p_vt, p_vs, p_c. simpl. ring. }
  rewrite bil_comb. unfold mfield_regular. rewrite reg_matvec by assumption.
  apply sum_ext; intros e He. apply sum_ext; intros f Hf. apply sumN_ext; intros i _. apply sumN_ext; intros j _.
  rewrite skip_true. destruct (adjacent (g_verts g e) (g_verts g f)); [ring|].
  assert (E : comb_integrand G4 g g quad L e f i j * (s_mult st e i * s_mult ss f j) =
              mfield_loc RO g g quad kr dist ik e f i j * mx_fac RO g g st ss e f i j).
  { unfold comb_integrand, mfield_loc, mx_fac. rewrite <- !sum_scal_r. apply sum_ext_all; intros p.
    rewrite <- !sum_scal_r. apply sum_ext_all; intros q. unfold L, m1. simpl.
    unfold p_coef, p_vt, p_vs, p_c. simpl. unfold tmpv0, kval0, rwg_val, gpt, xt, ys. rewrite Hk.
    rewrite !Hgrad by lia.
    set (X := l2g_point RO g e (q_u p) (q_v p)). set (Y := l2g_point RO g f (q_u q) (q_v q)).
    set (K := G4 X Y 0%nat). set (D := dist X Y).
    destruct (piola RO g e i (q_u p) (q_v p)) as [[a0 a1] a2]. destruct (piola RO g f j (q_u q) (q_v q)) as [[b0 b1] b2].
    destruct (vsub rsub X Y) as [[d0 d1] d2].
    unfold dot3, cross3, comp, vx, vy, vz. cbn [fst snd]. ring. }
  rewrite <- E. ring.
Qed.
End Mfield.

Section Hypersingular.
Hypothesis Hst : is_p1 RO st.
Hypothesis Hss : is_p1 RO ss.

Lemma normal_part_bil : forall x I,
  normal_part RO G4 g g st ss Et Es nE quad nbrs x I =
  sumN 3 (fun c => bil G4 g g st ss Et Es quad adj
     (fun e i p => comp (snormal RO g st e) c * msp_val RO g st e i p)
     (fun f j q => comp (snormal RO g ss f) c * msp_val RO g ss f j q) 0%nat x I).
Proof.
  intros x I. unfold normal_part, trg_map, src_map, fmm. rewrite from_points_sumN. apply sumN_ext. intros c _.
  rewrite (from_points_scale slot_elem st Et quad (msp_val RO g st) (fun e => comp (snormal RO g st e) c) _ I
             (slot_elem_exact Et)).
  rewrite (from_points_ext _ _ _ _ _ _ (fun e q => fmm_eval RO G4 g g nE quad nbrs
      (to_points RO slot_elem ss Es (fun f j q0 => comp (snormal RO g ss f) c * msp_val RO g ss f j q0) x) e q 0%nat)).
  - apply (BIL slot_elem slot_elem (slot_elem_exact Et) (slot_elem_exact Es) HEs_lt Hnb_nodup Hnb).
  - intros e q. apply fmm_eval_ext. intros se sp.
    apply (to_points_scale slot_elem ss Es (fun f => comp (snormal RO g ss f) c)). apply slot_elem_exact.
Qed.

Lemma curl_part_bil : forall x I,
  curl_part RO ver G4 g g st ss Et Es nE quad nbrs x I =
  sumN 3 (fun c => bil G4 g g st ss Et Es quad adj (curl_val RO g st c) (curl_val RO g ss c) 0%nat x I).
Proof.
  intros x I. unfold curl_part, fmm. apply sumN_ext. intros c _.
  apply (BIL (slot_pos ver) (slot_pos ver) Hpos_t Hpos_s HEs_lt Hnb_nodup Hnb).
Qed.

Theorem glue_ghyp_correct : forall kap x I,
  curl_part RO ver G4 g g st ss Et Es nE quad nbrs x I + kap * normal_part RO G4 g g st ss Et Es nE quad nbrs x I =
  matvec r0 radd rmul n (fun I J => ent I J
     (reg_assemble RO g st ss true Et Es (ghyp_loc RO g g st ss quad kr kap) (mult_fac RO st ss))) x I.
Proof.
  intros kap x I. rewrite curl_part_bil, normal_part_bil.
  pose (nt := fun c e i p => comp (snormal RO g st e) c * msp_val RO g st e i p).
  pose (ns := fun c f j q => comp (snormal RO g ss f) c * msp_val RO g ss f j q).
  pose (L := [(r1, curl_val RO g st 0, curl_val RO g ss 0, 0%nat); (r1, curl_val RO g st 1, curl_val RO g ss 1, 0%nat);
              (r1, curl_val RO g st 2, curl_val RO g ss 2, 0%nat);
              (kap, nt 0%nat, ns 0%nat, 0%nat); (kap, nt 1%nat, ns 1%nat, 0%nat); (kap, nt 2%nat, ns 2%nat, 0%nat)]
             : list pass).
  transitivity (sum (fun t => p_coef t * bil G4 g g st ss Et Es quad adj (p_vt t) (p_vs t) (p_c t) x I) L).
  { rewrite !sumN_3. unfold L, nt, ns. simpl. unfold p_coef, p_vt, p_vs, p_c. simpl. ring. }
  rewrite bil_comb. rewrite reg_matvec by assumption.
  apply sum_ext; intros e He. apply sum_ext; intros f Hf. apply sumN_ext; intros i _. apply sumN_ext; intros j _.
  rewrite skip_true. destruct (adjacent (g_verts g e) (g_verts g f)); [ring|].
  assert (E : comb_integrand G4 g g quad L e f i j = ghyp_loc RO g g st ss quad kr kap e f i j).
  { unfold comb_integrand, ghyp_loc. apply sum_sum_ext. intros p q. unfold L, nt, ns.
    cbv beta iota delta [sumf p_coef p_vt p_vs p_c fst snd].
    unfold tmpv, kval, curl_val, msp_val, gpt, xt, ys. rewrite Hk.
    destruct Hst as [_ Ht], Hss as [_ Hs]. rewrite Ht, Hs.
    unfold curl_prod, normal_prod. rewrite !dot3_sum, !sumN_3. ring. }
  rewrite E. unfold mult_fac. ring.
Qed.

Notation SingH v := (sing_assemble RO st ss pairs v).

Theorem glue_helmholtz_hypersingular_correct : forall k x,
  maps_ok ver Et Es = true ->
  exists f, glue_helmholtz_hypersingular RO ver G4 g g st ss Et Es nE quad nbrs
              (helm_hyp_singular RO g st ss ks k pairs) k x = Some f /\
            forall I, f I = matvec r0 radd rmul n
                              (fun I J => ent I J (helm_hyp_dense RO g st ss quad kr ks Et Es pairs k)) x I.
Proof.
  intros k x Hok. unfold glue_helmholtz_hypersingular. rewrite Hok. eexists. split; [reflexivity|]. intros I.
  unfold helm_hyp_dense. rewrite dense_matvec_split by (apply sing_cols; assumption).
  unfold sing_part. f_equal.
  transitivity (curl_part RO ver G4 g g st ss Et Es nE quad nbrs x I +
                (r0 - k * k) * normal_part RO G4 g g st ss Et Es nE quad nbrs x I); [ring|].
  rewrite glue_ghyp_correct. unfold matvec. apply sumN_ext. intros J _. f_equal. unfold helm_hyp_regular.
  apply entry_reg_ext. intros. unfold masked. rewrite (helm_is_ghyp g g st ss quad kr Hst Hss). reflexivity.
Qed.

Theorem glue_modhelm_hypersingular_correct : forall k x,
  maps_ok ver Et Es = true ->
  exists f, glue_modhelm_hypersingular RO ver G4 g g st ss Et Es nE quad nbrs
              (modhelm_hyp_singular RO g st ss ks k pairs) k x = Some f /\
            forall I, f I = matvec r0 radd rmul n
                              (fun I J => ent I J (modhelm_hyp_dense RO g st ss quad kr ks Et Es pairs k)) x I.
Proof.
  intros k x Hok. unfold glue_modhelm_hypersingular. rewrite Hok. eexists. split; [reflexivity|]. intros I.
  unfold modhelm_hyp_dense. rewrite dense_matvec_split by (apply sing_cols; assumption).
  unfold sing_part. f_equal.
  rewrite glue_ghyp_correct. unfold matvec. apply sumN_ext. intros J _. f_equal. unfold modhelm_hyp_regular.
  apply entry_reg_ext. intros. unfold masked. rewrite (modhelm_is_ghyp g g st ss quad kr Hst Hss). reflexivity.
Qed.

Theorem glue_laplace_hypersingular_correct : forall x,
  maps_ok ver Et Es = true ->
  exists f, glue_laplace_hypersingular RO ver G4 g g st ss Et Es nE quad nbrs
              (lap_hyp_singular RO g st ss ks pairs) x = Some f /\
            forall I, f I = matvec r0 radd rmul n
                              (fun I J => ent I J (lap_hyp_dense RO g st ss quad kr ks Et Es pairs)) x I.
Proof.
  intros x Hok. unfold glue_laplace_hypersingular. rewrite Hok. eexists. split; [reflexivity|]. intros I.
  unfold lap_hyp_dense. rewrite dense_matvec_split by (apply sing_cols; assumption).
  unfold sing_part. f_equal.
  transitivity (curl_part RO ver G4 g g st ss Et Es nE quad nbrs x I +
                r0 * normal_part RO G4 g g st ss Et Es nE quad nbrs x I); [ring|].
  rewrite glue_ghyp_correct. unfold matvec. apply sumN_ext. intros J _. f_equal. unfold lap_hyp_regular.
  apply entry_reg_ext. intros. unfold masked. rewrite (lap_is_ghyp g g st ss quad kr). reflexivity.
Qed.
End Hypersingular.

End VectorGlue.


(* ---- potential operators ---------------------------------------------------------------------------- *)
Section PotentialGlue.
Variable G4 : V3 -> V3 -> nat -> A.
Variables (gs : geom) (ss : space) (Es : list nat) (nEs : nat) (quad : list qpt).
Hypothesis HEs : NoDup Es.
Hypothesis HEs_lt : forall f, In f Es -> (f < nEs)%nat.

Lemma fmm_pt_exact : forall sls vs x pt c, slot_exact sls Es ->
  fmm_pt RO G4 gs nEs quad (to_points RO sls ss Es vs x) pt c =
  sum (fun f => sum (fun q => G4 pt (gpt RO gs f q) c * src_elem ss vs x f q) quad) Es.
Proof.
  intros sls vs x pt c Hs. unfold fmm_pt.
  transitivity (sum (fun f => sum (fun se => dl f se * sum (fun sp => G4 pt (gpt RO gs se sp) c * src_elem ss vs x f sp) quad)
                                  (seq 0 nEs)) Es).
  - transitivity (sum (fun se => sum (fun f => dl f se * sum (fun sp => G4 pt (gpt RO gs se sp) c * src_elem ss vs x f sp) quad) Es)
                      (seq 0 nEs)).
    + apply sum_ext_all. intros se.
      transitivity (sum (fun sp => sum (fun f => dl f se * (G4 pt (gpt RO gs se sp) c * src_elem ss vs x f sp)) Es) quad).
      * apply sum_ext_all. intros sp. rewrite (to_points_exact ss Es sls Hs). rewrite <- sum_scal_l.
        apply sum_ext_all. intros. ring.
      * rewrite sum_swap. apply sum_ext_all. intros f. rewrite <- sum_scal_l. reflexivity.
    + apply sum_swap.
  - apply sum_ext. intros f Hf.
    pose proof (sum_delta_seq' f nEs (fun se => sum (fun sp => G4 pt (gpt RO gs se sp) c * src_elem ss vs x f sp) quad)
                  (HEs_lt f Hf)) as E. unfold sumn in E. exact E.
Qed.

End PotentialGlue.

End FmmGlue.

Arguments memb f l : simpl nomatch.
Arguments slot_exact slot supp.
