(* C19 -- model of bempp_cl/api/grid/io.py (import_grid / export / _transform_array) as seen through meshio.
   No proofs in this file (it must still evaluate when a proof breaks).

   The facts that decide the behaviour (cell-data keys, fallback condition, geometrical numbering, data keys,
   real/imag split, per-block wrapping, transposition, transformation table) are a [variant] record; the
   record of the current source is regenerated on every run into gen/IoFacts.v ([cur]) by translators/iofacts.py.
   meshio (write followed by read) is a Section variable of the theorems (IO/MshProofs.v). *)
From Coq Require Import ZArith List String Bool.
Import ListNotations.
Open Scope Z_scope.

Inductive part := PAll | PRe | PIm.
Inductive tmode := TId | TReal | TImag | TAbs | TAbs2 | TLogAbs | TCall.

Record variant := {
  imp_phys : string; imp_geom : string; fb_none : bool; fb_zero : bool;
  exp_phys : string; exp_geom : string; exp_other : string; geom_base : Z;
  fmt_bin : string; fmt_ascii : string;
  node_method : string; node_T : bool; node_c : list (string * part * bool); node_r : list (string * part * bool);
  elem_method : string; elem_T : bool; elem_c : list (string * part * bool); elem_r : list (string * part * bool);
  modes : list (string * tmode) }.

(* the pinned tree (commit f71eeee), written by hand: the witness theorems are stated about it *)
Definition pinned : variant := {|
  imp_phys := "gmsh:physical"; imp_geom := "gmsh:geometrical"; fb_none := true; fb_zero := true;
  exp_phys := "gmsh:physical"; exp_geom := "gmsh:geometrical"; exp_other := "domain_index"; geom_base := 1;
  fmt_bin := "gmsh22"; fmt_ascii := "gmsh22";
  node_method := "evaluate_on_vertices"; node_T := true;
  node_c := [("real", PRe, false); ("imag", PIm, false)]; node_r := [("data", PAll, false)];
  elem_method := "evaluate_on_element_centers"; elem_T := true;
  elem_c := [("real", PRe, false); ("imag", PIm, false)]; elem_r := [("data", PAll, true)];
  modes := [("real", TReal); ("imag", TImag); ("abs", TAbs); ("abs_squared", TAbs2); ("log_abs", TLogAbs)] |}%string.

(* ---- integer casts of numpy: uint32 -> int32 (export) -> uint32 (Grid constructor) ---- *)
Definition two32 : Z := 4294967296.
Definition to_u32 (z : Z) : Z := z mod two32.
Definition to_i32 (z : Z) : Z := let r := z mod two32 in if r <? 2147483648 then r else r - two32.
Definition is_u32 (z : Z) : bool := (0 <=? z) && (z <? two32).

Fixpoint lookup {A} (k : string) (l : list (string * A)) : option A :=
  match l with
  | [] => None
  | (k', a) :: t => if String.eqb k k' then Some a else lookup k t
  end.

Fixpoint index_of (x : Z) (l : list Z) : Z :=
  match l with
  | [] => 0
  | y :: t => if Z.eqb x y then 0 else 1 + index_of x t
  end.

Definition tri := (Z * Z * Z)%type.
Definition map_tri (f : Z -> Z) (t : tri) : tri := let '(a, b, c) := t in (f a, f b, f c).

Section Grid.
  Variable V : Type.                       (* a vertex: three float64, opaque *)

  Record grid := { gv : list V; ge : list tri; gd : list Z }.
  (* what meshio holds: points, the "triangle" cell block, integer cell-data arrays by name *)
  Record mesh := { mpts : list V; mcells : list tri; mcd : list (string * list Z) }.

  (* `set(grid.domain_indices)` iterated: some duplicate-free enumeration; the order is hash order, i.e. arbitrary *)
  Variable uniq : list Z -> list Z.

  Definition export_cd (v : variant) (gmsh : bool) (dom : list Z) : list (string * list Z) :=
    if gmsh then
      [ (exp_phys v, map to_i32 dom);
        (exp_geom v, map (fun d => to_i32 (geom_base v + index_of d (uniq dom))) dom) ]
    else [ (exp_other v, map to_i32 dom) ].

  Definition export_grid (v : variant) (gmsh : bool) (g : grid) : mesh :=
    {| mpts := gv g; mcells := map (map_tri to_i32) (ge g); mcd := export_cd v gmsh (gd g) |}.

  Definition import_dom (v : variant) (m : mesh) : list Z :=
    let phys := lookup (imp_phys v) (mcd m) in
    let fb := match phys with None => fb_none v | Some d => fb_zero v && forallb (Z.eqb 0) d end in
    let di := if fb then match lookup (imp_geom v) (mcd m) with Some g => Some g | None => phys end else phys in
    match di with
    | Some d => map to_u32 d
    | None => repeat 0 (List.length (mcells m))
    end.

  Definition import_grid (v : variant) (m : mesh) : grid :=
    {| gv := mpts m; ge := map (map_tri to_u32) (mcells m); gd := import_dom v m |}.

  Definition tri_ok (t : tri) : bool := let '(a, b, c) := t in is_u32 a && is_u32 b && is_u32 c.
  Definition wf_grid (g : grid) : bool :=
    forallb is_u32 (gd g) && forallb tri_ok (ge g) && Nat.eqb (List.length (gd g)) (List.length (ge g)).

  Definition keys_ok (v : variant) : bool :=
    String.eqb (exp_phys v) "gmsh:physical" && String.eqb (imp_phys v) "gmsh:physical" &&
    String.eqb (exp_geom v) "gmsh:geometrical" && String.eqb (imp_geom v) "gmsh:geometrical" &&
    String.eqb (fmt_bin v) "gmsh22" && String.eqb (fmt_ascii v) "gmsh22".
End Grid.

Arguments gv {V}. Arguments ge {V}. Arguments gd {V}.
Arguments mpts {V}. Arguments mcells {V}. Arguments mcd {V}.

(* ---- grid-function data -------------------------------------------------------------------------------- *)
Section Data.
  Variable X : Type.                        (* a scalar value (float64 or complex128) *)
  Variables (x0 : X) (xadd : X -> X -> X) (xre xim xabs2 xsqrt xlog : X -> X).
  Variable call : list (list X) -> list (list X).     (* a user callable *)
  Variable call_cplx : bool.

  Definition arr := list (list X).          (* 2-d array as list of rows *)

  Fixpoint colsum (rows : arr) (n : nat) : list X :=
    match rows with
    | [] => repeat x0 n
    | r :: t => map (fun p => xadd (fst p) (snd p)) (combine r (colsum t n))
    end.

  (* _transform_array on a (components x n) array *)
  Definition transform (m : tmode) (a : arr) (n : nat) : arr :=
    match m with
    | TId => a
    | TReal => map (map xre) a
    | TImag => map (map xim) a
    | TAbs2 => [colsum (map (map xabs2) a) n]
    | TAbs => [map xsqrt (colsum (map (map xabs2) a) n)]
    | TLogAbs => [map xlog (map xsqrt (colsum (map (map xabs2) a) n))]
    | TCall => call a
    end.
  (* np.iscomplexobj of the transformed array (a dtype question) *)
  Definition out_complex (m : tmode) (cplx : bool) : bool :=
    match m with TId => cplx | TCall => call_cplx | _ => false end.

  Definition resolve_mode (v : variant) (name : option string) (callable : bool) : option tmode :=
    match name with
    | None => Some (if callable then TCall else TId)
    | Some s => lookup s (modes v)
    end.

  Fixpoint transpose (n : nat) (rows : arr) : arr :=     (* rows: c x n  ->  n x c *)
    match n with
    | O => []
    | S k => map (fun r => hd x0 r) rows :: transpose k (map (@tl X) rows)
    end.

  Definition take_part (p : part) (a : arr) : arr :=
    match p with PAll => a | PRe => map (map xre) a | PIm => map (map xim) a end.

  (* meshio.Mesh.__init__ consistency checks.
     point data: len(array) = number of points.
     cell data : the value is a list of blocks, one per cell block (here exactly 1), block k has one entry per cell.
                 An array that is not wrapped is read as "each row is a block". *)
  Definition point_check (a : arr) (npts : nat) : bool := Nat.eqb (List.length a) npts.
  Definition cell_check (wrapped : bool) (a : arr) (ncells : nat) : bool :=
    if wrapped then Nat.eqb (List.length a) ncells
    else Nat.eqb (List.length a) 1 && forallb (fun r => Nat.eqb (List.length r) ncells) a.

  Inductive dkind := Node | Element.

  (* the data part of `export`: Some (named arrays) or None when meshio raises ValueError *)
  Definition export_data (v : variant) (k : dkind) (cplx : bool) (m : tmode) (vals : arr) (n npts ncells : nat)
    : option (list (string * arr)) :=
    let t := transform m vals n in
    let tT := match k with Node => node_T v | Element => elem_T v end in
    let width := match t with [] => O | r :: _ => List.length r end in
    let data := if tT then transpose width t else t in
    let asg := match k, out_complex m cplx with
               | Node, true => node_c v | Node, false => node_r v
               | Element, true => elem_c v | Element, false => elem_r v end in
    let items := map (fun a => let '(key, p, w) := a in (key, w, take_part p data)) asg in
    let ok := forallb (fun it => let '(_, w, a) := it in
                         match k with Node => point_check a npts | Element => cell_check w a ncells end) items in
    if ok then Some (map (fun it => let '(key, _, a) := it in (key, a)) items) else None.

  Definition rect (a : arr) (c n : nat) : bool := Nat.eqb (List.length a) c && forallb (fun r => Nat.eqb (List.length r) n) a.

  Definition data_ok (v : variant) : bool :=
    node_T v && elem_T v &&
    match node_r v, node_c v, elem_r v, elem_c v with
    | [(_, PAll, _)], [(k1, PRe, _); (k2, PIm, _)], [(_, PAll, true)], [(k3, PRe, true); (k4, PIm, true)] =>
        negb (String.eqb k1 k2) && negb (String.eqb k3 k4)
    | _, _, _, _ => false
    end.
  (* everything of data_ok except the per-block wrapping of complex element data *)
  Definition data_ok_but_complex_element (v : variant) : bool :=
    node_T v && elem_T v &&
    match node_r v, node_c v, elem_r v with
    | [(_, PAll, _)], [(k1, PRe, _); (k2, PIm, _)], [(_, PAll, true)] => negb (String.eqb k1 k2)
    | _, _, _ => false
    end.
End Data.
