(* C19 -- proofs about the model IO/Msh.v.  meshio's write-then-read is the Section variable [rw] with the
   hypothesis that it preserves points, the triangle block and the two gmsh integer tag arrays (checked on the real
   meshio by the correspondence / search of the check for .msh ascii and binary). *)
From Coq Require Import ZArith List String Bool Lia.
From BV Require Import IO.Msh.
Import ListNotations.
Open Scope Z_scope.

Lemma u32_of_i32 : forall z, to_u32 (to_i32 z) = to_u32 z.
Proof.
  intro z. unfold to_u32, to_i32, two32. cbv zeta.
  destruct (z mod 4294967296 <? 2147483648) eqn:E.
  - apply Z.mod_mod. lia.
  - replace (z mod 4294967296 - 4294967296) with (z mod 4294967296 + (-1) * 4294967296) by lia.
    rewrite Z.mod_add by lia. apply Z.mod_mod. lia.
Qed.

Lemma u32_id : forall z, is_u32 z = true -> to_u32 z = z.
Proof.
  intros z H. unfold is_u32, two32 in H. apply andb_prop in H. destruct H as [H1 H2].
  apply Z.leb_le in H1. apply Z.ltb_lt in H2. unfold to_u32, two32. apply Z.mod_small. lia.
Qed.

Lemma u32_i32 : forall z, is_u32 z = true -> to_u32 (to_i32 z) = z.
Proof. intros. rewrite u32_of_i32. now apply u32_id. Qed.

Lemma i32_zero : forall z, is_u32 z = true -> Z.eqb 0 (to_i32 z) = Z.eqb 0 z.
Proof.
  intros z H. unfold is_u32, two32 in H. apply andb_prop in H. destruct H as [H1 H2].
  apply Z.leb_le in H1. apply Z.ltb_lt in H2. unfold to_i32, two32. cbv zeta.
  rewrite (Z.mod_small z) by lia.
  destruct (z <? 2147483648) eqn:E; [reflexivity|].
  apply Z.ltb_ge in E. destruct (Z.eqb_spec 0 (z - 4294967296)); destruct (Z.eqb_spec 0 z); try reflexivity; lia.
Qed.

Lemma map_u32_i32 : forall l, forallb is_u32 l = true -> map to_u32 (map to_i32 l) = l.
Proof.
  induction l; simpl; intros H; [reflexivity|]. apply andb_prop in H. destruct H.
  rewrite u32_i32 by assumption. now rewrite IHl.
Qed.

Lemma map_tri_u32_i32 : forall l, forallb tri_ok l = true -> map (map_tri to_u32) (map (map_tri to_i32) l) = l.
Proof.
  induction l as [|[[a b] c] l IH]; simpl; intros H; [reflexivity|].
  apply andb_prop in H. destruct H as [H1 H2]. apply andb_prop in H1. destruct H1 as [H1 Hc].
  apply andb_prop in H1. destruct H1 as [Ha Hb]. rewrite !u32_i32 by assumption. now rewrite IH.
Qed.

Lemma allzero_i32 : forall l, forallb is_u32 l = true -> forallb (Z.eqb 0) (map to_i32 l) = forallb (Z.eqb 0) l.
Proof.
  induction l; cbn [forallb map]; intros H; [reflexivity|]. apply andb_prop in H. destruct H.
  rewrite i32_zero by assumption. now rewrite IHl.
Qed.

Lemma index_of_zero : forall l, (forall x, In x l -> x = 0) -> index_of 0 l = 0.
Proof. destruct l; simpl; intros H; [reflexivity|]. rewrite (H z) by now left. reflexivity. Qed.

Lemma existsb_nonzero_false : forall l, existsb (fun d => negb (d =? 0)) l = false -> forall x, In x l -> x = 0.
Proof.
  induction l; simpl; intros H x Hin; [contradiction|]. apply orb_false_elim in H. destruct H as [H1 H2].
  destruct Hin as [<-|Hin]; [|now apply IHl]. apply negb_false_iff in H1. now apply Z.eqb_eq.
Qed.

Lemma existsb_nonzero_forallb : forall l, forallb (Z.eqb 0) l = negb (existsb (fun d => negb (d =? 0)) l).
Proof.
  induction l; cbn [forallb existsb]; [reflexivity|]. rewrite IHl, negb_orb, negb_involutive, (Z.eqb_sym 0 a). reflexivity.
Qed.

Section RoundTrip.
  Variable V : Type.
  Variable uniq : list Z -> list Z.
  Hypothesis uniq_incl : forall l x, In x (uniq l) -> In x l.
  Variable rw : mesh V -> mesh V.
  Hypothesis rw_points : forall m, mpts (rw m) = mpts m.
  Hypothesis rw_cells : forall m, mcells (rw m) = mcells m.
  Hypothesis rw_tags : forall m k, (k = "gmsh:physical" \/ k = "gmsh:geometrical")%string ->
                                    lookup k (mcd (rw m)) = lookup k (mcd m).

  Notation RT v g := (import_grid V v (rw (export_grid V uniq v true g))).

  Lemma keys : forall v, keys_ok v = true ->
    (exp_phys v = "gmsh:physical" /\ imp_phys v = "gmsh:physical" /\ exp_geom v = "gmsh:geometrical" /\
     imp_geom v = "gmsh:geometrical")%string.
  Proof.
    intros v H. unfold keys_ok in H. repeat (apply andb_prop in H; destruct H as [H ?]).
    repeat split; now apply String.eqb_eq.
  Qed.

  Lemma rt_dom : forall v g, keys_ok v = true -> wf_grid V g = true ->
    gd (RT v g) =
      if fb_zero v && forallb (Z.eqb 0) (gd g)
      then map (fun _ => to_u32 (geom_base v)) (gd g) else gd g.
  Proof.
    intros v g K W. destruct (keys v K) as (E1 & E2 & E3 & E4).
    unfold wf_grid in W. apply andb_prop in W. destruct W as [W W3]. apply andb_prop in W. destruct W as [W1 W2].
    unfold import_grid, import_dom. cbn [gd].
    rewrite E2, E4. rewrite !rw_tags by auto.
    unfold export_grid. cbn [mcd]. unfold export_cd. rewrite E1, E3. cbn [lookup String.eqb Ascii.eqb Bool.eqb].
    simpl lookup. rewrite allzero_i32 by assumption.
    destruct (fb_zero v && forallb (Z.eqb 0) (gd g)) eqn:F.
    - apply andb_prop in F. destruct F as [_ F]. rewrite map_map. apply map_ext_in. intros d Hd.
      rewrite u32_of_i32. rewrite existsb_nonzero_forallb in F. apply negb_true_iff in F.
      assert (Hz := existsb_nonzero_false _ F). rewrite (Hz d Hd).
      rewrite index_of_zero; [now rewrite Z.add_0_r|]. intros x Hx. apply Hz. now apply uniq_incl.
    - now apply map_u32_i32.
  Qed.

  Lemma rt_rest : forall v g, wf_grid V g = true -> gv (RT v g) = gv g /\ ge (RT v g) = ge g.
  Proof.
    intros v g W. unfold wf_grid in W. apply andb_prop in W. destruct W as [W W3]. apply andb_prop in W.
    destruct W as [W1 W2]. unfold import_grid. cbn [gv ge]. rewrite rw_points, rw_cells. split; [reflexivity|].
    cbn [export_grid mcells]. now apply map_tri_u32_i32.
  Qed.

  Lemma grid_eq : forall g h : grid V, gv g = gv h -> ge g = ge h -> gd g = gd h -> g = h.
  Proof. intros [a b c] [a' b' c']; simpl; intros; subst; reflexivity. Qed.

  (* vertices, elements always; domain indices whenever one of them is non-zero *)
  Theorem roundtrip_nonzero : forall v g, keys_ok v = true -> wf_grid V g = true ->
    existsb (fun d => negb (d =? 0)) (gd g) = true -> RT v g = g.
  Proof.
    intros v g K W Hnz. destruct (rt_rest v g W). apply grid_eq; try assumption.
    rewrite rt_dom by assumption. rewrite existsb_nonzero_forallb, Hnz. simpl. now rewrite andb_false_r.
  Qed.

  Theorem roundtrip_vertices_elements : forall v g, wf_grid V g = true -> gv (RT v g) = gv g /\ ge (RT v g) = ge g.
  Proof. exact rt_rest. Qed.

  (* exact characterisation of when the whole grid survives *)
  Theorem roundtrip_iff : forall v g, keys_ok v = true -> wf_grid V g = true ->
    (RT v g = g <->
     (existsb (fun d => negb (d =? 0)) (gd g) = true \/ fb_zero v = false \/ gd g = [] \/ to_u32 (geom_base v) = 0)).
  Proof.
    intros v g K W. split.
    - intro E. assert (Ed : gd (RT v g) = gd g) by now rewrite E.
      rewrite rt_dom in Ed by assumption. rewrite existsb_nonzero_forallb in Ed.
      destruct (existsb (fun d => negb (d =? 0)) (gd g)) eqn:X; [now left|].
      destruct (fb_zero v); [|now right; left]. simpl in Ed.
      destruct (gd g) as [|d l] eqn:G; [now right; right; left|]. right; right; right.
      assert (d = 0) by (apply (existsb_nonzero_false _ X); now left). simpl in Ed. congruence.
    - intros H. destruct (rt_rest v g W). apply grid_eq; try assumption. rewrite rt_dom by assumption.
      rewrite existsb_nonzero_forallb.
      destruct (existsb (fun d => negb (d =? 0)) (gd g)) eqn:X; [now rewrite andb_false_r|].
      destruct (fb_zero v); [|reflexivity]. simpl.
      destruct H as [H|[H|[H|H]]]; try discriminate.
      + now rewrite H.
      + rewrite H. assert (Hz := existsb_nonzero_false _ X). clear - Hz. induction (gd g); simpl; [reflexivity|].
        f_equal; [symmetry; apply Hz; now left | apply IHl; intros; apply Hz; now right].
  Qed.

  (* the all-zero case of a variant that falls back on all-zero physical tags *)
  Theorem roundtrip_zero : forall v g, keys_ok v = true -> wf_grid V g = true -> fb_zero v = true ->
    existsb (fun d => negb (d =? 0)) (gd g) = false ->
    gd (RT v g) = map (fun _ => to_u32 (geom_base v)) (gd g).
  Proof.
    intros v g K W F X. rewrite rt_dom by assumption. now rewrite F, existsb_nonzero_forallb, X.
  Qed.

  (* formats without gmsh tags: nothing but points and connectivity is promised *)
  Theorem other_formats : forall v g, wf_grid V g = true ->
    let m := rw (export_grid V uniq v false g) in
    mpts m = gv g /\ map (map_tri to_u32) (mcells m) = ge g.
  Proof.
    intros v g W. unfold wf_grid in W. apply andb_prop in W. destruct W as [W W3]. apply andb_prop in W.
    destruct W as [W1 W2]. cbv zeta. rewrite rw_points, rw_cells. split; [reflexivity|].
    cbn [export_grid mcells]. now apply map_tri_u32_i32.
  Qed.
End RoundTrip.

(* ---- witnesses on the pinned variant (meshio := identity satisfies the oracle hypotheses) ---- *)
Definition zero_grid : grid unit := {| gv := [tt; tt; tt]; ge := [(0, 1, 2)]; gd := [0] |}.

Lemma roundtrip_zero_refuted_pinned :
  exists g : grid unit, wf_grid unit g = true /\
    gd (import_grid unit pinned (export_grid unit (fun l => nodup Z.eq_dec l) pinned true g)) <> gd g.
Proof. exists zero_grid. split; [reflexivity|]. vm_compute. discriminate. Qed.

Lemma pinned_keys_ok : keys_ok pinned = true.
Proof. reflexivity. Qed.

Lemma oracle_satisfiable : exists rw : mesh unit -> mesh unit,
  (forall m, mpts (rw m) = mpts m) /\ (forall m, mcells (rw m) = mcells m) /\
  (forall m k, (k = "gmsh:physical" \/ k = "gmsh:geometrical")%string -> lookup k (mcd (rw m)) = lookup k (mcd m)).
Proof. exists (fun m => m). auto. Qed.

(* ---- data layout ---------------------------------------------------------------------------------------- *)
Section DataProofs.
  Variable X : Type.
  Variables (x0 : X) (xadd : X -> X -> X) (xre xim xabs2 xsqrt xlog : X -> X).
  Variable call : list (list X) -> list (list X).
  Variable call_cplx : bool.
  Notation arr := (list (list X)).
  Notation transpose := (transpose X x0).
  Notation transform := (transform X x0 xadd xre xim xabs2 xsqrt xlog call).
  Notation export_data := (export_data X x0 xadd xre xim xabs2 xsqrt xlog call call_cplx).
  Notation take_part := (take_part X xre xim).

  Lemma transpose_length : forall n rows, List.length (transpose n rows) = n.
  Proof. induction n; simpl; intros; [reflexivity|]. now rewrite IHn. Qed.

  Lemma transpose_width : forall n rows r, In r (transpose n rows) -> List.length r = List.length rows.
  Proof.
    induction n; simpl; intros rows r H; [contradiction|]. destruct H as [<-|H]; [apply map_length|].
    rewrite (IHn _ _ H). apply map_length.
  Qed.

  (* entry [i][c] of the exported array is entry [c][i] of the evaluated one *)
  Lemma transpose_nth : forall n rows i, (i < n)%nat ->
    nth i (transpose n rows) [] = map (fun r => nth i r x0) rows.
  Proof.
    induction n; intros rows i Hi; [lia|]. destruct i; simpl.
    - apply map_ext. intros [|a r]; reflexivity.
    - rewrite IHn by lia. rewrite map_map. apply map_ext. intros [|a r]; simpl; [now destruct i|reflexivity].
  Qed.

  Lemma take_part_length : forall p a, List.length (take_part p a) = List.length a.
  Proof. destruct p; simpl; intros; now rewrite ?map_length. Qed.

  Lemma take_part_rows : forall p a n, forallb (fun r => Nat.eqb (List.length r) n) a = true ->
    forallb (fun r => Nat.eqb (List.length r) n) (take_part p a) = true.
  Proof.
    destruct p; simpl; intros a n H; try assumption; rewrite forallb_forall in *; intros r Hr;
      apply in_map_iff in Hr; destruct Hr as (r' & <- & Hr'); rewrite map_length; now apply H.
  Qed.

  Lemma colsum_length : forall rows n, forallb (fun r => Nat.eqb (List.length r) n) rows = true ->
    List.length (colsum X x0 xadd rows n) = n.
  Proof.
    induction rows; simpl; intros n H; [apply repeat_length|]. apply andb_prop in H. destruct H as [H1 H2].
    rewrite map_length, combine_length, IHrows by assumption. apply Nat.eqb_eq in H1. lia.
  Qed.

  (* the named modes keep n columns and give >= 1 row when the input has >= 1 row *)
  Lemma transform_rect : forall m a c n, m <> TCall -> rect X a c n = true -> (1 <= c)%nat ->
    exists c', (1 <= c')%nat /\ rect X (transform m a n) c' n = true.
  Proof.
    intros m a c n Hm R Hc. unfold rect in R. apply andb_prop in R. destruct R as [R1 R2].
    assert (Hmap : forall f : X -> X, forallb (fun r => Nat.eqb (List.length r) n) (map (map f) a) = true).
    { intro f. rewrite forallb_forall in *. intros r Hr. apply in_map_iff in Hr. destruct Hr as (r' & <- & Hr').
      rewrite map_length. now apply R2. }
    destruct m; try congruence; simpl.
    - exists c. split; [assumption|]. unfold rect. now rewrite R1, R2.
    - exists c. split; [assumption|]. unfold rect. now rewrite map_length, R1, Hmap.
    - exists c. split; [assumption|]. unfold rect. now rewrite map_length, R1, Hmap.
    - exists 1%nat. split; [lia|]. unfold rect. simpl. now rewrite !map_length, colsum_length, Nat.eqb_refl by apply Hmap.
    - exists 1%nat. split; [lia|]. unfold rect. simpl. now rewrite colsum_length, Nat.eqb_refl by apply Hmap.
    - exists 1%nat. split; [lia|]. unfold rect. simpl. now rewrite !map_length, colsum_length, Nat.eqb_refl by apply Hmap.
  Qed.

  Lemma width_rect : forall (t : arr) c n, rect X t c n = true -> (1 <= c)%nat ->
    match t with [] => O | r :: _ => List.length r end = n.
  Proof.
    intros t c n R Hc. unfold rect in R. apply andb_prop in R. destruct R as [R1 R2]. destruct t; simpl in *.
    - destruct c; [lia|discriminate].
    - apply andb_prop in R2. destruct R2 as [R2 _]. now apply Nat.eqb_eq.
  Qed.

  Ltac crack H := repeat match type of H with
    | context [match ?x with _ => _ end] => destruct x eqn:?; try discriminate H
    end.

  Lemma data_ok_but_inv : forall v, data_ok_but_complex_element v = true ->
    node_T v = true /\ elem_T v = true /\
    exists k w k1 w1 k2 w2 k3, k1 <> k2 /\
      node_r v = [(k, PAll, w)] /\ node_c v = [(k1, PRe, w1); (k2, PIm, w2)] /\ elem_r v = [(k3, PAll, true)].
  Proof.
    intros v D. unfold data_ok_but_complex_element in D. apply andb_prop in D. destruct D as [D D3].
    apply andb_prop in D. destruct D as [D1 D2]. split; [assumption|]. split; [assumption|].
    crack D3. subst. do 7 eexists. split; [|repeat split; reflexivity].
    intro E. subst. now rewrite String.eqb_refl in D3.
  Qed.

  Lemma data_ok_inv : forall v, data_ok v = true ->
    data_ok_but_complex_element v = true /\
    exists k4 k5, k4 <> k5 /\ elem_c v = [(k4, PRe, true); (k5, PIm, true)].
  Proof.
    intros v D. unfold data_ok in D. apply andb_prop in D. destruct D as [D D3].
    unfold data_ok_but_complex_element. rewrite D. crack D3. subst.
    apply andb_prop in D3. destruct D3 as [D3 D4]. split; [assumption|].
    do 2 eexists. split; [|reflexivity]. intro E. subst. now rewrite String.eqb_refl in D4.
  Qed.

  (* node data, real result: one array, key from the source, = transposed transformed vertex values *)
  Theorem node_real : forall v m cplx vals c n ncells, data_ok_but_complex_element v = true ->
    m <> TCall -> rect X vals c n = true -> (1 <= c)%nat -> out_complex call_cplx m cplx = false ->
    exists key, export_data v Node cplx m vals n n ncells = Some [(key, transpose n (transform m vals n))].
  Proof.
    intros v m cplx vals c n ncells D Hm R Hc Oc.
    destruct (transform_rect m vals c n Hm R Hc) as (c' & Hc' & R').
    destruct (data_ok_but_inv v D) as (D1 & D2 & k & w & k1 & w1 & k2 & w2 & k3 & Hk & NR & NC & ER).
    exists k. unfold export_data. cbv zeta. rewrite Oc, D1, NR, (width_rect _ _ _ R' Hc'). simpl.
    unfold point_check. now rewrite transpose_length, Nat.eqb_refl.
  Qed.

  (* node data, complex result: two arrays (real and imaginary parts) under two different keys *)
  Theorem node_complex : forall v m cplx vals c n ncells, data_ok_but_complex_element v = true ->
    m <> TCall -> rect X vals c n = true -> (1 <= c)%nat -> out_complex call_cplx m cplx = true ->
    exists k1 k2, k1 <> k2 /\
      export_data v Node cplx m vals n n ncells =
        Some [(k1, map (map xre) (transpose n (transform m vals n)));
              (k2, map (map xim) (transpose n (transform m vals n)))].
  Proof.
    intros v m cplx vals c n ncells D Hm R Hc Oc.
    destruct (transform_rect m vals c n Hm R Hc) as (c' & Hc' & R').
    destruct (data_ok_but_inv v D) as (D1 & D2 & k & w & k1 & w1 & k2 & w2 & k3 & Hk & NR & NC & ER).
    exists k1, k2. split; [assumption|].
    unfold export_data. cbv zeta. rewrite Oc, D1, NC, (width_rect _ _ _ R' Hc'). simpl.
    unfold point_check. now rewrite !map_length, transpose_length, Nat.eqb_refl.
  Qed.

  (* element data, real result: wrapped into the single cell block *)
  Theorem element_real : forall v m cplx vals c n npts, data_ok_but_complex_element v = true ->
    m <> TCall -> rect X vals c n = true -> (1 <= c)%nat -> out_complex call_cplx m cplx = false ->
    exists key, export_data v Element cplx m vals n npts n = Some [(key, transpose n (transform m vals n))].
  Proof.
    intros v m cplx vals c n npts D Hm R Hc Oc.
    destruct (transform_rect m vals c n Hm R Hc) as (c' & Hc' & R').
    destruct (data_ok_but_inv v D) as (D1 & D2 & k & w & k1 & w1 & k2 & w2 & k3 & Hk & NR & NC & ER).
    exists k3. unfold export_data. cbv zeta. rewrite Oc, D2, ER, (width_rect _ _ _ R' Hc'). simpl.
    now rewrite transpose_length, Nat.eqb_refl.
  Qed.

  (* element data, complex result, every array wrapped (the repaired source): real and imaginary parts *)
  Theorem element_complex_wrapped : forall v m cplx vals c n npts, data_ok v = true ->
    m <> TCall -> rect X vals c n = true -> (1 <= c)%nat -> out_complex call_cplx m cplx = true ->
    exists k1 k2, k1 <> k2 /\
      export_data v Element cplx m vals n npts n =
        Some [(k1, map (map xre) (transpose n (transform m vals n)));
              (k2, map (map xim) (transpose n (transform m vals n)))].
  Proof.
    intros v m cplx vals c n npts D Hm R Hc Oc.
    destruct (transform_rect m vals c n Hm R Hc) as (c' & Hc' & R').
    destruct (data_ok_inv v D) as (D' & k4 & k5 & Hk45 & EC).
    destruct (data_ok_but_inv v D') as (D1 & D2 & _).
    exists k4, k5. split; [assumption|].
    unfold export_data. cbv zeta. rewrite Oc, D2, EC, (width_rect _ _ _ R' Hc'). simpl.
    now rewrite !map_length, transpose_length, Nat.eqb_refl.
  Qed.

  (* element data, complex result, arrays NOT wrapped (the pinned source): meshio rejects the export unless the
     grid has exactly one element and the data one component *)
  Theorem element_complex_unwrapped : forall v m cplx vals c n npts k1 k2,
    elem_T v = true -> elem_c v = [(k1, PRe, false); (k2, PIm, false)] ->
    m <> TCall -> rect X vals c n = true -> (1 <= c)%nat -> out_complex call_cplx m cplx = true ->
    (n <> 1%nat) -> export_data v Element cplx m vals n npts n = None.
  Proof.
    intros v m cplx vals c n npts k1 k2 T EC Hm R Hc Oc Hn.
    destruct (transform_rect m vals c n Hm R Hc) as (c' & Hc' & R').
    unfold export_data. cbv zeta. rewrite Oc, T, EC, (width_rect _ _ _ R' Hc'). simpl.
    rewrite !map_length, transpose_length. destruct (Nat.eqb_spec n 1); [contradiction|reflexivity].
  Qed.
End DataProofs.

(* witness on the pinned variant: a 2-element grid, scalar complex function, no transformation *)
Lemma complex_element_refuted_pinned :
  exists (vals : list (list Z)) (n : nat),
    rect Z vals 1 n = true /\
    export_data Z 0 Z.add (fun x => x) (fun x => x) (fun x => x) (fun x => x) (fun x => x) (fun a => a) true
                pinned Element true TId vals n 3 n = None.
Proof. exists [[1; 2]], 2%nat. split; reflexivity. Qed.

Lemma real_element_ok_pinned :
  export_data Z 0 Z.add (fun x => x) (fun x => x) (fun x => x) (fun x => x) (fun x => x) (fun a => a) true
              pinned Element false TId [[1; 2]] 2 3 2 = Some [("data"%string, [[1]; [2]])].
Proof. reflexivity. Qed.
