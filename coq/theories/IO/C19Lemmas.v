(* C19 -- the general theorems of IO/MshProofs.v instantiated at the variant regenerated from the current source
   (gen/IoFacts.v : cur).  Every [reflexivity] below re-checks a decidable condition on the *current* io.py. *)
From Coq Require Import ZArith List String Bool.
From BV Require Import IO.Msh IO.MshProofs.
From BVgen Require Import IoFacts.
Import ListNotations.
Open Scope Z_scope.

Lemma cur_keys_ok : keys_ok cur = true.
Proof. vm_compute. reflexivity. Qed.

Lemma cur_data_ok_but : data_ok_but_complex_element cur = true.
Proof. vm_compute. reflexivity. Qed.

Definition modes_expected : list (string * tmode) :=
  [("real", TReal); ("imag", TImag); ("abs", TAbs); ("abs_squared", TAbs2); ("log_abs", TLogAbs)]%string.
Definition mode_case_ok (p : string * tmode) : bool :=
  match lookup (fst p) (modes cur) with
  | Some TReal => match snd p with TReal => true | _ => false end
  | Some TImag => match snd p with TImag => true | _ => false end
  | Some TAbs => match snd p with TAbs => true | _ => false end
  | Some TAbs2 => match snd p with TAbs2 => true | _ => false end
  | Some TLogAbs => match snd p with TLogAbs => true | _ => false end
  | _ => false
  end.
Lemma cur_modes_sweep : forallb mode_case_ok modes_expected = true.
Proof. vm_compute. reflexivity. Qed.

Lemma cur_modes : forall name m, In (name, m) modes_expected -> mode_case_ok (name, m) = true.
Proof. intros name m H. exact (proj1 (forallb_forall _ _) cur_modes_sweep (name, m) H). Qed.

Section Cur.
  Variable V : Type.
  Variable uniq : list Z -> list Z.
  Hypothesis uniq_incl : forall l x, In x (uniq l) -> In x l.
  Variable rw : mesh V -> mesh V.
  Hypothesis rw_points : forall m, mpts (rw m) = mpts m.
  Hypothesis rw_cells : forall m, mcells (rw m) = mcells m.
  Hypothesis rw_tags : forall m k, (k = "gmsh:physical" \/ k = "gmsh:geometrical")%string ->
                                    lookup k (mcd (rw m)) = lookup k (mcd m).

  Lemma cur_roundtrip : forall g, wf_grid V g = true -> existsb (fun d => negb (d =? 0)) (gd g) = true ->
    import_grid V cur (rw (export_grid V uniq cur true g)) = g.
  Proof. intros. apply roundtrip_nonzero; auto using cur_keys_ok. Qed.

  Lemma cur_vertices_elements : forall (gmsh : bool) g, wf_grid V g = true ->
    let h := import_grid V cur (rw (export_grid V uniq cur gmsh g)) in gv h = gv g /\ ge h = ge g.
  Proof.
    intros gmsh g W. destruct gmsh.
    - now apply roundtrip_vertices_elements.
    - cbv zeta. unfold import_grid. cbn [gv ge]. now apply other_formats.
  Qed.
End Cur.

Section CurData.
  Variable X : Type.
  Variables (x0 : X) (xadd : X -> X -> X) (xre xim xabs2 xsqrt xlog : X -> X).
  Variable call : list (list X) -> list (list X).
  Variable call_cplx : bool.
  Notation transpose := (transpose X x0).
  Notation transform := (transform X x0 xadd xre xim xabs2 xsqrt xlog call).
  Notation export_data := (export_data X x0 xadd xre xim xabs2 xsqrt xlog call call_cplx).

  Lemma cur_data_layout : forall m cplx vals c n other, m <> TCall -> rect X vals c n = true -> (1 <= c)%nat ->
    (out_complex call_cplx m cplx = false ->
       (exists key, export_data cur Node cplx m vals n n other = Some [(key, transpose n (transform m vals n))]) /\
       (exists key, export_data cur Element cplx m vals n other n = Some [(key, transpose n (transform m vals n))])) /\
    (out_complex call_cplx m cplx = true ->
       exists k1 k2, k1 <> k2 /\
         export_data cur Node cplx m vals n n other =
           Some [(k1, map (map xre) (transpose n (transform m vals n)));
                 (k2, map (map xim) (transpose n (transform m vals n)))]).
  Proof.
    intros m cplx vals c n other Hm R Hc. split; intro Oc.
    - split; [eapply node_real | eapply element_real]; eauto using cur_data_ok_but.
    - eapply node_complex; eauto using cur_data_ok_but.
  Qed.
End CurData.

(* ---- the current source wraps every element array per cell block (complex element data: fix c241a79) ---- *)
Lemma cur_data_ok : data_ok cur = true.
Proof. vm_compute. reflexivity. Qed.

Section CurComplexElement.
  Variable X : Type.
  Variables (x0 : X) (xadd : X -> X -> X) (xre xim xabs2 xsqrt xlog : X -> X).
  Variable call : list (list X) -> list (list X).
  Variable call_cplx : bool.
  Lemma cur_complex_element : forall m cplx vals c n npts,
    m <> TCall -> rect X vals c n = true -> (1 <= c)%nat -> out_complex call_cplx m cplx = true ->
    exists k1 k2, k1 <> k2 /\
      export_data X x0 xadd xre xim xabs2 xsqrt xlog call call_cplx cur Element cplx m vals n npts n =
        Some [(k1, map (map xre) (transpose X x0 n (transform X x0 xadd xre xim xabs2 xsqrt xlog call m vals n)));
              (k2, map (map xim) (transpose X x0 n (transform X x0 xadd xre xim xabs2 xsqrt xlog call m vals n)))].
  Proof. intros. eapply element_complex_wrapped; eauto using cur_data_ok. Qed.
End CurComplexElement.

(* the current source still maps an all-zero grid to domain index 1 (recorded finding) *)
Lemma roundtrip_zero_refuted_cur :
  exists g : grid unit, wf_grid unit g = true /\
    gd (import_grid unit cur (export_grid unit (fun l => nodup Z.eq_dec l) cur true g)) <> gd g.
Proof. exists zero_grid. split; [reflexivity|]. vm_compute. discriminate. Qed.
