(* Comparison functions of the C19 correspondence check: the harness dumps what the implementation wrote / read
   back (through the real meshio) into a cases file; these functions run the model IO/Msh.v at the variant
   regenerated from the current source and report the indices of disagreeing cases. *)
From Coq Require Import QArith Qabs ZArith List String Bool.
From BV Require Import IO.Msh.
From BVgen Require Import IoFacts.
Import ListNotations.

Definition failing {A} (ok : A -> bool) (l : list A) : list nat :=
  map fst (filter (fun ic => negb (ok (snd ic))) (combine (seq 0 (List.length l)) l)).

Fixpoint forallb2 {A B} (f : A -> B -> bool) (l1 : list A) (l2 : list B) : bool :=
  match l1, l2 with
  | [], [] => true
  | a :: l1', b :: l2' => f a b && forallb2 f l1' l2'
  | _, _ => false end.

Definition zlist_eq (a b : list Z) : bool := forallb2 Z.eqb a b.
Definition opt_zlist_eq (a b : option (list Z)) : bool :=
  match a, b with None, None => true | Some x, Some y => zlist_eq x y | _, _ => false end.

Record gcase := { c_gmsh : bool; c_dom : list Z; c_uniq : list Z;
                  c_phys : option (list Z); c_geom : option (list Z); c_imp : list Z }.

(* (1) the tag arrays meshio read back are the ones the model says export writes (model of export + oracle),
   (2) the model of import applied to them gives the domain indices import_grid returned *)
Definition gcase_ok (c : gcase) : bool :=
  let cd := export_cd (fun _ => c_uniq c) cur (c_gmsh c) (c_dom c) in
  let m := {| mpts := @nil unit; mcells := repeat (0, 0, 0)%Z (List.length (c_dom c)); mcd := cd |} in
  opt_zlist_eq (lookup "gmsh:physical" cd) (c_phys c) &&
  opt_zlist_eq (lookup "gmsh:geometrical" cd) (c_geom c) &&
  zlist_eq (import_dom unit cur m) (c_imp c).

(* ---- data: complex rationals ---- *)
Open Scope Q_scope.
Definition QC := (Q * Q)%type.
Definition qc0 : QC := (0, 0).
Definition qcadd (a b : QC) : QC := (fst a + fst b, snd a + snd b).
Definition qcre (a : QC) : QC := (fst a, 0).
Definition qcim (a : QC) : QC := (snd a, 0).
Definition qcabs2 (a : QC) : QC := (fst a * fst a + snd a * snd a, 0).
Definition qcid (a : QC) : QC := a.
Definition qcdouble (a : list (list QC)) : list (list QC) := map (map (fun x => (2 * fst x, 2 * snd x))) a.

Record dcase := { d_kind : dkind; d_cplx : bool; d_mode : option string; d_callable : bool;
                  d_vals : list (list QC); d_n : nat; d_npts : nat; d_ncells : nat;
                  d_cmp : nat;     (* 0 exact, 1 relative 1e-12, 2 shapes only *)
                  d_file : option (list (string * list (list QC))) }.

Definition qclose (a b : Q) : bool := Qle_bool (Qabs (a - b)) ((1 # 1000000000000) * (1 + Qabs b)).
Definition qc_cmp (how : nat) (a b : QC) : bool :=
  match how with
  | O => Qeq_bool (fst a) (fst b) && Qeq_bool (snd a) (snd b)
  | S O => qclose (fst a) (fst b) && qclose (snd a) (snd b)
  | _ => true
  end.

Definition dcase_ok (c : dcase) : bool :=
  match resolve_mode cur (d_mode c) (d_callable c) with
  | None => false
  | Some m =>
    match export_data QC qc0 qcadd qcre qcim qcabs2 qcid qcid qcdouble (d_cplx c) cur (d_kind c) (d_cplx c) m
                      (d_vals c) (d_n c) (d_npts c) (d_ncells c), d_file c with
    | None, None => true
    | Some model, Some file =>
        Nat.eqb (List.length model) (List.length file) &&
        forallb (fun ka => match lookup (fst ka) file with
                           | Some f => forallb2 (forallb2 (qc_cmp (d_cmp c))) (snd ka) f
                           | None => false end) model
    | _, _ => false
    end
  end.
