(* Statements of C16 assembled from Space.ColouringProofs, Concurrency.Interleave, Concurrency.Launch and the
   generated Footprints; examples showing the hypotheses are satisfiable. *)
From Coq Require Import ZArith List Bool Arith Lia String.
From BV Require Import Space.DofMaps Space.Colouring Space.SpaceBasics Space.ColouringProofs Space.DofMapsProofs
  Concurrency.Interleave Concurrency.Launch Concurrency.FootprintFacts.
From BVgen Require Import Footprints.
Import ListNotations.

Theorem footprints_disjoint : forall w, In w footprints -> safe w.
Proof. intros w H. apply safe_of_canonical, all_slots_canonical, H. Qed.

(* every prange loop of the regular assemblers (those launched per colour by dense_assembler) writes the global
   matrix only through rows of dofs of its own test element; all other writes of all loops are private or own-slot *)
Definition shared_write (w : write) : bool := negb (is_private w).
Theorem footprints_classified :
  forallb (fun w => match w_class w with
                    | Private | OwnColumn | RowOfDof _ _ | OwnCsrRange _ _ | OwnSlot _ _ _ => true end) footprints = true.
Proof. apply forallb_forall. intros w _. destruct (w_class w); reflexivity. Qed.

(* ---- satisfiability examples ---- *)
(* two threads doing  result[c] += x  (Rd;Wr) on different cells, scheduled alternately, run to completion *)
Definition ex_prog (c : nat) : list (step nat nat nat) :=
  [Rd nat nat nat c (fun _ v => v); Wr nat nat nat c (fun l => l + 5)].
Example schedule_example :
  let r := run_sched nat Nat.eq_dec nat nat [0; 1; 1; 0] [ex_prog 3; ex_prog 4] [0; 0] (fun _ => 1) in
  (forall p, In p (fst (fst r)) -> p = []) /\ snd r 3 = 6 /\ snd r 4 = 6.
Proof. cbn. split; [intros p [<-|[<-|[]]]; reflexivity | split; reflexivity]. Qed.

(* an alias-closed space with a zero multiplier, its colouring, and the theorem's conclusion on it *)
Definition ex_space : space :=
  {| sp_n := 3; sp_k := 2;
     l2g := fun e i => match e, i with 0, 0 => 0 | 0, _ => 0 | 1, 0 => 0 | 1, _ => 1 | _, _ => 1 end;
     mult := fun e i => match e, i with 0, 1 => 0%Z | _, _ => 1%Z end;
     supp := fun _ => true |}.
Example alias_closed_example : alias_closedb ex_space = true /\
  option_map (tab1 3) (colour_map ex_space) = Some [0%Z; 1%Z; 0%Z].
Proof. vm_compute. split; reflexivity. Qed.
