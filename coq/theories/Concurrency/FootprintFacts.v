(* Hand-written half of C16_footprints_disjoint: the classes of stores that translators/footprints.py recognises
   inside prange loops, and the arithmetic that makes each class race free for ALL values of the loop-invariant
   quantities.  An environment (string -> nat) gives values to the names that occur in an index expression;
   two threads of one prange loop are two environments that agree on everything loop invariant and differ in the
   value of the parallel index. *)
From Coq Require Import List String Arith Lia ArithRing.
Import ListNotations.
Open Scope nat_scope.

Definition env := string -> nat.

Inductive wclass :=
| Private                                   (* array allocated inside the loop body *)
| OwnColumn                                 (* a[.., v] *)
| RowOfDof (dofs elems : string)            (* a[dofs[elems[v], f], ..] *)
| OwnCsrRange (ptr : string) (K : env -> nat)
| OwnSlot (pvar : string) (digits : list (string * (env -> nat))) (expr : env -> nat).

Record write := mkwrite { w_fn : string; w_loop : nat; w_line : nat; w_array : string; w_src : string;
                          w_class : wclass }.

Fixpoint radix_prod (e : env) (ds : list (string * (env -> nat))) : nat :=
  match ds with [] => 1 | d :: t => snd d e * radix_prod e t end.
Fixpoint mr_value (e : env) (ds : list (string * (env -> nat))) : nat :=
  match ds with [] => 0 | d :: t => e (fst d) * radix_prod e t + mr_value e t end.
Definition digits_in_range (e : env) (ds : list (string * (env -> nat))) : Prop :=
  Forall (fun d => e (fst d) < snd d e) ds.
Definition same_radices (e1 e2 : env) (ds : list (string * (env -> nat))) : Prop :=
  Forall (fun d => snd d e1 = snd d e2) ds.

(* the index expression of the source equals  v * (r1*...*rk) + mixed-radix(d1..dk)  in every environment;
   generated per store and closed by `ring` *)
Definition slot_canonical (w : write) : Prop :=
  match w_class w with
  | OwnSlot pv ds ex => forall e : env, ex e = e pv * radix_prod e ds + mr_value e ds
  | _ => True
  end.

Lemma mr_value_lt e ds : digits_in_range e ds -> mr_value e ds < radix_prod e ds.
Proof.
  induction 1 as [|d t Hd Ht IH]; simpl; [lia|].
  assert (e (fst d) * radix_prod e t + radix_prod e t <= snd d e * radix_prod e t).
  { replace (e (fst d) * radix_prod e t + radix_prod e t) with ((e (fst d) + 1) * radix_prod e t) by ring.
    apply Nat.mul_le_mono_r. lia. }
  lia.
Qed.
Lemma radix_prod_same e1 e2 ds : same_radices e1 e2 ds -> radix_prod e1 ds = radix_prod e2 ds.
Proof. induction 1 as [|d t Hd Ht IH]; simpl; [reflexivity|]. now rewrite Hd, IH. Qed.

(* two threads (different value of the parallel index) never compute the same own-slot index *)
Theorem own_slot_disjoint pv ds ex :
  (forall e : env, ex e = e pv * radix_prod e ds + mr_value e ds) ->
  forall e1 e2 : env, digits_in_range e1 ds -> digits_in_range e2 ds -> same_radices e1 e2 ds ->
  e1 pv <> e2 pv -> ex e1 <> ex e2.
Proof.
  intros Hc e1 e2 R1 R2 Hs Hne E. rewrite !Hc in E.
  pose proof (mr_value_lt e1 ds R1) as B1. pose proof (mr_value_lt e2 ds R2) as B2.
  rewrite <- (radix_prod_same e1 e2 ds Hs) in *. set (P := radix_prod e1 ds) in *.
  apply Hne.
  assert (forall a b x y, x < P -> y < P -> a * P + x = b * P + y -> a = b) as Key.
  { clear. intros a b x y Hx Hy E.
    destruct (Nat.lt_trichotomy a b) as [H|[H|H]]; [exfalso|assumption|exfalso].
    - assert ((a + 1) * P <= b * P) by (apply Nat.mul_le_mono_r; lia). lia.
    - assert ((b + 1) * P <= a * P) by (apply Nat.mul_le_mono_r; lia). lia. }
  exact (Key _ _ _ _ B1 B2 E).
Qed.

(* rows of a CSR structure: thread t writes positions K*ptr[t] + k with k < K*(ptr[t+1]-ptr[t]) *)
Theorem csr_range_disjoint (K : nat) (ptr : nat -> nat) t t' k k' :
  (forall a b, a <= b -> ptr a <= ptr b) -> t <> t' ->
  k < K * (ptr (S t) - ptr t) -> k' < K * (ptr (S t') - ptr t') ->
  K * ptr t + k <> K * ptr t' + k'.
Proof.
  intros Hm Hne Hk Hk' E.
  assert (forall a b x, a < b -> x < K * (ptr (S a) - ptr a) -> K * ptr a + x < K * ptr b) as Key.
  { intros a b x Hab Hx. assert (ptr (S a) <= ptr b) by (apply Hm; lia). pose proof (Hm a (S a) ltac:(lia)).
    assert (K * ptr a + K * (ptr (S a) - ptr a) = K * ptr (S a)) by (rewrite <- Nat.mul_add_distr_l; f_equal; lia).
    assert (K * ptr (S a) <= K * ptr b) by (apply Nat.mul_le_mono_l; assumption). lia. }
  destruct (Nat.lt_trichotomy t t') as [H|[H|H]]; [|contradiction|].
  - pose proof (Key t t' k H Hk). lia.
  - pose proof (Key t' t k' H Hk'). lia.
Qed.

Theorem own_column_disjoint (d d' i i' : nat) : i <> i' -> (d, i) <> (d', i').
Proof. intros H E. inversion E. contradiction. Qed.

(* what "safe" means for each class; RowOfDof is discharged by Concurrency.Launch.launch_disjoint (the launch
   receives one colour class and rows of equal colour are disjoint), Private by Numba's privatisation of in-body
   allocations (trusted, listed in the evidence) *)
Definition safe (w : write) : Prop :=
  match w_class w with
  | Private => True
  | OwnColumn => forall d d' i i' : nat, i <> i' -> (d, i) <> (d', i')
  | RowOfDof _ _ => True
  | OwnCsrRange _ K => forall (e : env) (ptr : nat -> nat) t t' k k',
      (forall a b, a <= b -> ptr a <= ptr b) -> t <> t' ->
      k < K e * (ptr (S t) - ptr t) -> k' < K e * (ptr (S t') - ptr t') -> K e * ptr t + k <> K e * ptr t' + k'
  | OwnSlot pv ds ex => forall e1 e2 : env, digits_in_range e1 ds -> digits_in_range e2 ds -> same_radices e1 e2 ds ->
      e1 pv <> e2 pv -> ex e1 <> ex e2
  end.

Theorem safe_of_canonical w : slot_canonical w -> safe w.
Proof.
  unfold slot_canonical, safe. destruct (w_class w) as [| |dofs elems|ptr K|pv ds ex]; intros H; auto.
  - intros; now apply own_column_disjoint.
  - intros e ptr0 t t' k k'. apply csr_range_disjoint.
  - now apply own_slot_disjoint.
Qed.

Definition is_row_of_dof (w : write) : bool := match w_class w with RowOfDof _ _ => true | _ => false end.
Definition is_private (w : write) : bool := match w_class w with Private => true | _ => false end.
