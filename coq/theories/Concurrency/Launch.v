(* H model of core/numba_assemblers.py:58 dense_assembler on top of Interleave + Colouring:
   one kernel launch per test colour; inside a launch one thread per test element of that colour (the prange of
   the regular kernels); the thread of test element e touches the global matrix only in the rows
   local2global[e, f] (row-of-dof writes, certified per kernel by the generated Footprints.v).
   Theorem: for every space whose zero-multiplier entries are alias closed, whatever the threads compute and
   however each launch is scheduled, the assembled matrix equals the one of the sequential execution. *)
From Coq Require Import ZArith List Bool Arith Lia.
From BV Require Import Space.DofMaps Space.Colouring Space.SpaceBasics Space.ColouringProofs Concurrency.Interleave.
Import ListNotations.

Definition mcell := (nat * nat)%type.     (* (row, column) of the result matrix *)
Definition mcell_eq_dec : forall a b : mcell, {a = b} + {a <> b}.
Proof. decide equality; apply Nat.eq_dec. Defined.

Section Launch.
Variable V L : Type.
Variable test : space.
Variable cm : nat -> Z.
Hypothesis Hal : alias_closed test.
Hypothesis Hcm : colour_map test = Some cm.
(* the thread of test element e: any program whose touched cells lie in rows local2global[e, .] *)
Variable prog : nat -> list (step mcell V L).
Hypothesis prog_rows : forall e c, fp mcell V L (prog e) c -> In (fst c) (l2g_row test e).

Lemma class_in_support c e : In e (colour_class (sp_n test) cm c) -> In e (support_elements test).
Proof.
  intros H. apply in_colour_class in H. destruct H as [Hn Hc].
  destruct (colouring_range test cm Hcm) as [_ Hout].
  destruct (in_dec Nat.eq_dec e (support_elements test)) as [Hs|Hs]; [assumption|].
  specialize (Hout e Hs). lia.
Qed.

Lemma NoDup_nth_error_inj {A} (l : list A) i j x :
  NoDup l -> nth_error l i = Some x -> nth_error l j = Some x -> i = j.
Proof.
  intros Hnd Hi Hj. apply (proj1 (NoDup_nth_error l) Hnd); [apply nth_error_Some; congruence | congruence].
Qed.

(* threads of one launch have pairwise disjoint footprints *)
Theorem launch_disjoint c : pairwise_disjoint mcell V L (map prog (colour_class (sp_n test) cm c)).
Proof.
  intros i j p q cl Hij Hi Hj Fp Fq.
  rewrite nth_error_map in Hi, Hj.
  destruct (nth_error (colour_class (sp_n test) cm c) i) as [e|] eqn:Ei; [|discriminate].
  destruct (nth_error (colour_class (sp_n test) cm c) j) as [f|] eqn:Ej; [|discriminate].
  simpl in Hi, Hj. injection Hi as <-. injection Hj as <-.
  assert (He : In e (colour_class (sp_n test) cm c)) by (eapply nth_error_In; eassumption).
  assert (Hf : In f (colour_class (sp_n test) cm c)) by (eapply nth_error_In; eassumption).
  assert (Hne : e <> f).
  { intros ->. apply Hij. eapply NoDup_nth_error_inj; try eassumption.
    unfold colour_class. apply NoDup_filter, seq_NoDup. }
  pose proof (class_in_support c e He) as Hse. pose proof (class_in_support c f Hf) as Hsf.
  apply in_colour_class in He. apply in_colour_class in Hf.
  assert (Hcol : cm e = cm f) by (destruct He, Hf; congruence).
  apply (colouring_proper test cm Hal Hcm e f Hse Hsf Hne Hcol (fst cl)); now apply prog_rows.
Qed.

(* the launches of dense_assembler, each with an arbitrary schedule and arbitrary initial thread states *)
Definition dense_launch (c : nat) (locals : list L) (sched : list nat) : launch mcell V L :=
  {| la_progs := map prog (colour_class (sp_n test) cm c); la_locals := locals; la_sched := sched |}.

Theorem dense_assembly_schedule_independent (locals : nat -> list L) (scheds : nat -> list nat) (m : mem mcell V) :
  (forall c, c < ncolours (sp_n test) cm ->
     length (locals c) = length (colour_class (sp_n test) cm c) /\
     forall m' p, In p (fst (fst (run_sched mcell mcell_eq_dec V L (scheds c)
                       (map prog (colour_class (sp_n test) cm c)) (locals c) m'))) -> p = []) ->
  let las := map (fun c => dense_launch c (locals c) (scheds c)) (seq 0 (ncolours (sp_n test) cm)) in
  meq mcell V (run_launches mcell mcell_eq_dec V L las m) (run_launches_seq mcell mcell_eq_dec V L las m).
Proof.
  intros H las. apply launches_schedule_independent; [apply meq_refl|].
  intros la Hin. apply in_map_iff in Hin. destruct Hin as (c & <- & Hc). apply in_seq in Hc.
  destruct (H c) as [Hlen Hdone]; [lia|].
  split; [simpl; now rewrite map_length|]. split; [apply launch_disjoint | exact Hdone].
Qed.
End Launch.
