(* Schedule independence of n threads with pairwise disjoint footprints (C16_schedule_independent).

   Shared memory is a map from cells to values.  A thread is a sequence of atomic steps over its own local state
   (of an arbitrary type L):
     Rd c k   read cell c and fold the value into the local state      (the load of  result[c] += x )
     Wr c g   write g(local state) to cell c                           (the store of result[c] += x )
     Loc h    a private computation
   so a non-atomic  +=  is the two steps Rd; Wr, and g is ANY function: no algebraic law of the addition is used.
   A schedule is any list of thread indices; entry i lets thread i execute its next step (nothing happens when
   thread i has finished).  Theorem: if the sets of cells touched by different threads are pairwise disjoint, every
   schedule that runs all threads to completion ends with the local states and the memory obtained by running the
   threads one after the other in index order.  Generalises /root/spikes/c/Interleave.v from two to n threads. *)
From Coq Require Import List Arith Lia.
Import ListNotations.

Section I.
Variable cell : Type.
Variable cell_eq_dec : forall a b : cell, {a = b} + {a <> b}.
Variable V : Type.   (* values stored in memory *)
Variable L : Type.   (* thread-local state *)

Definition mem := cell -> V.
Definition upd (m : mem) (c : cell) (v : V) : mem := fun c' => if cell_eq_dec c' c then v else m c'.
Definition meq (m m' : mem) := forall c, m c = m' c.

Inductive step :=
| Rd (c : cell) (k : L -> V -> L)
| Wr (c : cell) (g : L -> V)
| Loc (h : L -> L).

Definition exec1 (s : step) (l : L) (m : mem) : L * mem :=
  match s with
  | Rd c k => (k l (m c), m)
  | Wr c g => (l, upd m c (g l))
  | Loc h => (h l, m)
  end.

Fixpoint run_thread (p : list step) (l : L) (m : mem) : L * mem :=
  match p with [] => (l, m) | s :: p' => run_thread p' (fst (exec1 s l m)) (snd (exec1 s l m)) end.

Definition touches (s : step) (c : cell) : Prop :=
  match s with Rd c' _ => c' = c | Wr c' _ => c' = c | Loc _ => False end.
Definition fp (p : list step) (c : cell) : Prop := exists s, In s p /\ touches s c.

(* ---------- n threads ---------- *)
Fixpoint set_nth {A} (l : list A) (i : nat) (x : A) : list A :=
  match l, i with
  | [], _ => []
  | _ :: r, 0 => x :: r
  | a :: r, S j => a :: set_nth r j x
  end.

Fixpoint run_sched (sched : list nat) (ps : list (list step)) (ls : list L) (m : mem)
  : list (list step) * list L * mem :=
  match sched with
  | [] => (ps, ls, m)
  | i :: r =>
    match nth_error ps i, nth_error ls i with
    | Some (s :: p'), Some l =>
      run_sched r (set_nth ps i p') (set_nth ls i (fst (exec1 s l m))) (snd (exec1 s l m))
    | _, _ => run_sched r ps ls m
    end
  end.

Fixpoint run_seq (ps : list (list step)) (ls : list L) (m : mem) : list L * mem :=
  match ps, ls with
  | p :: ps', l :: ls' =>
    let r1 := run_thread p l m in
    let r2 := run_seq ps' ls' (snd r1) in
    (fst r1 :: fst r2, snd r2)
  | _, _ => ([], m)
  end.

Definition pairwise_disjoint (ps : list (list step)) : Prop :=
  forall i j p q c, i <> j -> nth_error ps i = Some p -> nth_error ps j = Some q -> fp p c -> fp q c -> False.

(* ---------- extensionality in the memory ---------- *)
Lemma meq_refl m : meq m m. Proof. intros c; reflexivity. Qed.
Lemma meq_trans m1 m2 m3 : meq m1 m2 -> meq m2 m3 -> meq m1 m3.
Proof. intros A B c. now rewrite A. Qed.
Lemma meq_sym m1 m2 : meq m1 m2 -> meq m2 m1.
Proof. intros A c. now rewrite A. Qed.

Lemma exec1_ext s l m m' : meq m m' ->
  fst (exec1 s l m) = fst (exec1 s l m') /\ meq (snd (exec1 s l m)) (snd (exec1 s l m')).
Proof.
  intros H. destruct s as [c k|c g|h]; simpl.
  - split; [now rewrite H | exact H].
  - split; [reflexivity|]. intros c'. unfold upd. destruct (cell_eq_dec c' c); auto.
  - split; [reflexivity | exact H].
Qed.
Lemma run_thread_ext p : forall l m m', meq m m' ->
  fst (run_thread p l m) = fst (run_thread p l m') /\ meq (snd (run_thread p l m)) (snd (run_thread p l m')).
Proof.
  induction p as [|s p IH]; intros l m m' H; simpl; [split; auto|].
  destruct (exec1_ext s l m m' H) as [E1 E2]. rewrite E1. apply IH, E2.
Qed.
Lemma run_seq_ext ps : forall ls m m', meq m m' ->
  fst (run_seq ps ls m) = fst (run_seq ps ls m') /\ meq (snd (run_seq ps ls m)) (snd (run_seq ps ls m')).
Proof.
  induction ps as [|p ps IH]; intros ls m m' H; simpl; [split; auto|].
  destruct ls as [|l ls]; simpl; [split; auto|].
  destruct (run_thread_ext p l m m' H) as [E1 E2].
  destruct (IH ls _ _ E2) as [F1 F2]. rewrite E1, F1. split; [reflexivity | exact F2].
Qed.

(* ---------- commutation ---------- *)
(* two steps that touch no common cell commute *)
Lemma exec1_comm s1 l1 s2 l2 m : (forall c, touches s1 c -> touches s2 c -> False) ->
  fst (exec1 s1 l1 (snd (exec1 s2 l2 m))) = fst (exec1 s1 l1 m) /\
  fst (exec1 s2 l2 (snd (exec1 s1 l1 m))) = fst (exec1 s2 l2 m) /\
  meq (snd (exec1 s1 l1 (snd (exec1 s2 l2 m)))) (snd (exec1 s2 l2 (snd (exec1 s1 l1 m)))).
Proof.
  intros D. destruct s1 as [c1 k1|c1 g1|h1], s2 as [c2 k2|c2 g2|h2]; simpl in *;
    repeat split; try (intros ?; reflexivity).
  - unfold upd. destruct (cell_eq_dec c1 c2); [subst; exfalso; eapply D; reflexivity | reflexivity].
  - unfold upd. destruct (cell_eq_dec c2 c1); [subst; exfalso; eapply D; reflexivity | reflexivity].
  - intros c. unfold upd. destruct (cell_eq_dec c c1), (cell_eq_dec c c2); try reflexivity.
    subst. exfalso. eapply D; reflexivity.
Qed.

(* a foreign step (touching no cell of p's footprint) commutes with the whole thread p *)
Lemma run_thread_comm p : forall s l2 l m, (forall c, touches s c -> fp p c -> False) ->
  fst (run_thread p l (snd (exec1 s l2 m))) = fst (run_thread p l m) /\
  fst (exec1 s l2 (snd (run_thread p l m))) = fst (exec1 s l2 m) /\
  meq (snd (run_thread p l (snd (exec1 s l2 m)))) (snd (exec1 s l2 (snd (run_thread p l m)))).
Proof.
  induction p as [|s1 p IH]; intros s l2 l m NF; simpl.
  - repeat split; intros ?; reflexivity.
  - assert (D : forall c, touches s1 c -> touches s c -> False).
    { intros c H1 H2. apply (NF c H2). exists s1. split; [now left | assumption]. }
    assert (NF' : forall c, touches s c -> fp p c -> False).
    { intros c H1 (s' & Hin & Ht). apply (NF c H1). exists s'. split; [now right | assumption]. }
    destruct (exec1_comm s1 l s l2 m D) as (A1 & A2 & A3).
    rewrite A1.
    destruct (run_thread_ext p (fst (exec1 s1 l m)) _ _ A3) as [B1 B2].
    destruct (IH s l2 (fst (exec1 s1 l m)) (snd (exec1 s1 l m)) NF') as (C1 & C2 & C3).
    split; [rewrite B1; exact C1|]. split; [rewrite C2; exact A2|].
    intros c. rewrite B2. apply C3.
Qed.

(* executing the next step of the thread in position |pre| first, and then all threads in order, is the same
   as running all threads in order *)
Lemma step_then_seq pre : forall lpre s p' post l lpost m,
  length pre = length lpre ->
  (forall q c, In q pre -> touches s c -> fp q c -> False) ->
  fst (run_seq (pre ++ p' :: post) (lpre ++ fst (exec1 s l m) :: lpost) (snd (exec1 s l m)))
  = fst (run_seq (pre ++ (s :: p') :: post) (lpre ++ l :: lpost) m) /\
  meq (snd (run_seq (pre ++ p' :: post) (lpre ++ fst (exec1 s l m) :: lpost) (snd (exec1 s l m))))
      (snd (run_seq (pre ++ (s :: p') :: post) (lpre ++ l :: lpost) m)).
Proof.
  induction pre as [|q pre IH]; intros lpre s p' post l lpost m Hlen NF.
  - destruct lpre; [|discriminate]. simpl. split; [reflexivity | apply meq_refl].
  - destruct lpre as [|lq lpre]; [discriminate|]. simpl in Hlen. injection Hlen as Hlen.
    assert (NFq : forall c, touches s c -> fp q c -> False) by (intros c; apply NF; now left).
    assert (NF' : forall q' c, In q' pre -> touches s c -> fp q' c -> False) by (intros q' c Hq; apply NF; now right).
    destruct (run_thread_comm q s l lq m NFq) as (C1 & C2 & C3).
    cbn [app run_seq]. cbv zeta.
    set (m2 := snd (run_thread q lq m)) in *.
    destruct (IH lpre s p' post l lpost m2 Hlen NF') as [I1 I2].
    rewrite C2 in I1, I2.
    destruct (run_seq_ext (pre ++ p' :: post) (lpre ++ fst (exec1 s l m) :: lpost) _ _ C3) as [E1 E2].
    cbn [fst snd]. rewrite C1, E1, I1. split; [reflexivity|].
    eapply meq_trans; [exact E2 | exact I2].
Qed.

Lemma set_nth_split {A} (pre : list A) x y post : set_nth (pre ++ x :: post) (length pre) y = pre ++ y :: post.
Proof. induction pre as [|a pre IH]; simpl; [reflexivity | now rewrite IH]. Qed.
Lemma set_nth_length {A} (l : list A) i x : length (set_nth l i x) = length l.
Proof. revert i; induction l as [|a l IH]; intros [|i]; simpl; auto. Qed.
Lemma nth_error_set_nth_eq {A} (l : list A) i x : i < length l -> nth_error (set_nth l i x) i = Some x.
Proof. revert i; induction l as [|a l IH]; intros [|i] H; simpl in *; try lia; [reflexivity | apply IH; lia]. Qed.
Lemma nth_error_set_nth_neq {A} (l : list A) i j x : i <> j -> nth_error (set_nth l i x) j = nth_error l j.
Proof.
  revert i j; induction l as [|a l IH]; intros [|i] [|j] H; simpl; try reflexivity; try congruence.
  apply IH. congruence.
Qed.

Lemma fp_tail s p c : fp p c -> fp (s :: p) c.
Proof. intros (s' & Hin & Ht). exists s'. split; [now right | assumption]. Qed.

Lemma pairwise_disjoint_step ps i s p' :
  pairwise_disjoint ps -> nth_error ps i = Some (s :: p') -> pairwise_disjoint (set_nth ps i p').
Proof.
  intros D Hi a b p q c Hab Ha Hb Fp Fq.
  assert (Hlt : i < length ps) by (apply nth_error_Some; congruence).
  destruct (Nat.eq_dec a i) as [->|Na], (Nat.eq_dec b i) as [->|Nb]; try congruence.
  - rewrite nth_error_set_nth_eq in Ha by assumption. injection Ha as <-.
    rewrite nth_error_set_nth_neq in Hb by congruence.
    apply (D i b (s :: p') q c Hab Hi Hb); [now apply fp_tail | assumption].
  - rewrite nth_error_set_nth_eq in Hb by assumption. injection Hb as <-.
    rewrite nth_error_set_nth_neq in Ha by congruence.
    apply (D a i p (s :: p') c Hab Ha Hi); [assumption | now apply fp_tail].
  - rewrite nth_error_set_nth_neq in Ha, Hb by congruence. apply (D a b p q c Hab Ha Hb Fp Fq).
Qed.

(* main invariant: the sequential run of what remains after any schedule prefix equals the sequential run of the
   initial configuration *)
Lemma sched_invariant sched : forall ps ls m,
  length ps = length ls -> pairwise_disjoint ps ->
  let r := run_sched sched ps ls m in
  fst (run_seq (fst (fst r)) (snd (fst r)) (snd r)) = fst (run_seq ps ls m) /\
  meq (snd (run_seq (fst (fst r)) (snd (fst r)) (snd r))) (snd (run_seq ps ls m)) /\
  length (fst (fst r)) = length (snd (fst r)).
Proof.
  induction sched as [|i sched IH]; intros ps ls m Hlen D; cbn [run_sched].
  - cbn. split; [reflexivity|]. split; [apply meq_refl | assumption].
  - destruct (nth_error ps i) as [[|s p']|] eqn:Ei; try (apply IH; assumption).
    destruct (nth_error ls i) as [l|] eqn:El; try (apply IH; assumption).
    assert (Hlt : i < length ps) by (apply nth_error_Some; congruence).
    destruct (nth_error_split ps i Ei) as (pre & post & -> & Hpre).
    destruct (nth_error_split ls i El) as (lpre & lpost & -> & Hlpre).
    subst i. rewrite set_nth_split. rewrite <- Hlpre. rewrite set_nth_split.
    assert (NF : forall q c, In q pre -> touches s c -> fp q c -> False).
    { intros q c Hq Ht Fq. apply In_nth_error in Hq. destruct Hq as (a & Ha).
      assert (Ha' : a < length pre) by (apply nth_error_Some; congruence).
      apply (D a (length pre) q (s :: p') c); try assumption; try lia.
      - rewrite nth_error_app1 by assumption. exact Ha.
      - exists s. split; [now left | assumption]. }
    destruct (step_then_seq pre lpre s p' post l lpost m (eq_sym Hlpre) NF) as [S1 S2].
    assert (Hlen' : length (pre ++ p' :: post) = length (lpre ++ fst (exec1 s l m) :: lpost)).
    { rewrite !app_length in *. simpl in *. lia. }
    assert (D' : pairwise_disjoint (pre ++ p' :: post)).
    { rewrite <- (set_nth_split pre (s :: p') p' post). eapply pairwise_disjoint_step; eassumption. }
    destruct (IH _ _ (snd (exec1 s l m)) Hlen' D') as (I1 & I2 & I3).
    cbv zeta in *. split; [rewrite I1; exact S1|]. split; [eapply meq_trans; [exact I2 | exact S2] | exact I3].
Qed.

Lemma run_seq_finished ps : forall ls m, length ps = length ls -> (forall p, In p ps -> p = []) ->
  run_seq ps ls m = (ls, m).
Proof.
  induction ps as [|p ps IH]; intros [|l ls] m Hlen Hall; try discriminate; [reflexivity|].
  simpl. rewrite (Hall p) by now left. simpl. rewrite IH; [reflexivity | simpl in Hlen; lia |].
  intros q Hq. apply Hall. now right.
Qed.

(* C16_schedule_independent *)
Theorem schedule_independent ps ls sched m :
  length ps = length ls -> pairwise_disjoint ps ->
  let r := run_sched sched ps ls m in
  (forall p, In p (fst (fst r)) -> p = []) ->
  snd (fst r) = fst (run_seq ps ls m) /\ meq (snd r) (snd (run_seq ps ls m)).
Proof.
  intros Hlen D r Hdone.
  destruct (sched_invariant sched ps ls m Hlen D) as (I1 & I2 & I3). fold r in I1, I2, I3.
  rewrite (run_seq_finished _ _ _ I3 Hdone) in I1, I2. simpl in I1, I2. split; assumption.
Qed.

Lemma run_sched_ext sched : forall ps ls m m', meq m m' ->
  fst (run_sched sched ps ls m) = fst (run_sched sched ps ls m') /\
  meq (snd (run_sched sched ps ls m)) (snd (run_sched sched ps ls m')).
Proof.
  induction sched as [|i sched IH]; intros ps ls m m' H; cbn [run_sched]; [split; [reflexivity | exact H]|].
  destruct (nth_error ps i) as [[|s p']|]; try (apply IH; assumption).
  destruct (nth_error ls i) as [l|]; try (apply IH; assumption).
  destruct (exec1_ext s l m m' H) as [E1 E2]. rewrite E1. apply IH, E2.
Qed.

(* ---------- a sequence of launches, each waiting for its threads to finish (one prange loop per launch) ---------- *)
Record launch := { la_progs : list (list step); la_locals : list L; la_sched : list nat }.
Definition launch_ok (la : launch) : Prop :=
  length (la_progs la) = length (la_locals la) /\ pairwise_disjoint (la_progs la) /\
  (forall m p, In p (fst (fst (run_sched (la_sched la) (la_progs la) (la_locals la) m))) -> p = []).
Fixpoint run_launches (las : list launch) (m : mem) : mem :=
  match las with
  | [] => m
  | la :: r => run_launches r (snd (run_sched (la_sched la) (la_progs la) (la_locals la) m))
  end.
Fixpoint run_launches_seq (las : list launch) (m : mem) : mem :=
  match las with
  | [] => m
  | la :: r => run_launches_seq r (snd (run_seq (la_progs la) (la_locals la) m))
  end.

Theorem launches_schedule_independent las : forall m m', meq m m' ->
  (forall la, In la las -> launch_ok la) -> meq (run_launches las m) (run_launches_seq las m').
Proof.
  induction las as [|la las IH]; intros m m' H Hok; cbn [run_launches run_launches_seq]; [exact H|].
  destruct (Hok la (or_introl eq_refl)) as (Hlen & D & Hdone).
  apply IH; [|intros la' Hin; apply Hok; now right].
  destruct (schedule_independent (la_progs la) (la_locals la) (la_sched la) m Hlen D (Hdone m)) as [_ E].
  eapply meq_trans; [exact E|]. apply run_seq_ext, H.
Qed.

(* a complete schedule always exists (round-robin is not needed: run thread 0 to the end, then thread 1, ...) so the
   hypothesis of the theorem is satisfiable; shown on an example in C16Lemmas *)
End I.
